"""Independent big-integer reference implementations (Python ints, hashlib) used ONLY to judge native replays.
Written from the RFCs / property statements: RFC 8032 (Ed25519), RFC 7748 (X25519), RFC 9496 (ristretto255)."""
import hashlib

P = 2**255 - 19
L = 2**252 + 27742317777372353535851937790883648493
D = (-121665 * pow(121666, P - 2, P)) % P
I = pow(2, (P - 1) // 4, P)
BY = 4 * pow(5, P - 2, P) % P


def inv(x):
    return pow(x, P - 2, P)


def sqrt_ratio_i(u, v):
    """RFC 9496 SQRT_RATIO_M1: (was_square, non-negative root)"""
    u %= P; v %= P
    r = (u * pow(v, 3, P)) * pow(u * pow(v, 7, P), (P - 5) // 8, P) % P
    check = v * r * r % P
    correct = check == u
    flipped = check == (-u) % P
    flipped_i = check == (-u * I) % P
    if flipped or flipped_i:
        r = r * I % P
    if r & 1:
        r = (-r) % P
    return (correct or flipped), r


def ed_recover_x(y, sign):
    u = (y * y - 1) % P
    v = (D * y * y + 1) % P
    ok, x = sqrt_ratio_i(u, v)
    if not ok:
        return None
    if (x & 1) != sign:
        x = (-x) % P
    return x


BX = ed_recover_x(BY, 0)
B = (BX, BY)
ID = (0, 1)


def ed_add(a, b):
    x1, y1 = a; x2, y2 = b
    t = D * x1 * x2 * y1 * y2 % P
    return ((x1 * y2 + y1 * x2) * inv(1 + t) % P, (y1 * y2 + x1 * x2) * inv(1 - t) % P)


def ed_neg(a):
    return ((-a[0]) % P, a[1])


def ed_mul(n, a):
    r = ID
    q = a
    while n > 0:
        if n & 1:
            r = ed_add(r, q)
        q = ed_add(q, q)
        n >>= 1
    return r


def ed_decode(b):
    """decompression as the property states it: y = low 255 bits reduced mod p; accept iff some x exists"""
    n = int.from_bytes(b, "little")
    sign = n >> 255
    y = (n & (2**255 - 1)) % P
    x = ed_recover_x(y, sign)
    if x is None:
        return None
    return (x, y)


def ed_encode(a):
    return (a[1] | ((a[0] & 1) << 255)).to_bytes(32, "little")


def on_curve(a):
    x, y = a
    return (y * y - x * x - 1 - D * x * x * y * y) % P == 0


# ---------------------------------------------------------------- ristretto255 (RFC 9496 §4.3)
SQRT_AD_MINUS_ONE = None
INVSQRT_A_MINUS_D = 54469307008909316920995813868745141605393597292927456921205312896311721017578  # RFC 9496 §4.1
assert INVSQRT_A_MINUS_D * INVSQRT_A_MINUS_D * (-1 - D) % P == 1
ONE_MINUS_D_SQ = (1 - D * D) % P
D_MINUS_ONE_SQ = (D - 1) * (D - 1) % P
SQRT_AD_MINUS_ONE = 25063068953384623474111414158702152701244531502492656460079210482610430750235  # RFC 9496 §4.1 (the odd root)
assert SQRT_AD_MINUS_ONE * SQRT_AD_MINUS_ONE % P == (-D - 1) % P


def is_neg(x):
    return (x % P) & 1


def ct_abs(x):
    x %= P
    return (-x) % P if x & 1 else x


def r255_decode(b):
    s = int.from_bytes(b, "little")
    if s >= P or is_neg(s):
        return None
    ss = s * s % P
    u1 = (1 - ss) % P
    u2 = (1 + ss) % P
    u2_sqr = u2 * u2 % P
    v = (-(D * u1 * u1) - u2_sqr) % P
    was_square, invsqrt = sqrt_ratio_i(1, v * u2_sqr % P)
    den_x = invsqrt * u2 % P
    den_y = invsqrt * den_x * v % P
    x = ct_abs(2 * s * den_x)
    y = u1 * den_y % P
    t = x * y % P
    if (not was_square) or is_neg(t) or y == 0:
        return None
    return (x, y, 1, t)


def r255_encode(pt):
    x0, y0, z0, t0 = pt
    u1 = (z0 + y0) * (z0 - y0) % P
    u2 = x0 * y0 % P
    _, invsqrt = sqrt_ratio_i(1, u1 * u2 * u2 % P)
    den1 = invsqrt * u1 % P
    den2 = invsqrt * u2 % P
    z_inv = den1 * den2 * t0 % P
    ix0 = x0 * I % P
    iy0 = y0 * I % P
    enchanted = den1 * INVSQRT_A_MINUS_D % P
    rotate = is_neg(t0 * z_inv)
    if rotate:
        x, y, den_inv = iy0, ix0, enchanted
    else:
        x, y, den_inv = x0, y0, den2
    if is_neg(x * z_inv):
        y = (-y) % P
    s = ct_abs(den_inv * (z0 - y))
    return s.to_bytes(32, "little")


def r255_map(t):
    r = I * t * t % P
    u = (r + 1) * ONE_MINUS_D_SQ % P
    v = (-1 - r * D) * (r + D) % P
    was_square, s = sqrt_ratio_i(u, v)
    s_prime = (-ct_abs(s * t)) % P
    s = s if was_square else s_prime
    c = (-1) % P if was_square else r
    n = (c * (r - 1) * D_MINUS_ONE_SQ - v) % P
    w0 = 2 * s * v % P
    w1 = n * SQRT_AD_MINUS_ONE % P
    w2 = (1 - s * s) % P
    w3 = (1 + s * s) % P
    return (w0 * w3 % P, w2 * w1 % P, w1 * w3 % P, w0 * w2 % P)


def ext_to_affine(pt):
    zi = inv(pt[2])
    return (pt[0] * zi % P, pt[1] * zi % P)


def affine_to_ext(a):
    return (a[0], a[1], 1, a[0] * a[1] % P)


def r255_one_way(b64):
    t1 = int.from_bytes(b64[:32], "little") & (2**255 - 1)
    t2 = int.from_bytes(b64[32:], "little") & (2**255 - 1)
    p1 = ext_to_affine(r255_map(t1 % P))
    p2 = ext_to_affine(r255_map(t2 % P))
    return r255_encode(affine_to_ext(ed_add(p1, p2)))


# ---------------------------------------------------------------- X25519 (RFC 7748 §5)
def clamp(k):
    k = bytearray(k)
    k[0] &= 248
    k[31] &= 127
    k[31] |= 64
    return bytes(k)


def ladder(kint, u, bits=255):
    x1 = u % P
    x2, z2, x3, z3, swap = 1, 0, x1, 1, 0
    for t in range(bits - 1, -1, -1):
        kt = (kint >> t) & 1
        swap ^= kt
        if swap:
            x2, x3 = x3, x2
            z2, z3 = z3, z2
        swap = kt
        A = (x2 + z2) % P; AA = A * A % P; Bq = (x2 - z2) % P; BB = Bq * Bq % P
        E = (AA - BB) % P; C = (x3 + z3) % P; Dq = (x3 - z3) % P
        DA = Dq * A % P; CB = C * Bq % P
        x3 = (DA + CB) ** 2 % P; z3 = x1 * (DA - CB) ** 2 % P
        x2 = AA * BB % P; z2 = E * (AA + 121665 * E) % P
    if swap:
        x2, x3 = x3, x2
        z2, z3 = z3, z2
    return x2 * pow(z2, P - 2, P) % P


def x25519(k, u):
    kint = int.from_bytes(clamp(k), "little")
    uint = int.from_bytes(u, "little") & (2**255 - 1)
    return ladder(kint, uint).to_bytes(32, "little")


def mont_to_edwards(ub, sign):
    u = (int.from_bytes(ub, "little") & (2**255 - 1)) % P
    if u == P - 1:
        return None
    y = (u - 1) * inv(u + 1) % P
    x = ed_recover_x(y, sign & 1)
    if x is None:
        return None
    return (x, y)


def ed_to_mont(a):
    x, y = a
    if y == 1:
        return 0
    return (1 + y) * inv(1 - y) % P


# ---------------------------------------------------------------- Ed25519 (RFC 8032 §5.1)
def sha512(*parts):
    h = hashlib.sha512()
    for p_ in parts:
        h.update(p_)
    return h.digest()


def expand(seed):
    h = sha512(seed)
    a = int.from_bytes(clamp(h[:32]), "little")
    return a, h[32:]


def public_key(seed):
    a, _ = expand(seed)
    return ed_encode(ed_mul(a, B))


def dom2(f, ctx):
    return b"SigEd25519 no Ed25519 collisions" + bytes([f, len(ctx)]) + ctx


def sign(seed, msg, ph_ctx=None):
    a, prefix = expand(seed)
    A = ed_encode(ed_mul(a, B))
    d = b"" if ph_ctx is None else dom2(1, ph_ctx)
    m = msg if ph_ctx is None else sha512(msg)
    r = int.from_bytes(sha512(d, prefix, m), "little") % L
    R = ed_encode(ed_mul(r, B))
    k = int.from_bytes(sha512(d, R, A, m), "little") % L
    S = (k * a + r) % L
    return R + S.to_bytes(32, "little")


def small_order(a):
    return ed_mul(8, a) == ID


def verify(pk, sig, msg, strict=False, ph_ctx=None, legacy=False):
    """the acceptance set of property C09"""
    A = ed_decode(pk)
    if A is None:
        return "BADKEY"
    Rb, Sb = sig[:32], sig[32:]
    S = int.from_bytes(Sb, "little")
    if legacy:
        if Sb[31] & 224:
            return False
    elif S >= L:
        return False
    if ph_ctx is not None and len(ph_ctx) > 255:
        return False
    d = b"" if ph_ctx is None else dom2(1, ph_ctx)
    m = msg if ph_ctx is None else sha512(msg)
    if strict:
        R = ed_decode(Rb)
        if R is None or small_order(R) or small_order(A):
            return False
    k = int.from_bytes(sha512(d, Rb, pk, m), "little") % L
    Rp = ed_add(ed_mul(S, B), ed_neg(ed_mul(k, A)))
    return ed_encode(Rp) == Rb


TORSION = None


def torsion_points():
    global TORSION
    if TORSION is None:
        # a point of order 8: y with x^2 = ... ; take T = (L * Q) for a curve point Q of full order
        y = 2
        while True:
            x = ed_recover_x(y % P, 0)
            if x is not None:
                T = ed_mul(L, (x, y % P))
                if ed_mul(4, T) != ID:
                    break
            y += 1
        TORSION = [ed_mul(k, T) for k in range(8)]
    return TORSION
