"""`check <prop> --replay <file>`: re-run a recorded violation against the repo under test.
If the replay file carries a native failing input it is re-executed on the real code (binary rebuilt from the repo);
otherwise the failed obligation's unit is re-extracted and re-verified. Exit 1 if the violation reproduces, 0 if not."""
import json, os, subprocess, sys
VERIF = os.path.dirname(os.path.dirname(os.path.abspath(__file__)))


def run(path, repo):
    d = json.load(open(path))
    fi = d.get("failing_input")
    if isinstance(fi, dict) and fi.get("request"):
        from vlib import refute
        kind = {"F64": "k64", "S64": "k64", "F32": "k32", "S32": "k32"}.get(d.get("unit"))
        if kind:
            b = refute._build(kind, repo)
            if b:
                got = refute._ask(b, [fi["request"]])[0]
                print("request:", fi["request"])
                print("recorded reply:", fi.get("reply"))
                print("reply now     :", got)
                same = got == fi.get("reply")
                print("REPRODUCED" if same else "NOT REPRODUCED (behaviour changed)")
                return 1 if same else 0
    if isinstance(fi, dict) and fi.get("unit_test"):
        print("Kani concrete-playback unit test recorded in the replay file; re-running the harness instead:")
    r = subprocess.run([os.path.join(VERIF, "check"), d["property"], "--units", d["unit"], "--repo", repo])
    return 1 if r.returncode == 1 else 0
