"""Step 3 of the decision protocol (DESIGN §4.3): try to REFUTE a failed Verus obligation on the real code.

For a candidate (unit, function) a native replay binary is built from the repo under test (real source files mounted
unmodified, overflow checks and debug assertions ON) and driven with a fixed corner set plus VERIF_SEED-seeded inputs;
outputs are judged by an independent big-integer oracle (Python ints). A mismatch or a panic is a failing input.
This is replay, not the deciding step: absence of a failing input does not discharge anything.
"""
import os, random, re, shutil, subprocess

VERIF = os.path.dirname(os.path.dirname(os.path.abspath(__file__)))
P = 2**255 - 19
L = 2**252 + 27742317777372353535851937790883648493


def _build(kind, repo):
    """kind: 'k64' | 'k32'. returns path of the binary or None"""
    src = os.path.join(VERIF, "replay", kind)
    wd = os.path.join(VERIF, ".work", "replay-" + kind)
    if os.path.exists(wd):
        shutil.rmtree(wd)
    shutil.copytree(src, wd, ignore=shutil.ignore_patterns("target"))
    for root, _, files in os.walk(wd):
        for fn in files:
            if fn.endswith(".rs"):
                p = os.path.join(root, fn)
                s = open(p).read()
                s2 = s.replace('"/repo/', '"%s/' % repo.rstrip("/"))
                if s2 != s:
                    open(p, "w").write(s2)
    vx = os.path.join(VERIF, "vx", "target", "release", "vx")
    bits = kind[1:]
    r = subprocess.run([vx, repo, os.path.join(VERIF, "replay", "consts%s.vx" % bits), os.path.join(wd, "src", "constants_gen.rs"),
                        os.path.join(wd, "consts.log.json")], capture_output=True, text=True)
    if r.returncode != 0:
        return None
    tdir = os.path.join(VERIF, ".work", "replay-target" + ("" if repo.rstrip("/") == "/repo" else "-alt"))
    r = subprocess.run(["cargo", "build", "--offline", "--target-dir", tdir], cwd=wd, capture_output=True, text=True,
                       env=dict(os.environ, CARGO_NET_OFFLINE="true"))
    if r.returncode != 0:
        return None
    return os.path.join(tdir, "debug", kind)


def _ask(binary, lines):
    p = subprocess.run([binary], input="\n".join(lines) + "\n", capture_output=True, text=True, timeout=600)
    return p.stdout.strip().split("\n")


# ---------------------------------------------------------------- representations
class Rep:
    def __init__(self, bits):
        self.bits = bits
        if bits == 64:
            self.fw = [51 * i for i in range(5)]
            self.fn = 5
            self.fnom = [51] * 5
            self.sw, self.sn, self.sr = 52, 5, 260
        else:
            self.fw = [(51 * i + 1) // 2 for i in range(10)]
            self.fn = 10
            self.fnom = [26 if i % 2 == 0 else 25 for i in range(10)]
            self.sw, self.sn, self.sr = 29, 9, 261

    def fval(self, l):
        return sum(int(x) << w for x, w in zip(l, self.fw))

    def sval(self, l):
        return sum(int(x) << (self.sw * i) for i, x in enumerate(l))

    def flimbs_of(self, v):
        """canonical-ish limbs of a value < 2^255"""
        out = []
        for i in range(self.fn):
            out.append((v >> self.fw[i]) & ((1 << self.fnom[i]) - 1))
        return out

    def slimbs_of(self, v):
        return [(v >> (self.sw * i)) & ((1 << self.sw) - 1) for i in range(self.sn)]


def field_inputs(rep, rng, n, excess_bits):
    """limb vectors: corners (all limbs at the bound, all-ones, values in [p, 2^255), 0, 1, p-1) + random unreduced"""
    outs = []
    top = [(1 << (b + excess_bits)) - 1 for b in rep.fnom]
    outs.append(top)
    outs.append([(1 << b) - 1 for b in rep.fnom])
    outs.append([0] * rep.fn)
    outs.append([1] + [0] * (rep.fn - 1))
    for v in (P - 1, P, P + 1, 2**255 - 1, 2**255 - 19 + 18, 19, 2**254):
        outs.append(rep.flimbs_of(v))
    for k in range(rep.fn):
        t = [0] * rep.fn
        t[k] = top[k]
        outs.append(t)
    while len(outs) < n:
        mode = rng.randrange(4)
        if mode == 0:
            outs.append([rng.randrange(0, t + 1) for t in top])
        elif mode == 1:
            outs.append([t - rng.randrange(0, 4) for t in top])
        elif mode == 2:
            outs.append(rep.flimbs_of(rng.randrange(0, 2**255)))
        else:
            outs.append([rng.choice([0, 1, t, t >> 1, (1 << b) - 1, (1 << b)]) for t, b in zip(top, rep.fnom)])
    return outs


def scalar_inputs(rep, rng, n):
    vals = [0, 1, 2, L - 1, L - 2, (L - 1) // 2, 2**252, 2**252 - 1, 2**252 + 1, L // 3]
    while len(vals) < n:
        vals.append(rng.randrange(0, L))
    return [rep.slimbs_of(v) for v in vals]


def try_refute(prop, v, repo, seed):
    unit = v.get("unit", "")
    fn = (v.get("fn") or "")
    name = fn.split("::")[-1].strip() if fn else ""
    if unit in ("F64", "F32"):
        return refute_field(64 if unit == "F64" else 32, name, repo, seed)
    if unit in ("S64", "S32"):
        return refute_scalar(64 if unit == "S64" else 32, name, repo, seed)
    return None


def _fmt(l):
    return " ".join(str(x) for x in l)


def refute_field(bits, name, repo, seed, n=400):
    rep = Rep(bits)
    binary = _build("k%d" % bits, repo)
    if binary is None:
        return None
    rng = random.Random(seed or 1)
    ops = {"mul": ["f.mul"], "mul_assign": ["f.mul"], "m": ["f.mul", "f.square"], "add": ["f.add"], "add_assign": ["f.add"], "sub": ["f.sub"],
           "sub_assign": ["f.sub"], "neg": ["f.neg"], "negate": ["f.neg"], "reduce": ["f.sub", "f.neg", "f.as_bytes"], "square": ["f.square"],
           "square2": ["f.square2"], "pow2k": ["f.pow2k", "f.square"], "square_inner": ["f.square", "f.pow2k"], "from_bytes": ["f.from_bytes"],
           "as_bytes": ["f.as_bytes"], "to_bytes": ["f.as_bytes"], "carry": ["f.sub", "f.neg", "f.as_bytes"], "load8": ["f.from_bytes"],
           "load3": ["f.from_bytes"], "load4": ["f.from_bytes"]}.get(name)
    if ops is None:
        ops = ["f.mul", "f.square", "f.sub", "f.add", "f.neg", "f.as_bytes", "f.from_bytes", "f.square2", "f.pow2k"]
    # documented headroom: u64 limbs < 2^54 (excess 3); u32: the mul kernel admits excess ~1.58 bits -> use weight-3 bound
    exc = 3 if bits == 64 else 1
    A = field_inputs(rep, rng, n, exc)
    B = field_inputs(rep, random.Random((seed or 1) + 7), n, exc)
    for op in ops:
        reqs, exp = [], []
        for a, b in zip(A, B):
            va, vb = rep.fval(a), rep.fval(b)
            if op == "f.mul":
                reqs.append("f.mul %s %s" % (_fmt(a), _fmt(b))); exp.append(("val", va * vb % P))
            elif op == "f.add":
                a1 = rep.flimbs_of(va % 2**255); b1 = rep.flimbs_of(vb % 2**255)
                reqs.append("f.add %s %s" % (_fmt(a1), _fmt(b1))); exp.append(("val", (rep.fval(a1) + rep.fval(b1)) % P))
            elif op == "f.sub":
                reqs.append("f.sub %s %s" % (_fmt(a), _fmt(b))); exp.append(("val", (va - vb) % P))
            elif op == "f.neg":
                reqs.append("f.neg %s" % _fmt(a)); exp.append(("val", (-va) % P))
            elif op == "f.square":
                reqs.append("f.square %s" % _fmt(a)); exp.append(("val", va * va % P))
            elif op == "f.square2":
                reqs.append("f.square2 %s" % _fmt(a)); exp.append(("val", 2 * va * va % P))
            elif op == "f.pow2k":
                k = 1 + (vb % 5)
                reqs.append("f.pow2k %s %d" % (_fmt(a), k)); exp.append(("val", pow(va, 2**k, P)))
            elif op == "f.from_bytes":
                bs = (va ^ (vb << 200)) % 2**256
                reqs.append("f.from_bytes %s" % bs.to_bytes(32, "little").hex()); exp.append(("val", (bs % 2**255) % P))
            elif op == "f.as_bytes":
                reqs.append("f.as_bytes %s" % _fmt(a)); exp.append(("bytes", (va % P).to_bytes(32, "little").hex()))
        got = _ask(binary, reqs)
        for rq, ex, g in zip(reqs, exp, got):
            if g.startswith("PANIC"):
                return {"kind": "panic in a build with overflow checks and debug assertions", "request": rq, "reply": g,
                        "replay": "echo '%s' | <replay binary built from /verif/replay/k%d against the repo>" % (rq, bits)}
            body = g[3:].strip()
            if ex[0] == "val":
                val = rep.fval(body.split()) % P
                if val != ex[1]:
                    return {"kind": "wrong value", "request": rq, "reply": g, "expected_value_mod_p": str(ex[1]), "actual_value_mod_p": str(val),
                            "oracle": "python big-int arithmetic mod 2^255-19"}
            else:
                if body != ex[1]:
                    return {"kind": "wrong encoding", "request": rq, "reply": g, "expected_bytes": ex[1], "oracle": "python big-int arithmetic mod 2^255-19"}
    return None


def refute_scalar(bits, name, repo, seed, n=300):
    rep = Rep(bits)
    binary = _build("k%d" % bits, repo)
    if binary is None:
        return None
    rng = random.Random(seed or 1)
    R = 2**rep.sr
    Rinv = pow(R, -1, L)
    A = scalar_inputs(rep, rng, n)
    B = scalar_inputs(rep, random.Random((seed or 1) + 11), n)
    rng.shuffle(B)
    allops = ["s.add", "s.sub", "s.mul", "s.square", "s.montgomery_mul", "s.from_bytes", "s.from_bytes_wide", "s.as_bytes", "s.as_montgomery", "s.from_montgomery"]
    ops = {"add": ["s.add"], "sub": ["s.sub", "s.add", "s.mul"], "mul": ["s.mul"], "square": ["s.square"], "montgomery_mul": ["s.montgomery_mul"],
           "montgomery_square": ["s.square"], "montgomery_reduce": ["s.mul", "s.montgomery_mul", "s.from_bytes_wide"], "part1": ["s.mul", "s.montgomery_mul"],
           "part2": ["s.mul", "s.montgomery_mul"], "mul_internal": ["s.mul"], "square_internal": ["s.square"], "from_bytes": ["s.from_bytes"],
           "from_bytes_wide": ["s.from_bytes_wide"], "as_bytes": ["s.as_bytes"], "to_bytes": ["s.as_bytes"], "as_montgomery": ["s.as_montgomery"],
           "from_montgomery": ["s.from_montgomery"], "m": ["s.mul"]}.get(name, allops)
    for op in ops:
        reqs, exp = [], []
        for a, b in zip(A, B):
            va, vb = rep.sval(a), rep.sval(b)
            if op == "s.add":
                reqs.append("s.add %s %s" % (_fmt(a), _fmt(b))); exp.append((va + vb) % L)
            elif op == "s.sub":
                reqs.append("s.sub %s %s" % (_fmt(a), _fmt(b))); exp.append((va - vb) % L)
            elif op == "s.mul":
                reqs.append("s.mul %s %s" % (_fmt(a), _fmt(b))); exp.append(va * vb % L)
            elif op == "s.square":
                reqs.append("s.square %s" % _fmt(a)); exp.append(va * va % L)
            elif op == "s.montgomery_mul":
                reqs.append("s.montgomery_mul %s %s" % (_fmt(a), _fmt(b))); exp.append(va * vb * Rinv % L)
            elif op == "s.as_montgomery":
                reqs.append("s.as_montgomery %s" % _fmt(a)); exp.append(va * R % L)
            elif op == "s.from_montgomery":
                reqs.append("s.from_montgomery %s" % _fmt(a)); exp.append(va * Rinv % L)
            elif op == "s.from_bytes":
                bs = (va * 2**3 + vb) % 2**256
                reqs.append("s.from_bytes %s" % bs.to_bytes(32, "little").hex()); exp.append(("raw", bs))
            elif op == "s.from_bytes_wide":
                bs = (va * 2**259 + vb * 977 + 5) % 2**512
                if len(reqs) == 0:
                    bs = 2**512 - 1
                reqs.append("s.from_bytes_wide %s" % bs.to_bytes(64, "little").hex()); exp.append(bs % L)
            elif op == "s.as_bytes":
                reqs.append("s.as_bytes %s" % _fmt(a)); exp.append(("bytes", va.to_bytes(32, "little").hex()))
        got = _ask(binary, reqs)
        for rq, ex, g in zip(reqs, exp, got):
            if g.startswith("PANIC"):
                return {"kind": "panic in a build with overflow checks and debug assertions", "request": rq, "reply": g}
            body = g[3:].strip()
            if isinstance(ex, tuple) and ex[0] == "bytes":
                if body != ex[1]:
                    return {"kind": "wrong encoding", "request": rq, "reply": g, "expected_bytes": ex[1]}
            else:
                want = ex[1] if isinstance(ex, tuple) else ex
                val = rep.sval(body.split())
                if val != want:
                    return {"kind": "wrong value", "request": rq, "reply": g, "expected_value": str(want), "actual_value": str(val),
                            "oracle": "python big-int arithmetic mod l"}
    return None


if __name__ == "__main__":
    import sys
    print(refute_field(64, sys.argv[1] if len(sys.argv) > 1 else "", "/repo", 1))
    print(refute_scalar(64, "", "/repo", 1))
    print(refute_field(32, "", "/repo", 1))
    print(refute_scalar(32, "", "/repo", 1))
