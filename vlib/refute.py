"""Step 3 of the decision protocol (DESIGN §4.3): try to REFUTE a failed Verus obligation on the real code.

For a candidate (unit, function) a native replay binary is built from the repo under test (real source files mounted
unmodified, overflow checks and debug assertions ON) and driven with a fixed corner set plus VERIF_SEED-seeded inputs;
outputs are judged by an independent big-integer oracle (Python ints). A mismatch or a panic is a failing input.
This is replay, not the deciding step: absence of a failing input does not discharge anything.
"""
import os, random, re, shutil, subprocess

VERIF = os.path.dirname(os.path.dirname(os.path.abspath(__file__)))
P = 2**255 - 19
L = 2**252 + 27742317777372353535851937790883648493


import fcntl, time as _time


class _ReplayLock:
    """serialises the shared replay work/target directories between concurrent checks (different properties, seed evaluation)"""
    def __enter__(self):
        os.makedirs(os.path.join(VERIF, ".work"), exist_ok=True)
        self.f = open(os.path.join(VERIF, ".work", "replay.lock"), "w")
        fcntl.flock(self.f, fcntl.LOCK_EX)
        return self

    def __exit__(self, *a):
        fcntl.flock(self.f, fcntl.LOCK_UN)
        self.f.close()


def _private_copy(binary, kind):
    """the freshly built binary is copied out under the lock, so that a later build for another tree cannot replace it while it runs"""
    bd = os.path.join(VERIF, ".work", "replay-bin")
    os.makedirs(bd, exist_ok=True)
    now = _time.time()
    for fn in os.listdir(bd):
        fp = os.path.join(bd, fn)
        try:
            if now - os.path.getmtime(fp) > 6 * 3600:
                os.remove(fp)
        except OSError:
            pass
    dst = os.path.join(bd, "%s-%d-%d" % (kind, os.getpid(), int(now * 1000)))
    shutil.copy2(binary, dst)
    return dst



def _build(kind, repo):
    """kind: 'k64' | 'k32'. returns path of the binary or None"""
    with _ReplayLock():
        b = _build_locked(kind, repo)
        return _private_copy(b, kind) if b else None


def _build_locked(kind, repo):
    src = os.path.join(VERIF, "replay", kind)
    wd = os.path.join(VERIF, ".work", "replay-" + kind)
    if os.path.exists(wd):
        shutil.rmtree(wd)
    shutil.copytree(src, wd, ignore=shutil.ignore_patterns("target"))
    for root, _, files in os.walk(wd):
        for fn in files:
            if fn.endswith(".rs"):
                p = os.path.join(root, fn)
                s = open(p).read()
                s2 = s.replace('"/repo/', '"%s/' % repo.rstrip("/"))
                if s2 != s:
                    open(p, "w").write(s2)
    vx = os.path.join(VERIF, "vx", "target", "release", "vx")
    bits = kind[1:]
    r = subprocess.run([vx, repo, os.path.join(VERIF, "replay", "consts%s.vx" % bits), os.path.join(wd, "src", "constants_gen.rs"),
                        os.path.join(wd, "consts.log.json")], capture_output=True, text=True)
    if r.returncode != 0:
        return None
    tdir = os.path.join(VERIF, ".work", "replay-target" + ("" if repo.rstrip("/") == "/repo" else "-alt"))
    r = subprocess.run(["cargo", "build", "--offline", "--target-dir", tdir], cwd=wd, capture_output=True, text=True,
                       env=dict(os.environ, CARGO_NET_OFFLINE="true"))
    if r.returncode != 0:
        return None
    return os.path.join(tdir, "debug", kind)


def _ask(binary, lines):
    p = subprocess.run([binary], input="\n".join(lines) + "\n", capture_output=True, text=True, timeout=600)
    return p.stdout.strip().split("\n")


# ---------------------------------------------------------------- representations
class Rep:
    def __init__(self, bits):
        self.bits = bits
        if bits == 64:
            self.fw = [51 * i for i in range(5)]
            self.fn = 5
            self.fnom = [51] * 5
            self.sw, self.sn, self.sr = 52, 5, 260
        else:
            self.fw = [(51 * i + 1) // 2 for i in range(10)]
            self.fn = 10
            self.fnom = [26 if i % 2 == 0 else 25 for i in range(10)]
            self.sw, self.sn, self.sr = 29, 9, 261

    def fval(self, l):
        return sum(int(x) << w for x, w in zip(l, self.fw))

    def sval(self, l):
        return sum(int(x) << (self.sw * i) for i, x in enumerate(l))

    def flimbs_of(self, v):
        """canonical-ish limbs of a value < 2^255"""
        out = []
        for i in range(self.fn):
            out.append((v >> self.fw[i]) & ((1 << self.fnom[i]) - 1))
        return out

    def slimbs_of(self, v):
        return [(v >> (self.sw * i)) & ((1 << self.sw) - 1) for i in range(self.sn)]


def field_inputs(rep, rng, n, excess_bits):
    """limb vectors: corners (all limbs at the bound, all-ones, values in [p, 2^255), 0, 1, p-1) + random unreduced"""
    outs = []
    top = [(1 << (b + excess_bits)) - 1 for b in rep.fnom]
    outs.append(top)
    outs.append([(1 << b) - 1 for b in rep.fnom])
    outs.append([0] * rep.fn)
    outs.append([1] + [0] * (rep.fn - 1))
    for v in (P - 1, P, P + 1, 2**255 - 1, 2**255 - 19 + 18, 19, 2**254):
        outs.append(rep.flimbs_of(v))
    for k in range(rep.fn):
        t = [0] * rep.fn
        t[k] = top[k]
        outs.append(t)
    while len(outs) < n:
        mode = rng.randrange(4)
        if mode == 0:
            outs.append([rng.randrange(0, t + 1) for t in top])
        elif mode == 1:
            outs.append([t - rng.randrange(0, 4) for t in top])
        elif mode == 2:
            outs.append(rep.flimbs_of(rng.randrange(0, 2**255)))
        else:
            outs.append([rng.choice([0, 1, t, t >> 1, (1 << b) - 1, (1 << b)]) for t, b in zip(top, rep.fnom)])
    return outs


def scalar_inputs(rep, rng, n):
    vals = [0, 1, 2, L - 1, L - 2, (L - 1) // 2, 2**252, 2**252 - 1, 2**252 + 1, L // 3]
    while len(vals) < n:
        vals.append(rng.randrange(0, L))
    return [rep.slimbs_of(v) for v in vals]


def try_refute(prop, v, repo, seed):
    unit = v.get("unit", "")
    fn = (v.get("fn") or "")
    name = fn.split("::")[-1].strip() if fn else ""
    if unit in ("F64", "F32"):
        return refute_field(64 if unit == "F64" else 32, name, repo, seed)
    if unit in ("CONST64", "CONST32"):
        return refute_basepoint_table(64 if unit == "CONST64" else 32, v.get("obligation") or "", repo)
    if unit in ("S64", "S32"):
        r = refute_scalar(64 if unit == "S64" else 32, name, repo, seed)
        return r if r is not None else refute_papi(unit, name, repo, seed)
    if unit in ("ED", "RIS", "MONT", "SG", "SGR", "SM", "SM2", "SIG", "FG", "GRP", "MSM", "VSM", "VMSM", "AVX2E", "AVX2F", "BATCH", "K-SERDE", "RIS2", "SMNT", "BV", "IFMAE", "IFMAF", "TRS", "HW", "RND", "FF64", "FF32"):
        return refute_papi(unit, name, repo, seed)
    return None


def refute_basepoint_table(bits, obligation, repo):
    """a failed entry obligation `ED25519_BASEPOINT_TABLE.<i>.<j>` of the serial constants file: entry (i, j) is [(j+1) * 256^i]B and fixed-base
    multiplication reads it for the radix-16 digit +-(j+1) at positions 2i (and 2i+1, times 16). The scalars that select exactly that entry (and its
    chain predecessor) are multiplied through the REAL `EdwardsPoint::mul_base` in a serial build of that word size and compared with the oracle."""
    import re as _re
    from vlib import oracle as O
    m = _re.search(r"ED25519_BASEPOINT_TABLE\.(\d+)\.(\d+)$", obligation)
    if not m:
        return None
    i, j = int(m.group(1)), int(m.group(2))
    backend = "serial" if bits == 64 else "serial32"
    binary = _build_papi(repo, backend)
    if binary is None:
        return None
    reqs, exps = [], []
    for k in sorted({j + 1, max(j, 1)}):
        for sc in (k * 256**i, 16 * k * 256**i, (O.L - k * 256**i) % O.L):
            if 0 < sc < 2**255:
                reqs.append("ed.mul_base %s" % _h(sc.to_bytes(32, "little")))
                exps.append(_h(O.ed_encode(O.ed_mul(sc, O.B))))
    got = _ask(binary, reqs)
    if len(got) != len(reqs):
        return None
    for rq, ex, g in zip(reqs, exps, got):
        if g.startswith("PANIC") or g[3:].strip() != ex:
            return {"kind": "wrong result", "request": rq, "reply": g[:400], "expected": ex, "papi": True,
                    "oracle": "vlib/oracle.py (repeated addition of the RFC 8032 base point)",
                    "backend": "built with " + _BACKEND_CFG.get(backend, '--cfg curve25519_dalek_backend="%s"' % backend)}
    return None


def _fmt(l):
    return " ".join(str(x) for x in l)


def refute_field(bits, name, repo, seed, n=400):
    rep = Rep(bits)
    binary = _build("k%d" % bits, repo)
    if binary is None:
        return None
    rng = random.Random(seed or 1)
    ops = {"mul": ["f.mul"], "mul_assign": ["f.mul"], "m": ["f.mul", "f.square"], "add": ["f.add"], "add_assign": ["f.add"], "sub": ["f.sub"],
           "sub_assign": ["f.sub"], "neg": ["f.neg"], "negate": ["f.neg"], "reduce": ["f.sub", "f.neg", "f.as_bytes"], "square": ["f.square"],
           "square2": ["f.square2"], "pow2k": ["f.pow2k", "f.square"], "square_inner": ["f.square", "f.pow2k"], "from_bytes": ["f.from_bytes"],
           "as_bytes": ["f.as_bytes"], "to_bytes": ["f.as_bytes"], "carry": ["f.sub", "f.neg", "f.as_bytes"], "load8": ["f.from_bytes"],
           "load3": ["f.from_bytes"], "load4": ["f.from_bytes"]}.get(name)
    if ops is None:
        ops = ["f.mul", "f.square", "f.sub", "f.add", "f.neg", "f.as_bytes", "f.from_bytes", "f.square2", "f.pow2k"]
    # documented headroom: u64 limbs < 2^54 (excess 3); u32: the mul kernel admits excess ~1.58 bits -> use weight-3 bound
    exc = 3 if bits == 64 else 1
    A = field_inputs(rep, rng, n, exc)
    B = field_inputs(rep, random.Random((seed or 1) + 7), n, exc)
    for op in ops:
        reqs, exp = [], []
        for a, b in zip(A, B):
            va, vb = rep.fval(a), rep.fval(b)
            if op == "f.mul":
                reqs.append("f.mul %s %s" % (_fmt(a), _fmt(b))); exp.append(("val", va * vb % P))
            elif op == "f.add":
                a1 = rep.flimbs_of(va % 2**255); b1 = rep.flimbs_of(vb % 2**255)
                reqs.append("f.add %s %s" % (_fmt(a1), _fmt(b1))); exp.append(("val", (rep.fval(a1) + rep.fval(b1)) % P))
            elif op == "f.sub":
                reqs.append("f.sub %s %s" % (_fmt(a), _fmt(b))); exp.append(("val", (va - vb) % P))
            elif op == "f.neg":
                reqs.append("f.neg %s" % _fmt(a)); exp.append(("val", (-va) % P))
            elif op == "f.square":
                reqs.append("f.square %s" % _fmt(a)); exp.append(("val", va * va % P))
            elif op == "f.square2":
                reqs.append("f.square2 %s" % _fmt(a)); exp.append(("val", 2 * va * va % P))
            elif op == "f.pow2k":
                k = 1 + (vb % 5)
                reqs.append("f.pow2k %s %d" % (_fmt(a), k)); exp.append(("val", pow(va, 2**k, P)))
            elif op == "f.from_bytes":
                bs = (va ^ (vb << 200)) % 2**256
                reqs.append("f.from_bytes %s" % bs.to_bytes(32, "little").hex()); exp.append(("val", (bs % 2**255) % P))
            elif op == "f.as_bytes":
                reqs.append("f.as_bytes %s" % _fmt(a)); exp.append(("bytes", (va % P).to_bytes(32, "little").hex()))
        got = _ask(binary, reqs)
        for rq, ex, g in zip(reqs, exp, got):
            if g.startswith("PANIC"):
                return {"kind": "panic in a build with overflow checks and debug assertions", "request": rq, "reply": g,
                        "replay": "echo '%s' | <replay binary built from /verif/replay/k%d against the repo>" % (rq, bits)}
            body = g[3:].strip()
            if ex[0] == "val":
                val = rep.fval(body.split()) % P
                if val != ex[1]:
                    return {"kind": "wrong value", "request": rq, "reply": g, "expected_value_mod_p": str(ex[1]), "actual_value_mod_p": str(val),
                            "oracle": "python big-int arithmetic mod 2^255-19"}
            else:
                if body != ex[1]:
                    return {"kind": "wrong encoding", "request": rq, "reply": g, "expected_bytes": ex[1], "oracle": "python big-int arithmetic mod 2^255-19"}
    return None


def refute_scalar(bits, name, repo, seed, n=300):
    rep = Rep(bits)
    binary = _build("k%d" % bits, repo)
    if binary is None:
        return None
    rng = random.Random(seed or 1)
    R = 2**rep.sr
    Rinv = pow(R, -1, L)
    A = scalar_inputs(rep, rng, n)
    B = scalar_inputs(rep, random.Random((seed or 1) + 11), n)
    rng.shuffle(B)
    allops = ["s.add", "s.sub", "s.mul", "s.square", "s.montgomery_mul", "s.from_bytes", "s.from_bytes_wide", "s.as_bytes", "s.as_montgomery", "s.from_montgomery"]
    ops = {"add": ["s.add"], "sub": ["s.sub", "s.add", "s.mul"], "mul": ["s.mul"], "square": ["s.square"], "montgomery_mul": ["s.montgomery_mul"],
           "montgomery_square": ["s.square"], "montgomery_reduce": ["s.mul", "s.montgomery_mul", "s.from_bytes_wide"], "part1": ["s.mul", "s.montgomery_mul"],
           "part2": ["s.mul", "s.montgomery_mul"], "mul_internal": ["s.mul"], "square_internal": ["s.square"], "from_bytes": ["s.from_bytes"],
           "from_bytes_wide": ["s.from_bytes_wide"], "as_bytes": ["s.as_bytes"], "to_bytes": ["s.as_bytes"], "as_montgomery": ["s.as_montgomery"],
           "from_montgomery": ["s.from_montgomery"], "m": ["s.mul"]}.get(name, allops)
    for op in ops:
        reqs, exp = [], []
        for a, b in zip(A, B):
            va, vb = rep.sval(a), rep.sval(b)
            if op == "s.add":
                reqs.append("s.add %s %s" % (_fmt(a), _fmt(b))); exp.append((va + vb) % L)
            elif op == "s.sub":
                reqs.append("s.sub %s %s" % (_fmt(a), _fmt(b))); exp.append((va - vb) % L)
            elif op == "s.mul":
                reqs.append("s.mul %s %s" % (_fmt(a), _fmt(b))); exp.append(va * vb % L)
            elif op == "s.square":
                reqs.append("s.square %s" % _fmt(a)); exp.append(va * va % L)
            elif op == "s.montgomery_mul":
                reqs.append("s.montgomery_mul %s %s" % (_fmt(a), _fmt(b))); exp.append(va * vb * Rinv % L)
            elif op == "s.as_montgomery":
                reqs.append("s.as_montgomery %s" % _fmt(a)); exp.append(va * R % L)
            elif op == "s.from_montgomery":
                reqs.append("s.from_montgomery %s" % _fmt(a)); exp.append(va * Rinv % L)
            elif op == "s.from_bytes":
                bs = (va * 2**3 + vb) % 2**256
                reqs.append("s.from_bytes %s" % bs.to_bytes(32, "little").hex()); exp.append(("raw", bs))
            elif op == "s.from_bytes_wide":
                bs = (va * 2**259 + vb * 977 + 5) % 2**512
                if len(reqs) == 0:
                    bs = 2**512 - 1
                reqs.append("s.from_bytes_wide %s" % bs.to_bytes(64, "little").hex()); exp.append(bs % L)
            elif op == "s.as_bytes":
                reqs.append("s.as_bytes %s" % _fmt(a)); exp.append(("bytes", va.to_bytes(32, "little").hex()))
        got = _ask(binary, reqs)
        for rq, ex, g in zip(reqs, exp, got):
            if g.startswith("PANIC"):
                return {"kind": "panic in a build with overflow checks and debug assertions", "request": rq, "reply": g}
            body = g[3:].strip()
            if isinstance(ex, tuple) and ex[0] == "bytes":
                if body != ex[1]:
                    return {"kind": "wrong encoding", "request": rq, "reply": g, "expected_bytes": ex[1]}
            else:
                want = ex[1] if isinstance(ex, tuple) else ex
                val = rep.sval(body.split())
                if val != want:
                    return {"kind": "wrong value", "request": rq, "reply": g, "expected_value": str(want), "actual_value": str(val),
                            "oracle": "python big-int arithmetic mod l"}
    return None


if __name__ == "__main__":
    import sys
    print(refute_field(64, sys.argv[1] if len(sys.argv) > 1 else "", "/repo", 1))
    print(refute_scalar(64, "", "/repo", 1))
    print(refute_field(32, "", "/repo", 1))
    print(refute_scalar(32, "", "/repo", 1))


# ======================================================================================================================
# public-API replay (papi): used for units above the kernels (ED, RIS, MONT, SG, SM, SIG) when an obligation fails or the
# extraction is undecided. Inputs: corner sets per family (non-canonical encodings, torsion / exceptional points, u = -1,
# scalars around l, 2^252, 2^255) plus VERIF_SEED-seeded random ones; judged by vlib/oracle.py.
def _build_papi(repo, backend=None):
    """backend: None = the crate's default (run-time dispatch: AVX2 on this host); "serial" = --cfg curve25519_dalek_backend="serial",
    so that the SERIAL copies of the scalar-multiplication algorithms are the code that runs"""
    with _ReplayLock():
        b = _build_papi_locked(repo, backend)
        return _private_copy(b, "papi" + ("-" + backend if backend else "")) if b else None


def _build_papi_locked(repo, backend=None):
    src = os.path.join(VERIF, "replay", "papi")
    wd = os.path.join(VERIF, ".work", "replay-papi" + ("" if repo.rstrip("/") == "/repo" else "-alt"))
    if os.path.exists(wd):
        shutil.rmtree(wd)
    shutil.copytree(src, wd, ignore=shutil.ignore_patterns("target", "Cargo.lock"))
    p = os.path.join(wd, "Cargo.toml")
    s = open(p).read().replace('"/repo/', '"%s/' % repo.rstrip("/"))
    open(p, "w").write(s)
    lock = os.path.join(repo, "Cargo.lock")
    if os.path.exists(lock):
        shutil.copy(lock, os.path.join(wd, "Cargo.lock"))
    tdir = os.path.join(VERIF, ".work", "replay-target" + ("" if repo.rstrip("/") == "/repo" else "-alt") + ("-" + backend if backend else ""))
    env = dict(os.environ, CARGO_NET_OFFLINE="true")
    if backend:
        env["RUSTFLAGS"] = (env.get("RUSTFLAGS", "") + " " + _BACKEND_CFG.get(backend, '--cfg curve25519_dalek_backend="%s"' % backend)).strip()
    r = subprocess.run(["cargo", "build", "--offline", "--target-dir", tdir], cwd=wd, capture_output=True, text=True, env=env)
    if r.returncode != 0:
        return None
    return os.path.join(tdir, "debug", "papi")


def _h(b):
    return b.hex() if len(b) else "-"


def _enc_variants(rng, n_random=24):
    """32-byte strings interesting for every decoder: canonical corners, non-canonical values in [p, 2^255), top bit set"""
    from vlib import oracle as O
    vals = [0, 1, 2, 3, 4, 5, 9, O.P - 1, O.P - 2, O.P, O.P + 1, O.P + 2, O.P + 3, O.P + 4, O.P + 5, O.P + 6, O.P + 18, 2**255 - 1, 2**255 - 20,
            (O.P - 1) // 2, (O.P + 1) // 2, O.I, O.P - O.I, O.BY, 2**254, 2**252, O.L, O.L - 1]
    out = []
    for v in vals:
        out.append((v % 2**256).to_bytes(32, "little"))
        out.append(((v | 2**255) % 2**256).to_bytes(32, "little"))
    for T in O.torsion_points():
        e = O.ed_encode(T)
        out.append(e)
        n = int.from_bytes(e, "little")
        out.append((n ^ 2**255).to_bytes(32, "little"))          # other sign bit
        y = n & (2**255 - 1)
        if y + O.P < 2**255:
            out.append(((y + O.P) | (n & 2**255)).to_bytes(32, "little"))   # non-canonical y
    for _ in range(n_random):
        out.append(rng.randrange(0, 2**256).to_bytes(32, "little"))
    seen, res = set(), []
    for b in out:
        if b not in seen:
            seen.add(b); res.append(b)
    return res


def _scalars(rng, n_random=12):
    from vlib import oracle as O
    vals = [0, 1, 2, 8, 15, 16, 17, 127, 128, 255, 256, O.L - 1, O.L, O.L + 1, 2 * O.L, 2 * O.L + 1, 2**252 - 1, 2**252, 2**252 + 1, 2**253 - 1, 2**253,
            2**254, 2**255 - 1, 2**255 - 8, 2**255 - 19, 2**256 - 1, 32, 2**230 + 127 * 2**200 + 3, 256 - 127,
            int("8" * 64, 16) % 2**255, int("7" * 64, 16) % 2**255]
    for _ in range(n_random):
        vals.append(rng.randrange(0, 2**256))
    return vals


_FAMS = {"ED": ["ed"], "RIS": ["ris"], "MONT": ["mont"], "SG": ["sc"], "S64": ["sc"], "S32": ["sc"], "SGR": ["sc", "edmul"], "SM": ["edmul"], "SM2": ["edmul", "ed"], "MSM": ["edmul"], "VSM": ["edmul"], "VMSM": ["edmul"], "AVX2E": ["ed", "edmul"], "AVX2F": ["ed", "edmul"],
            "SIG": ["sig", "slices"], "BV": ["sig", "slices"], "K-SERDE": ["serde"], "TRS": ["edmul", "sc"], "HW": ["sc", "ris", "ed"], "RND": ["rnd", "sc", "ris"], "RIS2": ["ris", "edmul"], "SMNT": ["edmul", "sig"], "IFMAE": ["ed", "edmul"], "IFMAF": ["ed", "edmul"], "GRP": ["grp", "ed", "ris", "rnd"], "FG": ["ed", "ris"], "F64": ["ed"], "F32": ["ed"], "FF64": ["ed", "mont", "ris"], "FF32": ["ed", "mont", "ris"]}


def families_of(unit):
    """replay families of a unit (None: the unit has no native replay)"""
    return _FAMS.get(unit)


# units whose verified text is the SERIAL copy of an algorithm that the default build replaces by the AVX2 copy on this host
_SERIAL_UNITS = ("SM", "SM2", "MSM", "SGR", "SMNT", "RIS2", "TRS", "BV", "SIG")


# the fiat units verify wrapper code that only a fiat build compiles: their native replay is a fiat build of the replay crate
_BACKEND_CFG = {"serial32": '--cfg curve25519_dalek_backend="serial" --cfg curve25519_dalek_bits="32"', "fiat32": '--cfg curve25519_dalek_backend="fiat" --cfg curve25519_dalek_bits="32"'}
_FIAT_UNITS = {"FF64": "fiat", "FF32": "fiat32"}


def refute_papi(unit, fn, repo, seed):
    if unit in _FIAT_UNITS:
        r = _refute_papi_1(unit, fn, repo, seed, _FIAT_UNITS[unit])
        if r is not None:
            r["backend"] = "built with " + _BACKEND_CFG.get(_FIAT_UNITS[unit], '--cfg curve25519_dalek_backend="fiat"')
        return r
    r = _refute_papi_1(unit, fn, repo, seed, None)
    if r is None and unit in _SERIAL_UNITS:
        r = _refute_papi_1(unit, fn, repo, seed, "serial")
        if r is not None:
            r["backend"] = 'built with --cfg curve25519_dalek_backend="serial"'
    return r


def _refute_papi_1(unit, fn, repo, seed, backend):
    from vlib import oracle as O
    binary = _build_papi(repo, backend)
    if binary is None:
        return None
    rng = random.Random(seed or 1)
    encs = _enc_variants(rng)
    reqs, exps = [], []

    def add(rq, ex):
        reqs.append(rq); exps.append(ex)

    fams = _FAMS.get(unit, ["ed", "ris", "mont", "sc", "edmul", "sig", "slices", "grp", "rnd"])
    valid_pts = []
    for b in encs:
        a = O.ed_decode(b)
        if a is not None:
            valid_pts.append((b, a))
    if "ed" in fams:
        for b in encs:
            a = O.ed_decode(b)
            add("ed.decompress %s" % _h(b), "NONE" if a is None else _h(O.ed_encode(a)))
        for (b1, a1) in valid_pts[:28]:
            for (b2, a2) in valid_pts[:10]:
                add("ed.add %s %s" % (_h(b1), _h(b2)), _h(O.ed_encode(O.ed_add(a1, a2))))
                add("ed.sub %s %s" % (_h(b1), _h(b2)), _h(O.ed_encode(O.ed_add(a1, O.ed_neg(a2)))))
                add("ed.eq %s %s" % (_h(b1), _h(b2)), "1" if a1 == a2 else "0")
            add("ed.cofactor %s" % _h(b1), "%s %d %d" % (_h(O.ed_encode(O.ed_mul(8, a1))), 1 if O.ed_mul(8, a1) == O.ID else 0, 1 if O.ed_mul(O.L, a1) == O.ID else 0))
            add("ed.to_montgomery %s" % _h(b1), _h(O.ed_to_mont(a1).to_bytes(32, "little")))
    if "ris" in fams:
        for b in encs:
            d = O.r255_decode(b)
            add("ris.decompress %s" % _h(b), "NONE" if d is None else _h(O.r255_encode(d)))
        for k in range(6):
            u = rng.randrange(0, 2**512).to_bytes(64, "little") if k else bytes(64)
            add("ris.from_uniform %s" % _h(u), _h(O.r255_one_way(u)))
    if "mont" in fams:
        for b in encs:
            for sgn in (0, 1):
                a = O.mont_to_edwards(b, sgn)
                add("mont.to_edwards %s %d" % (_h(b), sgn), "NONE" if a is None else _h(O.ed_encode(a)))
            n = int.from_bytes(b, "little") & (2**255 - 1)
            if n + O.P < 2**255:
                b2 = (n + O.P).to_bytes(32, "little")
                add("mont.eq %s %s" % (_h(b), _h(b2)), "1")
                add("mont.hash %s" % _h(b), ("samehash", len(reqs) + 1))
                add("mont.hash %s" % _h(b2), ("samehash", len(reqs) - 1))
        ks = [rng.randrange(0, 2**256).to_bytes(32, "little") for _ in range(4)] + [bytes(32), b"\xff" * 32]
        for k in ks:
            for b in encs[:40]:
                add("x25519 %s %s" % (_h(k), _h(b)), _h(O.x25519(k, b)))
                shared = O.x25519(k, b)
                add("x25519.static_dh %s %s" % (_h(k), _h(b)), "%s %d" % (_h(shared), 0 if shared == bytes(32) else 1))
                add("mont.mul_clamped %s %s" % (_h(b), _h(k)), _h(O.x25519(k, b)))
                mine = O.x25519(k, (9).to_bytes(32, "little"))
                add("x25519.ephemeral_dh %s %s" % (_h(k), _h(b)), "%s %d %s" % (_h(shared), 0 if shared == bytes(32) else 1, _h(mine)))
                add("x25519.reusable_dh %s %s" % (_h(k), _h(b)), "%s %d %s 1" % (_h(shared), 0 if shared == bytes(32) else 1, _h(mine)))
            add("x25519.public %s" % _h(k), _h(O.x25519(k, (9).to_bytes(32, "little"))))
        for s in _scalars(rng, 4):
            if s < 2**255:
                for b in encs[:12]:
                    u = int.from_bytes(b, "little") & (2**255 - 1)
                    add("mont.mul %s %s" % (_h(b), _h(s.to_bytes(32, "little"))), _h(O.ladder(s, u).to_bytes(32, "little")))
    if "sc" in fams:
        for s in _scalars(rng):
            b = (s % 2**256).to_bytes(32, "little")
            v = s % 2**256
            add("sc.from_canonical %s" % _h(b), _h(b) if v < O.L else "NONE")
            add("sc.from_bits %s" % _h(b), _h((v & (2**255 - 1)).to_bytes(32, "little")))
            add("sc.reduce32 %s" % _h(b), _h((v % O.L).to_bytes(32, "little")))
            add("sc.neg %s" % _h(b), _h(((-v) % O.L).to_bytes(32, "little")))
            add("sc.invert %s" % _h(b), _h(pow(v % O.L, O.L - 2, O.L).to_bytes(32, "little")) if v % O.L else ("any", 0))
            w = (s * 2**256 + rng.randrange(0, 2**256)) % 2**512
            add("sc.reduce64 %s" % _h(w.to_bytes(64, "little")), _h((w % O.L).to_bytes(32, "little")))
            for t in _scalars(rng, 2)[:14]:
                c = (t % 2**256).to_bytes(32, "little")
                tv = t % 2**256
                add("sc.add %s %s" % (_h(b), _h(c)), _h(((v + tv) % O.L).to_bytes(32, "little")))
                add("sc.sub %s %s" % (_h(b), _h(c)), _h(((v - tv) % O.L).to_bytes(32, "little")))
                add("sc.mul %s %s" % (_h(b), _h(c)), _h(((v * tv) % O.L).to_bytes(32, "little")))
        add("sc.reduce64 %s" % ("ff" * 64), _h(((2**512 - 1) % O.L).to_bytes(32, "little")))
    if "edmul" in fams:
        pts = valid_pts[:6] + [(O.ed_encode(O.B), O.B)]
        for s0 in _scalars(rng, 6):
            # the replay builds scalars with the (deprecated, legacy_compatibility) Scalar::from_bits, which is documented to clear bit 255
            sb = (s0 % 2**256).to_bytes(32, "little")
            s = (s0 % 2**256) & (2**255 - 1)
            add("ed.mul_base %s" % _h(sb), _h(O.ed_encode(O.ed_mul(s, O.B))))
            for (b1, a1) in pts:
                add("ed.mul %s %s" % (_h(b1), _h(sb)), _h(O.ed_encode(O.ed_mul(s, a1))))
            for t in (0, 1, 127, 2**255 - 1, O.L - 1, 2**253 + 5, 2**255 - 8):
                (b1, a1) = pts[(s + t) % len(pts)]
                add("ed.double_base %s %s %s" % (_h(b1), _h(sb), _h(t.to_bytes(32, "little"))),
                    _h(O.ed_encode(O.ed_add(O.ed_mul(s, a1), O.ed_mul(t, O.B)))))
        # multiscalar, small sizes and one Pippenger-size instance
        for n in ((0, 1, 2, 3, 190, 800) if unit in ("MSM", "VMSM", "RIS2", "TRS", "BV") else (0, 1, 2, 3, 190)):
            ss = [rng.randrange(0, O.L) for _ in range(n)]
            if n >= 800:
                # window 8 (n >= 800): radix-256 digits of -128 and +127/+128 carries (bytes 0x80, 0x7f, 0xff)
                for k, pat in enumerate((0x80, 0x7f, 0xff, 0x81)):
                    ss[k] = int.from_bytes(bytes([pat] * 31 + [0x0f]), "little") % O.L
            pp = [pts[i % len(pts)] for i in range(n)]
            acc = O.ID
            for sc, (_, a1) in zip(ss, pp):
                acc = O.ed_add(acc, O.ed_mul(sc, a1))
            body = " ".join("%s %s" % (_h(b1), _h(sc.to_bytes(32, "little"))) for sc, (b1, _) in zip(ss, pp))
            add(("ed.msm %d %s" % (n, body)).strip(), _h(O.ed_encode(acc)))
            add(("ed.msm_vartime %d %s" % (n, body)).strip(), _h(O.ed_encode(acc)))
            add(("ed.msm_opt %d %s" % (n, body)).strip(), _h(O.ed_encode(acc)))
            if n >= 1:
                body2 = "NONE " + body.split(" ", 1)[1]
                add("ed.msm_opt %d %s" % (n, body2), "NONE")
    if "sig" in fams:
        seeds = [bytes([7]) * 32, rng.randrange(0, 2**256).to_bytes(32, "little")]
        msgs = [b"", b"abc", bytes(range(64))]
        tors = O.torsion_points()
        for sd in seeds:
            pk = O.public_key(sd)
            add("sig.keypair %s" % _h(sd), _h(pk))
            for m in msgs:
                sg = O.sign(sd, m)
                add("sig.sign %s %s" % (_h(sd), _h(m)), _h(sg))
                Sv = int.from_bytes(sg[32:], "little")
                variants = [sg, sg[:32] + ((Sv + O.L) % 2**256).to_bytes(32, "little"), sg[:32] + ((Sv + 2 * O.L) % 2**256).to_bytes(32, "little"),
                            bytes([sg[0] ^ 1]) + sg[1:], sg[:63] + bytes([sg[63] ^ 0x80])]
                # small-order R with S = k*a (accepted by plain verification, rejected by strict)
                a, _ = O.expand(sd)
                for T in tors[:3]:
                    Rb = O.ed_encode(T)
                    k = int.from_bytes(O.sha512(Rb, pk, m), "little") % O.L
                    variants.append(Rb + ((k * a) % O.L).to_bytes(32, "little"))
                for v in variants:
                    for op, strict in (("sig.verify", False), ("sig.verify_strict", True)):
                        r = O.verify(pk, v, m, strict=strict)
                        add("%s %s %s %s" % (op, _h(pk), _h(v), _h(m)), "BADKEY" if r == "BADKEY" else ("1" if r else "0"))
                    r = O.verify(pk, v, m, strict=True)
                    add("sig.sk_verify_strict %s %s %s" % (_h(sd), _h(v), _h(m)), "1" if r else "0")
                for ctx in (b"", b"ctx", b"A" * 255, b"A" * 256):
                    if len(ctx) <= 255:
                        sgp = O.sign(sd, m, ph_ctx=ctx)
                        add("sig.sign_ph %s %s %s" % (_h(sd), _h(m), _h(ctx)), _h(sgp))
                        for op, strict in (("sig.verify_ph", False), ("sig.verify_ph_strict", True)):
                            add("%s %s %s %s %s" % (op, _h(pk), _h(sgp), _h(m), _h(ctx)), "1")
                        # prehashed variants: small-order R with S = k*a (plain accepts R = identity, strict rejects), S + l, flipped bits
                        Sp = int.from_bytes(sgp[32:], "little")
                        phv = [sgp[:32] + ((Sp + O.L) % 2**256).to_bytes(32, "little"), bytes([sgp[0] ^ 1]) + sgp[1:], sgp[:63] + bytes([sgp[63] ^ 0x80])]
                        for T in tors[:3]:
                            Rb = O.ed_encode(T)
                            k = int.from_bytes(O.sha512(O.dom2(1, ctx), Rb, pk, O.sha512(m)), "little") % O.L
                            phv.append(Rb + ((k * a) % O.L).to_bytes(32, "little"))
                        for v in phv:
                            for op, strict in (("sig.verify_ph", False), ("sig.verify_ph_strict", True)):
                                r = O.verify(pk, v, m, strict=strict, ph_ctx=ctx)
                                add("%s %s %s %s %s" % (op, _h(pk), _h(v), _h(m), _h(ctx)), "1" if r is True else "0")
                            add("%s %s %s %s %s" % (op, _h(pk), _h(sgp), _h(m), _h(ctx + b"x") if len(ctx) < 255 else _h(b"B" * 255)), "0")
                    else:
                        add("sig.sign_ph %s %s %s" % (_h(sd), _h(m), _h(ctx)), "ERR")
                        add("sig.verify_ph %s %s %s %s" % (_h(pk), _h(sg), _h(m), _h(ctx)), "0")
            # small-order / non-canonical public keys
            for T in tors:
                pkT = O.ed_encode(T)
                sg0 = O.ed_encode(O.ID) + bytes(32)
                for op, strict in (("sig.verify", False), ("sig.verify_strict", True)):
                    r = O.verify(pkT, sg0, b"m", strict=strict)
                    add("%s %s %s %s" % (op, _h(pkT), _h(sg0), _h(b"m")), "BADKEY" if r == "BADKEY" else ("1" if r else "0"))
            add("sig.keypair_import %s" % _h(sd + pk), "1")
            add("sig.keypair_import %s" % _h(sd + O.public_key(bytes([9]) * 32)), "0")
    if "slices" in fams or "ed" in fams or "ris" in fams:
        good_pk = O.public_key(bytes([7]) * 32)
        for n in (0, 1, 31, 32, 33, 63, 64, 65, 80):
            b = (good_pk * 3)[:n]
            add("sig.vk_try_from %s" % _h(b), _h(b) if n == 32 else "ERR")
            add("sig.sk_try_from %s" % _h(b), _h(b) if n == 32 else "ERR")
            add("sig.sig_from_slice %s" % _h(b), _h(b) if n == 64 else "ERR")
            add("sig.esk_from_slice %s" % _h(b), "OK" if n == 64 else "ERR")
            add("ed.from_slice %s" % _h(b), _h(b) if n == 32 else "ERR")
            add("ris.from_slice %s" % _h(b), _h(b) if n == 32 else "ERR")
    if "serde" in fams:
        # real serde impls through real bincode 1.x (fixed-int LE; [u8;32] tuples are raw, serialize_bytes is an 8-byte length prefix + bytes)
        def pre(b):
            return len(b).to_bytes(8, "little") + b
        for b in encs:
            a = O.ed_decode(b)
            for tail in (b"", b"\x55"):
                add("serde.ed_de %s" % _h(b + tail), "ERR" if a is None else _h(O.ed_encode(a)))
                d = O.r255_decode(b)
                add("serde.ris_de %s" % _h(b + tail), "ERR" if d is None else _h(O.r255_encode(d)))
                add("serde.cey_de %s" % _h(b + tail), _h(b))
                add("serde.cris_de %s" % _h(b + tail), _h(b))
                add("serde.mont_de %s" % _h(b + tail), _h(b))
                v = int.from_bytes(b, "little")
                add("serde.scalar_de %s" % _h(b + tail), _h(b) if v < O.L else "ERR")
            if a is not None:
                add("serde.ed_ser %s" % _h(b), _h(O.ed_encode(a)))
                add("serde.vk_ser %s" % _h(b), _h(pre(b)))
                add("serde.vk_de %s" % _h(pre(b)), _h(b))
            else:
                add("serde.vk_ser %s" % _h(b), "BADKEY")
                add("serde.vk_de %s" % _h(pre(b)), "ERR")
            d = O.r255_decode(b)
            if d is not None:
                add("serde.ris_ser %s" % _h(b), _h(O.r255_encode(d)))
            add("serde.scalar_ser %s" % _h(b), _h((int.from_bytes(b, "little") % O.L).to_bytes(32, "little")))
            add("serde.mont_ser %s" % _h(b), _h(b))
            add("serde.sk_ser %s" % _h(b), _h(pre(b)))
            add("serde.xpk_rt %s" % _h(b), "%s %s" % (_h(b), _h(b)))
        # the same impls through serde_json (JSON array of numbers -> visit_seq): must agree with the native decoders, octets kept as read
        for b in encs:
            a = O.ed_decode(b)
            d = O.r255_decode(b)
            v = int.from_bytes(b, "little")
            add("serde.json_de vk %s" % _h(b), "ERR" if a is None else _h(b))
            add("serde.json_de ed %s" % _h(b), "ERR" if a is None else _h(O.ed_encode(a)))
            add("serde.json_de ris %s" % _h(b), "ERR" if d is None else _h(O.r255_encode(d)))
            add("serde.json_de scalar %s" % _h(b), _h(b) if v < O.L else "ERR")
            for kind in ("sk", "cey", "cris", "mont"):
                add("serde.json_de %s %s" % (kind, _h(b)), _h(b))
        for kind in ("vk", "sk", "ed", "ris", "cey", "cris", "mont", "scalar"):
            for n in (0, 31, 33):
                add("serde.json_de %s %s" % (kind, _h(bytes([1]) + bytes(n - 1) if n else b"")), "ERR")
        good = O.public_key(bytes([7]) * 32)
        sg = O.sign(bytes([7]) * 32, b"abc")
        for n in (0, 1, 31, 32, 33, 63, 64, 65):
            blob = (good * 3)[:n]
            add("serde.ed_de %s" % _h(blob), _h(good) if n >= 32 else "ERR")
            add("serde.sk_de %s" % _h(pre(blob)), _h(blob) if n == 32 else "ERR")
            add("serde.vk_de %s" % _h(pre(blob)), _h(blob) if n == 32 else "ERR")
            # a length prefix that promises more than is there
            add("serde.sk_de %s" % _h((n + 1).to_bytes(8, "little") + blob), "ERR")
        # ed25519::Signature's serde impl lives in the external `ed25519` crate (tuple of 64 u8), not in the repository: not judged here
    if "grp" in fams:
        for (b1, a1) in valid_pts[:40]:
            tf = 1 if O.ed_mul(O.L, a1) == O.ID else 0
            add("grp.ed %s" % _h(b1), "%d %d %s %s" % (tf, tf, _h(O.ed_encode(O.ed_mul(8, a1))), _h(O.ed_encode(a1))))
        for b in encs:
            d = O.r255_decode(b)
            add("grp.ris_from_bytes %s" % _h(b), "NONE" if d is None else _h(O.r255_encode(d)))
        for sv in _scalars(rng, 4):
            b = (sv % 2**256).to_bytes(32, "little")
            v = sv % 2**256
            r = v % O.L
            add("grp.scalar %s" % _h(b), "%s %d %d %d" % ("NONE" if r == 0 else _h(pow(r, O.L - 2, O.L).to_bytes(32, "little")), 1 if v < O.L else 0, 1 if v < O.L else 0, r & 1))
        t = (O.L - 1) // 4
        rou = pow(2, t, O.L)
        add("grp.consts", "%s %s %s %s %s" % (_h(rou.to_bytes(32, "little")), _h(pow(rou, O.L - 2, O.L).to_bytes(32, "little")), _h(pow(2, O.L - 2, O.L).to_bytes(32, "little")),
                                            _h((16).to_bytes(32, "little")), _h((2).to_bytes(32, "little"))))
    if "rnd" in fams:
        # RNG-driven constructors: the replay's FixedRng repeats a 32-byte seed, so the 64 octets drawn are seed || seed
        for sv in _scalars(rng, 3):
            sd = (sv % 2**256).to_bytes(32, "little")
            w = int.from_bytes(sd + sd, "little")
            e = _h((w % O.L).to_bytes(32, "little"))
            add("rnd.scalar %s" % _h(sd), "%s %s" % (e, e))
            e = _h(O.r255_one_way(sd + sd))
            add("rnd.ris %s" % _h(sd), "%s %s" % (e, e))
        for (b1, a1) in valid_pts[:24]:
            if a1 != O.ID and O.ed_encode(a1) == b1:
                add("rnd.ed %s" % _h(b1), _h(b1))
    got = _ask(binary, reqs)
    if len(got) != len(reqs):
        return None
    for i, (rq, ex, g) in enumerate(zip(reqs, exps, got)):
        if g.startswith("PANIC"):
            return {"kind": "panic (build with overflow checks and debug assertions)", "request": rq[:2000], "reply": g, "papi": True}
        body = g[3:].strip()
        if isinstance(ex, tuple):
            if ex[0] == "samehash":
                other = got[ex[1]][3:].strip() if 0 <= ex[1] < len(got) else body
                if other != body:
                    return {"kind": "Hash differs for two encodings of the same field element (equality is modulo p)", "request": rq, "reply": g,
                            "other_request": reqs[ex[1]], "other_reply": got[ex[1]], "papi": True}
            continue
        if body != ex:
            return {"kind": "wrong result", "request": rq[:2000], "reply": g[:400], "expected": ex, "oracle": "vlib/oracle.py (RFC 8032 / 7748 / 9496 in Python ints)", "papi": True}
    return None
