"""Run one Kani unit: a harness crate under /verif/kani/<dir> compiled against the CURRENT /repo tree.

The crate is copied into the work directory on every run with its path dependencies re-pointed at the repo
root under test, /repo's Cargo.lock is copied next to it, and `cargo kani --export-json` gives one verdict per harness.
A harness is a *complete* proof when it is loop-free or every loop has a fixed trip count closed by unwinding
assertions (Kani's default); harnesses registered with `bounded=` are bounded stand-ins and are reported apart.
"""
import json, os, re, shutil, subprocess, time

VERIF = os.path.dirname(os.path.dirname(os.path.abspath(__file__)))


def run_unit(name, spec, repo, workdir, tier="quick", seed=0, prop=None):
    t0 = time.time()
    res = {"unit": name, "engine": "kani", "status": "undecided", "harnesses": [], "reason": "", "trusted": list(spec.get("trusted", [])),
           "checker_cmd": "", "solver_ms": 0}
    os.makedirs(workdir, exist_ok=True)
    if spec.get("incrate"):
        # in-crate harnesses: mounted by the cfg(kani) hook of the repo under test; run from the crate directory itself
        crate = os.path.join(repo, spec["incrate"])
        hook = os.path.join(crate, "src", "lib.rs")
        if not (os.path.exists(hook) and "verif_kani" in open(hook).read()):
            res["reason"] = "in-crate hook (cfg(kani) mod verif_kani) not present in %s" % hook
            res["wall_s"] = time.time() - t0
            return res
    else:
        src = os.path.join(VERIF, spec["crate"])
        crate = os.path.join(workdir, "crate")
        if os.path.exists(crate):
            shutil.rmtree(crate)
        shutil.copytree(src, crate, ignore=shutil.ignore_patterns("target", "Cargo.lock"))
    # re-point path dependencies and #[path] mounts at the repo under test
    for root, _, files in (os.walk(crate) if not spec.get("incrate") else []):
        for fn in files:
            if fn.endswith((".toml", ".rs")):
                p = os.path.join(root, fn)
                s = open(p).read()
                s2 = s.replace('"/repo/', '"%s/' % repo.rstrip("/"))
                if s2 != s:
                    open(p, "w").write(s2)
    # files generated from the repo under test by vx (e.g. the scalar constants the mounted files refer to)
    for tpl, rel in spec.get("vx_gen", []):
        g = subprocess.run([os.path.join(VERIF, "vx", "target", "release", "vx"), repo, os.path.join(VERIF, tpl), os.path.join(crate, rel),
                            os.path.join(workdir, "vxgen.log.json")], capture_output=True, text=True)
        if g.returncode != 0:
            res["reason"] = "extraction for harness crate failed: " + g.stderr.strip()[-300:]
            res["wall_s"] = time.time() - t0
            return res
    lock = os.path.join(repo, "Cargo.lock")
    if os.path.exists(lock) and not spec.get("incrate"):
        shutil.copy(lock, os.path.join(crate, "Cargo.lock"))
    hs = spec["harnesses"]
    selected = {h: m for h, m in hs.items() if (prop is None or prop in m.get("props", spec["props"]))
                and (tier == "thorough" or not m.get("thorough_only"))}
    if not selected:
        res["status"] = "ok"
        res["wall_s"] = time.time() - t0
        return res
    out_json = os.path.join(workdir, "kani.json")
    if os.path.exists(out_json):
        os.remove(out_json)
    # the target dir is shared across properties for the same repo root (compilation is the dominant cost)
    tdir = os.path.join(VERIF, ".work", "kani-target-" + name.lower() + ("" if repo.rstrip("/") == "/repo" else "-alt"))
    cmd = ["cargo", "kani", "--target-dir", tdir, "-j", str(spec.get("jobs", 6)), "--output-format", "terse",
           "-Z", "unstable-options", "--export-json", out_json, "--harness-timeout", "%ds" % spec.get("harness_timeout_s", 600)] + spec.get("kani_args", [])
    for h in selected:
        cmd += ["--harness", h]
    env = dict(os.environ)
    env["CARGO_NET_OFFLINE"] = "true"
    env["RUSTFLAGS"] = (spec.get("rustflags", "") + " --cfg miri").strip()
    res["checker_cmd"] = "RUSTFLAGS='%s' %s" % (env["RUSTFLAGS"], " ".join(cmd))
    to = spec.get("timeout_s", 1500) if tier == "quick" else spec.get("thorough_timeout_s", 7200)
    try:
        p = subprocess.run(cmd, capture_output=True, text=True, cwd=crate, env=env, timeout=to)
    except subprocess.TimeoutExpired:
        res["reason"] = "kani wall-clock timeout after %ds" % to
        res["wall_s"] = time.time() - t0
        return res
    open(os.path.join(workdir, "kani.stdout"), "w").write(p.stdout)
    open(os.path.join(workdir, "kani.stderr"), "w").write(p.stderr)
    if not os.path.exists(out_json):
        tail = (p.stderr.strip() or p.stdout.strip())[-600:]
        res["reason"] = "kani did not produce results (build error?): " + tail
        res["wall_s"] = time.time() - t0
        return res
    js = json.load(open(out_json))
    results = {r["harness_id"].split("::")[-1]: r for r in js["verification_results"]["results"]}
    stats = {c["harness_id"].split("::")[-1]: c for c in js.get("cbmc", [])}
    anyfail = False
    anyund = False
    for h, m in selected.items():
        r = results.get(h)
        ent = {"name": h, "props": m.get("props", spec["props"]), "tag": "%s.%s" % (name, h), "bounded": m.get("bounded"),
               "functions": m.get("functions", []), "fn": ", ".join(m.get("functions", [])), "status": "undecided", "checks": 0, "wall_s": 0}
        if r is None:
            ent["msg"] = "harness not found / not run"
            anyund = True
        else:
            checks = r.get("checks", [])
            failed = [c for c in checks if c["status"] in ("Failure", "Failed")]
            undet = [c for c in checks if c["status"] in ("Undetermined",)]
            ent["checks"] = len([c for c in checks if c["status"] in ("Success",)]) + len(failed)
            ent["wall_s"] = r.get("duration_ms", 0) / 1000.0
            if r["status"] == "Success" and not failed:
                ent["status"] = "ok"
            elif failed:
                # an unwinding-assertion failure means the bound was too small: undecided, not a violation
                real = [c for c in failed if "unwinding assertion" not in c.get("description", "")]
                if real:
                    ent["status"] = "failed"
                    c0 = real[0]
                    ent["msg"] = "%s (%s:%s in %s)" % (c0.get("description"), c0.get("location", {}).get("file"), c0.get("location", {}).get("line"), c0.get("function"))
                    ent["src"] = "%s:%s" % (c0.get("location", {}).get("file"), c0.get("location", {}).get("line"))
                    ent["output"] = json.dumps(real[:5], indent=1)
                    anyfail = True
                else:
                    ent["msg"] = "unwinding assertion failed (bound too small)"
                    anyund = True
            else:
                ent["msg"] = "kani status %s" % r["status"]
                anyund = True
            st = (stats.get(h) or {}).get("cbmc_stats") or {}
            res["solver_ms"] += int(1000 * (st.get("runtime_solver_s", 0) + st.get("runtime_symex_s", 0)))
        res["harnesses"].append(ent)
    res["status"] = "failed" if anyfail else ("ok" if not anyund else "partial")
    res["wall_s"] = time.time() - t0
    return res


def concrete_playback(name, spec, repo, workdir, harness, timeout_s=900):
    """Re-run one failing harness with --concrete-playback=print to obtain the verifier's counterexample values."""
    crate = os.path.join(workdir, "crate")
    tdir = os.path.join(VERIF, ".work", "kani-target-" + name.lower() + ("" if repo.rstrip("/") == "/repo" else "-alt"))
    cmd = ["cargo", "kani", "--target-dir", tdir, "-Z", "concrete-playback", "--concrete-playback=print", "--harness", harness] + spec.get("kani_args", [])
    env = dict(os.environ)
    env["CARGO_NET_OFFLINE"] = "true"
    env["RUSTFLAGS"] = (spec.get("rustflags", "") + " --cfg miri").strip()
    try:
        p = subprocess.run(cmd, capture_output=True, text=True, cwd=crate, env=env, timeout=timeout_s)
    except subprocess.TimeoutExpired:
        return None
    m = re.search(r"Concrete playback unit test.*?```\n(.*?)```", p.stdout, re.S)
    return m.group(1) if m else None
