"""Run one Verus unit: extract with vx from the current /repo tree, verify, classify the outcome.

Outcome statuses:
  ok         every obligation of the unit discharged
  failed     Verus ran and at least one obligation failed (each is a *candidate*, see DESIGN §4.3)
  undecided  extraction failed (lost anchor, unsupported construct) or the generated file did not
             type-check / Verus crashed: never an alarm by itself
"""
import json, os, re, subprocess, time, hashlib

VERIF = os.path.dirname(os.path.dirname(os.path.abspath(__file__)))
VX = os.path.join(VERIF, "vx", "target", "release", "vx")
TAG_RE = re.compile(r"\[(C\d\d(?:,C\d\d)*) ([A-Za-z0-9_.\-@:/]+)\]")
ERR_RE = re.compile(r"^error(?:\[E\d+\])?: (.*)$")
LOC_RE = re.compile(r"^\s*--> ([^:\s]+):(\d+):(\d+)")
TRUST_PATTERNS = [
    ("external_body", re.compile(r"#\[verifier::external_body\]")),
    ("external_fn_specification", re.compile(r"external_fn_specification|assume_specification")),
    ("external_type_specification", re.compile(r"external_type_specification")),
    ("admit", re.compile(r"\badmit\s*\(")),
    ("assume", re.compile(r"\bassume\s*\(")),
    ("truncate", re.compile(r"#\[verifier::truncate\]")),
    ("axiom", re.compile(r"\baxiom\b")),
    ("exec_allows_no_decreases_clause", re.compile(r"exec_allows_no_decreases_clause")),
]


def sha(path):
    return hashlib.sha256(open(path, "rb").read()).hexdigest()[:16]


def _item_name_after(lines, i):
    for j in range(i, min(i + 12, len(lines))):
        m = re.search(r"\b(fn|struct|trait|impl|type|const)\s+([A-Za-z0-9_<>&' :,]+)", lines[j])
        if m and "verifier::" not in lines[j]:
            return (m.group(1) + " " + m.group(2)).strip()[:80]
    return "?"


def scan_trusted(gen_path):
    lines = open(gen_path).read().split("\n")
    found = []
    in_block_comment = False
    for i, l in enumerate(lines):
        s = l.strip()
        if s.startswith("//"):
            continue
        code = l.split("//")[0]
        for kind, rx in TRUST_PATTERNS:
            if rx.search(code):
                found.append({"kind": kind, "line": i + 1, "item": _item_name_after(lines, i)})
    return found


def run_unit(name, spec, repo, workdir, tier="quick", seed=0, threads=4, timeout_s=None):
    """spec: dict(template=..., rlimit=..., props=[...])"""
    os.makedirs(workdir, exist_ok=True)
    t0 = time.time()
    gen = os.path.join(workdir, name.lower().replace("-", "_") + ".rs")
    log = os.path.join(workdir, name.lower().replace("-", "_") + ".vxlog.json")
    res = {"unit": name, "engine": "verus", "status": "undecided", "failures": [], "functions": [], "tags": [],
           "trusted": [], "reason": "", "gen": gen, "checker_cmd": "", "smt_ms": 0, "rule_counts": {}}
    for f in (gen, log):
        if os.path.exists(f):
            os.remove(f)
    tpl = os.path.join(VERIF, spec["template"])
    # files generated from the repo under test right before extraction (e.g. macro instantiations written by a generator)
    env = dict(os.environ, VX_GEN=workdir)
    for cmdt in spec.get("pre_gen", []):
        cmd0 = [c.replace("{repo}", repo).replace("{gen}", workdir).replace("{verif}", VERIF) for c in cmdt]
        g = subprocess.run(cmd0, capture_output=True, text=True, cwd=VERIF)
        if g.returncode != 0:
            res["reason"] = "extraction: generator %s failed: %s" % (cmd0[1] if len(cmd0) > 1 else cmd0[0], (g.stderr.strip() or g.stdout.strip())[-300:])
            res["wall_s"] = time.time() - t0
            return res
    p = subprocess.run([VX, repo, tpl, gen, log], capture_output=True, text=True, env=env)
    if p.returncode != 0:
        res["reason"] = "extraction: " + (p.stderr.strip().split("\n")[-1] if p.stderr.strip() else "vx exit %d" % p.returncode)
        res["wall_s"] = time.time() - t0
        return res
    vxlog = json.load(open(log))
    res["rule_counts"] = vxlog["rule_counts"]
    res["constfold"] = vxlog["constfold"]
    res["items"] = [{k: it.get(k) for k in ("kind", "file", "path", "src_line", "src_lines", "gen_lines", "props", "external_body")} for it in vxlog["items"]]
    res["cfg"] = vxlog["cfg"]
    res["gen_sha"] = sha(gen)
    gen_lines = open(gen).read().split("\n")
    # `also`: unit-level attribution, e.g. {"C04": ["C05"]} — in this unit every clause of C04 is also a clause of C05 (the unit is one of two
    # copies / backends that must satisfy one contract, so failing it is also an observable difference between configurations)
    also = spec.get("also", {})

    def expand(props):
        out = []
        for pr in props:
            for q in [pr] + list(also.get(pr, [])):
                if q not in out:
                    out.append(q)
        return out
    for it in res["items"]:
        if it.get("props"):
            it["props"] = " ".join(expand(it["props"].replace(",", " ").split()))
    for it in vxlog["items"]:
        if it.get("props"):
            it["props"] = " ".join(expand(it["props"].replace(",", " ").split()))
    # tag inventory
    for i, l in enumerate(gen_lines):
        for m in TAG_RE.finditer(l):
            for pr in expand(m.group(1).split(",")):
                res["tags"].append({"prop": pr, "tag": m.group(2), "gen_line": i + 1})
    res["trusted"] = scan_trusted(gen)
    bad = [t for t in res["trusted"] if t["kind"] in ("admit", "assume")]
    if bad:
        res["reason"] = "machinery: admit/assume present in generated file: %r" % bad[:3]
        res["wall_s"] = time.time() - t0
        return res
    rlimit = spec.get("rlimit", 100)
    if tier == "thorough" and spec.get("thorough_rlimit"):
        rlimit = spec["thorough_rlimit"]
    cmd = ["verus", gen, "--rlimit", str(rlimit), "--output-json", "--time-expanded", "--num-threads", str(threads),
           "--multiple-errors", "20", "--triggers-mode", "silent"]
    if seed and tier == "thorough":
        cmd += ["--smt-option", "smt.random_seed=%d" % (seed % 1000)]
    cmd += spec.get("verus_args", [])
    res["checker_cmd"] = " ".join(cmd)
    to = timeout_s or spec.get("timeout_s", 900)
    p = None
    for attempt in range(2):
        try:
            p = subprocess.run(cmd, capture_output=True, text=True, timeout=to, cwd=workdir)
        except subprocess.TimeoutExpired:
            res["reason"] = "verus wall-clock timeout after %ds" % to
            res["wall_s"] = time.time() - t0
            return res
        if p.stdout.lstrip().startswith("{"):
            break
        # a crash of the verifier itself (panic / abort, no JSON): retry once before giving up as undecided
        res["retried_after_crash"] = True
    open(os.path.join(workdir, name + ".stderr"), "w").write(p.stderr)
    try:
        js = json.loads(p.stdout)
    except Exception:
        res["reason"] = "verus produced no JSON: " + p.stderr.strip()[-400:]
        res["wall_s"] = time.time() - t0
        return res
    vr = js.get("verification-results", {})
    # Which error messages are verification verdicts (as opposed to type/mode errors of the generated file)?
    VERDICT = ("assertion failed", "postcondition not satisfied", "precondition not satisfied", "possible arithmetic underflow/overflow",
               "invariant not satisfied", "expression simplifies to", "evaluates to false", "Resource limit", "decreases not satisfied",
               "possible division by zero", "possible bit shift", "index out of bounds", "possible overflow", "loop invariant",
               "could not prove termination", "recommendation not met", "failed to satisfy", "precondition of")
    errs = [ERR_RE.match(l).group(1) for l in p.stderr.split("\n") if ERR_RE.match(l) and not ERR_RE.match(l).group(1).startswith("aborting")]
    nonverdict = [e for e in errs if not any(v in e for v in VERDICT)]
    compute_fail = any("expression simplifies to" in e for e in errs)
    if nonverdict or (("verified" not in vr) and not errs) or (vr.get("encountered-error") and not errs):
        res["reason"] = "generated file rejected before verification (type/mode error): " + (nonverdict[0] if nonverdict else "no verdict")
        res["stderr_tail"] = p.stderr[-1500:]
        res["wall_s"] = time.time() - t0
        return res
    try:
        for m in js["times-ms"]["smt"]["smt-run-module-times"]:
            for fb in m.get("function-breakdown", []):
                res["functions"].append({"function": fb["function"], "mode": fb.get("mode:", fb.get("mode", "")),
                                         "time_us": fb["time-micros"], "rlimit": fb["rlimit"], "success": fb["success"]})
        res["smt_ms"] = js["times-ms"]["smt"]["total"]
    except Exception:
        pass
    res["verified"] = vr.get("verified", 0)
    res["errors"] = vr.get("errors", 0)
    # parse failures
    lines = p.stderr.split("\n")
    linemap = {}
    for ent in vxlog["linemap"]:
        linemap[ent[0]] = (ent[1], ent[2])
    i = 0
    genbase = os.path.basename(gen)
    while i < len(lines):
        m = ERR_RE.match(lines[i])
        if m and not m.group(1).startswith("aborting"):
            msg = m.group(1)
            loc = None
            extra = []
            j = i + 1
            while j < len(lines) and not ERR_RE.match(lines[j]):
                lm = LOC_RE.match(lines[j])
                if lm:
                    if loc is None:
                        loc = (lm.group(1), int(lm.group(2)))
                    else:
                        extra.append((lm.group(1), int(lm.group(2))))
                j += 1
            block = "\n".join(lines[i:j])
            fl = {"msg": msg, "gen_line": None, "text": "", "tags": [], "src": None, "fn": None, "fn_props": None, "block": block[:2500]}
            if loc and os.path.basename(loc[0]) == genbase:
                gl = loc[1]
                fl["gen_line"] = gl
                fl["text"] = gen_lines[gl - 1].strip() if gl - 1 < len(gen_lines) else ""
                fl["tags"] = [(",".join(expand(m2.group(1).split(","))), m2.group(2)) for m2 in TAG_RE.finditer(fl["text"])]
                if gl in linemap:
                    fl["src"] = "%s:%d" % linemap[gl]
                # secondary spans (e.g. the call site for a failed precondition) help attribute to a fn
                cands = [gl] + [e[1] for e in extra if os.path.basename(e[0]) == genbase]
                for it in vxlog["items"]:
                    a, b = it["gen_lines"]
                    for c in cands:
                        if a <= c <= b and fl["fn"] is None:
                            fl["fn"] = it["path"]
                            fl["fn_props"] = it.get("props")
                            if fl["src"] is None and c in linemap:
                                fl["src"] = "%s:%d" % linemap[c]
            gl0 = fl.get("gen_line")
            if gl0 and fl["fn"] is None and not fl["tags"] and re.match(r"\s*(pub\s+)?(open\s+|closed\s+)?(proof\s+|exec\s+)?fn\s", gen_lines[gl0 - 1] if gl0 - 1 < len(gen_lines) else ""):
                # a whole-function failure (e.g. rlimit) is reported at the `fn` line: for functions that are NOT vx items (macro variants generated
                # from the repository's macro text into an include) take the tags of the signature's own requires/ensures lines
                k = gl0
                while k < len(gen_lines) and k < gl0 + 25 and gen_lines[k].strip() != "{":
                    fl["tags"] += [(",".join(expand(m2.group(1).split(","))), m2.group(2)) for m2 in TAG_RE.finditer(gen_lines[k])]
                    k += 1
            res["failures"].append(fl)
            i = j
        else:
            i += 1
    # an untagged failure inside an extracted function is attributed to every property that function serves:
    # its `props` directive plus the properties of the tagged clauses inside it
    for fl in res["failures"]:
        if fl["fn"] and not fl["tags"]:
            ps = set((fl.get("fn_props") or "").replace(",", " ").split())
            for it in vxlog["items"]:
                if it["path"] == fl["fn"]:
                    a, b = it["gen_lines"]
                    for t in res["tags"]:
                        if a <= t["gen_line"] <= b:
                            ps.add(t["prop"])
            fl["fn_props"] = " ".join(sorted(ps))
    if vr.get("errors", 0) == 0 and vr.get("success"):
        res["status"] = "ok"
    elif vr.get("errors", 0) > 0 or compute_fail:
        res["status"] = "failed"
    else:
        res["reason"] = "verus reported no success and no verification errors"
    res["wall_s"] = time.time() - t0
    return res
