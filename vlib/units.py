"""Registry of verification units (DESIGN.md §4.1). A unit serves one or more properties.

engine 'verus': template under contracts/, extracted from /repo on every run by vx.
engine 'kani' : harness crate under kani/, compiled against /repo on every run.
`bounded` marks a unit whose result is a bounded stand-in (never counted as proved).
"""

UNITS = {
    "F64": dict(engine="verus", template="contracts/f64.vx", props=["C01", "C11", "C05", "C12", "C14"], rlimit=150,
                desc="serial u64 field backend: FieldElement51 kernels against integer arithmetic mod p"),
    "F32": dict(engine="verus", template="contracts/f32.vx", props=["C01", "C11", "C05", "C12", "C14"], rlimit=200,
                desc="serial u32 field backend (FieldElement2625, never compiled on this host by the repo's own build): every function against integer arithmetic mod p"),
    "ED": dict(engine="verus", template="contracts/ed.vx", props=["C03", "C11", "C15", "C14", "C05"], rlimit=100,
               desc="Edwards layer: curve_models formulas + edwards.rs (decompress, compress, add/sub/neg/double, mul_by_pow_2, ct_eq, is_small_order) over the abstract field; IFACE_E proved"),
    "RIS": dict(engine="verus", template="contracts/ris.vx", props=["C06", "C11", "C15", "C14"], rlimit=100,
                desc="ristretto.rs against RFC 9496: decode (five rejection tests), encode, equals, MAP, one-way map, wrappers"),
    "MONT": dict(engine="verus", template="contracts/mont.vx", props=["C07", "C04", "C11", "C15", "C14"], rlimit=100,
                 desc="montgomery.rs + x25519.rs against RFC 7748: ladder step exact, ladder driver over a generic bit iterator, as_affine, to_edwards, to_montgomery, elligator_encode, x25519(), diffie_hellman x3, was_contributory"),
    "FG": dict(engine="verus", template="contracts/fg.vx", props=["C01", "C11", "C05"], rlimit=40,
               desc="field.rs over the abstract field interface: ct_eq, is_negative, is_zero, pow22501, invert, pow_p58, sqrt_ratio_i, invsqrt"),
    "CONST64": dict(engine="verus", template="contracts/const64.vx", props=["C12", "C05", "C17"], rlimit=300,
                    desc="every literal constant and table entry of the u64 serial backend + constants.rs, by(compute) against definitions"),
    "CONST32": dict(engine="verus", template="contracts/const32.vx", props=["C12", "C05"], rlimit=300,
                    desc="same for the u32 serial backend (never compiled on this host)"),
    "S64": dict(engine="verus", template="contracts/s64.vx", props=["C02", "C11", "C12", "C05", "C14"], rlimit=100, timeout_s=1500,
                desc="serial u64 scalar backend: every function of u64/scalar.rs (Scalar52) against integer arithmetic mod l, incl. montgomery_reduce, from_bytes_wide"),
    "S32": dict(engine="verus", template="contracts/s32.vx", props=["C02", "C11", "C12", "C05", "C14"], rlimit=100, timeout_s=1500,
                desc="serial u32 scalar backend (Scalar29, Karatsuba mul_internal with wrapping terms, never compiled on this host by the repo's own build): every function against integer arithmetic mod l"),
    "SGR": dict(engine="verus", template="contracts/sgr.vx", props=["C04", "C07", "C02", "C15", "C14"], rlimit=100,
                desc="scalar.rs recodings: as_radix_16, non_adjacent_form, as_radix_2w (digit sums and ranges, all inputs), clamp_integer, small Scalar functions"),
    "K-OVF64": dict(engine="kani", crate="kani/kern64", props=["C11"], jobs=12, vx_gen=[("replay/consts64.vx", "src/constants_gen.rs")],
                    desc="serial u64 field+scalar kernels (real files path-mounted): no overflow / no debug assertion / output bounds for ALL limb vectors within the interface bound",
                    trusted=["Kani/CBMC/CaDiCaL"],
                    harnesses={
                       "f_mul_bounds": {'functions': ['curve25519-dalek/src/backend/serial/u64/{field,scalar}.rs :: f_mul_bounds']},
                       "f_square_bounds": {'functions': ['curve25519-dalek/src/backend/serial/u64/{field,scalar}.rs :: f_square_bounds']},
                       "f_square2_bounds": {'functions': ['curve25519-dalek/src/backend/serial/u64/{field,scalar}.rs :: f_square2_bounds']},
                       "f_pow2k_bounds": {'functions': ['curve25519-dalek/src/backend/serial/u64/{field,scalar}.rs :: f_pow2k_bounds'], 'bounded': 'k <= 2 iterations of the squaring loop (body proved for all limbs < 2^54)'},
                       "f_sub_bounds": {'functions': ['curve25519-dalek/src/backend/serial/u64/{field,scalar}.rs :: f_sub_bounds']},
                       "f_neg_bounds": {'functions': ['curve25519-dalek/src/backend/serial/u64/{field,scalar}.rs :: f_neg_bounds']},
                       "f_add_bounds": {'functions': ['curve25519-dalek/src/backend/serial/u64/{field,scalar}.rs :: f_add_bounds']},
                       "f_as_bytes_total": {'functions': ['curve25519-dalek/src/backend/serial/u64/{field,scalar}.rs :: f_as_bytes_total']},
                       "f_from_bytes_bounds": {'functions': ['curve25519-dalek/src/backend/serial/u64/{field,scalar}.rs :: f_from_bytes_bounds']},
                       "s_add_bounds": {'functions': ['curve25519-dalek/src/backend/serial/u64/{field,scalar}.rs :: s_add_bounds']},
                       "s_sub_bounds": {'functions': ['curve25519-dalek/src/backend/serial/u64/{field,scalar}.rs :: s_sub_bounds']},
                       "s_mul_bounds": {'functions': ['curve25519-dalek/src/backend/serial/u64/{field,scalar}.rs :: s_mul_bounds']},
                       "s_square_bounds": {'functions': ['curve25519-dalek/src/backend/serial/u64/{field,scalar}.rs :: s_square_bounds']},
                       "s_from_bytes_bounds": {'functions': ['curve25519-dalek/src/backend/serial/u64/{field,scalar}.rs :: s_from_bytes_bounds']},
                       "s_from_bytes_wide_bounds": {'functions': ['curve25519-dalek/src/backend/serial/u64/{field,scalar}.rs :: s_from_bytes_wide_bounds']},
                       "s_as_bytes_total": {'functions': ['curve25519-dalek/src/backend/serial/u64/{field,scalar}.rs :: s_as_bytes_total']},
                    }),
    "K-OVF32": dict(engine="kani", crate="kani/kern32", props=["C11"], jobs=12, vx_gen=[("replay/consts32.vx", "src/constants_gen.rs")], harness_timeout_s=900,
                    desc="serial u32 field+scalar kernels (never compiled on this host by the repo's own build): same obligations at weight bounds",
                    trusted=["Kani/CBMC/CaDiCaL"],
                    harnesses={
                       "f_mul_bounds": {'functions': ['curve25519-dalek/src/backend/serial/u32/{field,scalar}.rs :: f_mul_bounds']},
                       "f_square_bounds": {'functions': ['curve25519-dalek/src/backend/serial/u32/{field,scalar}.rs :: f_square_bounds']},
                       "f_square2_bounds": {'functions': ['curve25519-dalek/src/backend/serial/u32/{field,scalar}.rs :: f_square2_bounds']},
                       "f_pow2k_bounds": {'functions': ['curve25519-dalek/src/backend/serial/u32/{field,scalar}.rs :: f_pow2k_bounds'], 'bounded': 'k <= 2 iterations of the squaring loop'},
                       "f_sub_bounds": {'functions': ['curve25519-dalek/src/backend/serial/u32/{field,scalar}.rs :: f_sub_bounds']},
                       "f_neg_bounds": {'functions': ['curve25519-dalek/src/backend/serial/u32/{field,scalar}.rs :: f_neg_bounds']},
                       "f_add_bounds": {'functions': ['curve25519-dalek/src/backend/serial/u32/{field,scalar}.rs :: f_add_bounds']},
                       "f_as_bytes_total": {'functions': ['curve25519-dalek/src/backend/serial/u32/{field,scalar}.rs :: f_as_bytes_total']},
                       "f_from_bytes_bounds": {'functions': ['curve25519-dalek/src/backend/serial/u32/{field,scalar}.rs :: f_from_bytes_bounds']},
                       "s_add_bounds": {'functions': ['curve25519-dalek/src/backend/serial/u32/{field,scalar}.rs :: s_add_bounds']},
                       "s_sub_bounds": {'functions': ['curve25519-dalek/src/backend/serial/u32/{field,scalar}.rs :: s_sub_bounds']},
                       "s_mul_bounds": {'functions': ['curve25519-dalek/src/backend/serial/u32/{field,scalar}.rs :: s_mul_bounds'], 'thorough_only': True},
                       "s_square_bounds": {'functions': ['curve25519-dalek/src/backend/serial/u32/{field,scalar}.rs :: s_square_bounds'], 'thorough_only': True},
                       "s_from_bytes_bounds": {'functions': ['curve25519-dalek/src/backend/serial/u32/{field,scalar}.rs :: s_from_bytes_bounds']},
                       "s_from_bytes_wide_bounds": {'functions': ['curve25519-dalek/src/backend/serial/u32/{field,scalar}.rs :: s_from_bytes_wide_bounds'], 'thorough_only': True},
                       "s_as_bytes_total": {'functions': ['curve25519-dalek/src/backend/serial/u32/{field,scalar}.rs :: s_as_bytes_total']},
                    }),
    "K-TOT": dict(engine="kani", crate="kani/tot", props=["C15", "C02", "C07"], jobs=10, harness_timeout_s=900,
                  desc="public decoders on the real crates: total for every slice length <= 80 and every content; integer->Scalar conversions exact",
                  trusted=["Kani/CBMC/CaDiCaL", "--cfg miri build of zeroize/cpufeatures"],
                  harnesses={
                      "compressed_edwards_from_slice": dict(props=["C15"], functions=["curve25519-dalek/src/edwards.rs :: CompressedEdwardsY::from_slice"]),
                      "compressed_ristretto_from_slice": dict(props=["C15"], functions=["curve25519-dalek/src/ristretto.rs :: CompressedRistretto::from_slice"]),
                      "signature_from_slice": dict(props=["C15"], functions=["ed25519 Signature::from_slice / to_bytes"]),
                      "expanded_secret_key_from_slice_wrong_len": dict(props=["C15"], functions=["ed25519-dalek/src/hazmat.rs :: ExpandedSecretKey::from_slice (len != 64)"]),
                      "scalar_from_canonical_bytes_total": dict(props=["C15", "C02"], functions=["curve25519-dalek/src/scalar.rs :: Scalar::from_canonical_bytes (total; Some => bytes returned unchanged, top byte <= 0x10)"]),
                      "scalar_from_bytes_mod_order_total": dict(props=["C15", "C02"], functions=["curve25519-dalek/src/scalar.rs :: Scalar::from_bytes_mod_order (total)"]),
                      "clamp_integer_rfc7748": dict(props=["C07"], functions=["curve25519-dalek/src/scalar.rs :: clamp_integer"]),
                      "scalar_from_u8": dict(props=["C02"], functions=["scalar.rs :: From<u8> for Scalar"]),
                      "scalar_from_u16": dict(props=["C02"], functions=["scalar.rs :: From<u16> for Scalar"]),
                      "scalar_from_u32": dict(props=["C02"], functions=["scalar.rs :: From<u32> for Scalar"]),
                      "scalar_from_u64": dict(props=["C02"], functions=["scalar.rs :: From<u64> for Scalar"]),
                      "scalar_from_u128": dict(props=["C02"], functions=["scalar.rs :: From<u128> for Scalar"]),
                  }),
    "K-INCRATE": dict(engine="kani", incrate="curve25519-dalek", crate="kani/incrate", props=["C07", "C04"], jobs=4, kani_args=["-Z", "stubbing"],
                      desc="in-crate harnesses behind the cfg(kani) hook: iterator adapter chain bits_le().rev().skip(1) yields bits 254..0 (residual of unit MONT)",
                      trusted=["Kani/CBMC/CaDiCaL"],
                      harnesses={
                          "bits_le_rev_skip1_yields_bits_254_down_to_0": dict(functions=["curve25519-dalek/src/scalar.rs :: Scalar::bits_le + Rev/Skip adapters as used by montgomery.rs Mul<&Scalar>"]),
                          "bits_le_yields_256_bits_little_endian": dict(functions=["curve25519-dalek/src/scalar.rs :: Scalar::bits_le"]),
                      }),
    "K-ZERO": dict(engine="kani", crate="kani/zero", props=["C14"],
                   desc="drop glue / Zeroize of the secret-holding types of x25519-dalek and ed25519-dalek, on the real crates, complete in the secret value",
                   trusted=["Kani/CBMC/CaDiCaL", "--cfg miri build of zeroize/cpufeatures (asm-free fallback; optimisation barrier not modelled)",
                            "values of SharedSecret/SigningKey/Scalar materialised from symbolic bytes by transmute (their constructors are full scalar multiplications)"],
                   harnesses={
                       "static_secret_drop": dict(functions=["x25519-dalek/src/x25519.rs :: StaticSecret (derive ZeroizeOnDrop)"]),
                       "reusable_secret_drop": dict(functions=["x25519-dalek/src/x25519.rs :: ReusableSecret (derive ZeroizeOnDrop), random_from_rng"]),
                       "ephemeral_secret_drop": dict(functions=["x25519-dalek/src/x25519.rs :: EphemeralSecret (derive ZeroizeOnDrop), random_from_rng"]),
                       "shared_secret_drop": dict(functions=["x25519-dalek/src/x25519.rs :: SharedSecret (derive ZeroizeOnDrop)"]),
                       "static_secret_zeroize": dict(functions=["x25519-dalek/src/x25519.rs :: StaticSecret::zeroize, to_bytes"]),
                       "expanded_secret_key_drop": dict(functions=["ed25519-dalek/src/hazmat.rs :: impl Drop for ExpandedSecretKey"]),
                       "signing_key_drop": dict(functions=["ed25519-dalek/src/signing.rs :: impl Drop for SigningKey, as_bytes"]),
                   }),
}


def units_for(prop, tier):
    out = []
    for name, u in UNITS.items():
        if prop in u["props"]:
            if tier == "quick" and u.get("thorough_only"):
                continue
            out.append((name, u))
    return out
