#!/usr/bin/env python3
"""Mutation / vacuity suite for unit BV (contracts/bv.vx: ed25519-dalek/src/batch.rs::verify_batch).

usage: tools/bv_mutate.py [--rlimit N] [--jobs K] [--keep] [label ...]        (no label = the whole suite; K <= 4)

Mutants: the source files the template reads are copied into a FAKE repo root /tmp/bv_mut/<label>/mrepo (same relative paths; /repo is never
touched), ONE piece of text of ed25519-dalek/src/batch.rs is replaced, vx re-extracts from the fake root, verus re-verifies the whole generated
file.  Verdict per mutant:
    KILLED     verus reports >= 1 error (the failed obligations are listed)
    SURVIVED   verus verifies the mutated source (equivalent mutant, or a hole in the contract)
    UNDECIDED  vx exit 2 (an anchor / pinned R19 text was lost): nothing was verified
Vacuity probes (label v_*): `assert(false)` spliced into a scratch copy of the GENERATED file of the unmutated tree; each must be REJECTED.
/tmp/bv_mut is removed at the end unless --keep.
"""
import os, re, shutil, subprocess, sys, time
from concurrent.futures import ThreadPoolExecutor

ROOT = '/verif'
VX = f'{ROOT}/vx/target/release/vx'
TPL = f'{ROOT}/contracts/bv.vx'
TMP = '/tmp/bv_mut'
FILES = ['curve25519-dalek/src/scalar.rs', 'curve25519-dalek/src/edwards.rs', 'ed25519-dalek/src/constants.rs', 'ed25519-dalek/src/errors.rs',
         'ed25519-dalek/src/signature.rs', 'ed25519-dalek/src/verifying.rs', 'ed25519-dalek/src/batch.rs']
B = 'ed25519-dalek/src/batch.rs'
GUARD = '''    if signatures.len() != messages.len()
        || signatures.len() != verifying_keys.len()
        || verifying_keys.len() != messages.len()
    {'''
# label -> (file, old, new, what)
MUTANTS = {
    'm1': (B, GUARD, '    if [messages.len(), verifying_keys.len()].iter().all(|&len| len != signatures.len())\n    {', 'guard: `all` instead of `any` (passes when exactly one length differs)'),
    'm1ok': (B, GUARD, '    if [messages.len(), verifying_keys.len()].iter().any(|&len| len != signatures.len())\n    {', 'CONTROL: the same guard written with `any` (equivalent refactoring: must SURVIVE)'),
    'm2': (B, GUARD, '    if signatures.len() != messages.len()\n    {', 'guard drops the verifying_keys comparisons'),
    'm3': (B, GUARD, '    if signatures.len() != verifying_keys.len()\n    {', 'guard drops the messages comparisons'),
    'm4': (B, '(0..signatures.len())', '(0..messages.len())', 'hrams range over messages.len() (EQUIVALENT once the guard holds)'),
    'm4b': (B, None, None, 'm3 + m4 together: guard without messages, range over messages.len()'),
    'm5': (B, '(0..signatures.len())', '(0..=signatures.len())', 'hrams range inclusive'),
    'm6': (B, 'once(-B_coefficient).chain(zs.iter().cloned()).chain(zhrams)', 'zs.iter().cloned().chain(zhrams)', 'scalar chain without once(-B_coefficient)'),
    'm7': (B, 'B.chain(Rs).chain(As)', 'B.chain(Rs)', 'point chain without As'),
    'm8': (B, 'h.update(messages[i]);', 'h.update(messages[i + 1]);', 'index i + 1 in the hrams closure'),
    'm9': (B, '.ok_or(InternalError::Verify)?;', '.unwrap();', 'None of the multiscalar product unwrapped instead of reported'),
    'm10': (B, '        .collect::<Result<Vec<_>, _>>()?;', '        .collect::<Result<Vec<_>, _>>().unwrap();', 'non-canonical S unwrapped (R19 text changes: expected UNDECIDED)'),
    'm11': (B, 'once(-B_coefficient).chain(zs.iter().cloned()).chain(zhrams)', 'once(-B_coefficient).chain(zs.iter().cloned()).chain(zs.iter().cloned()).chain(zhrams)', 'zs chained twice (1 + 3n scalars)'),
    'm12': (B, '''        return Err(InternalError::ArrayLength {
            name_a: "signatures",
            length_a: signatures.len(),
            name_b: "messages",
            length_b: messages.len(),
            name_c: "verifying_keys",
            length_c: verifying_keys.len(),
        }
        .into());''', '        return Ok(());', 'length mismatch reported as Ok'),
    'm13': (B, 'B.chain(Rs).chain(As)', 'B.chain(As).chain(Rs)', 'Rs / As swapped (EQUIVALENT for C15: same lengths, same None-ness)'),
    'm14': (B, 'let zs: Vec<Scalar> = signatures\n', 'let zs: Vec<Scalar> = signatures[1..]\n', 'one random scalar fewer (slice [1..] panics on empty input; lengths differ otherwise)'),
}
VACUITY = {
    'v_end': ('    if id.is_identity() {\n', '    assert(false);\n    if id.is_identity() {\n'),
    'v_loop': ('            vx_out.push(vx_item);\n', '            assert(false);\n            vx_out.push(vx_item);\n'),   # first occurrence = the hrams loop
    'v_after_sigs': ('    let signatures = bv_collect_sigs(signatures)?;\n', '    let signatures = bv_collect_sigs(signatures)?;\n    assert(false);\n'),
    'v_guard': ('        return Err(InternalError::ArrayLength {', '        assert(false);\n        return Err(InternalError::ArrayLength {'),
    'v_okarm': ('        Ok(())\n    } else {', '        assert(false);\n        Ok(())\n    } else {'),
    'v_errarm': ('        Err(InternalError::Verify.into())\n', '        assert(false);\n        Err(InternalError::Verify.into())\n'),
}


def run_verus(path, rlimit, cwd):
    t = time.time()
    r = subprocess.run(['timeout', '900', 'verus', path, '--rlimit', str(rlimit), '--triggers-mode', 'silent', '--multiple-errors', '5'], capture_output=True, text=True, cwd=cwd)
    dt = time.time() - t
    txt = r.stdout + r.stderr
    lines = txt.split('\n')
    errs = []
    for i, l in enumerate(lines):
        if l.startswith('error') and 'aborting' not in l:
            ctx = ' | '.join(x.strip() for x in lines[i + 1:i + 9] if re.search(r'^\s*\d+ \|', x))
            errs.append(l + '  ::  ' + ctx[:260])
    res = [l for l in lines if 'verification results' in l]
    ok = bool(res) and ', 0 errors' in res[0] and not errs and r.returncode == 0
    return ok, res, errs, dt, txt


def mutant(label, rlimit):
    f, old, new, what = MUTANTS[label]
    d = f'{TMP}/{label}'
    root = f'{d}/mrepo'
    shutil.rmtree(d, ignore_errors=True)
    for x in FILES:
        os.makedirs(os.path.dirname(f'{root}/{x}'), exist_ok=True)
        shutil.copy(f'/repo/{x}', f'{root}/{x}')
    s = open(f'{root}/{f}').read()
    if label == 'm4b':
        for k in ('m3', 'm4'):
            _, o, n, _ = MUTANTS[k]
            assert s.count(o) == 1, (k, s.count(o))
            s = s.replace(o, n)
    else:
        assert s.count(old) == 1, (label, s.count(old))
        s = s.replace(old, new)
    open(f'{root}/{f}', 'w').write(s)
    out = f'{d}/bv_{label}.rs'
    r = subprocess.run([VX, root, TPL, out, out + '.json'], capture_output=True, text=True)
    if r.returncode != 0:
        return f'== {label}: UNDECIDED (vx exit {r.returncode}: {r.stderr.strip().splitlines()[-1] if r.stderr.strip() else ""})   [{what}]'
    ok, res, errs, dt, txt = run_verus(out, rlimit, d)
    verdict = 'SURVIVED' if ok else 'KILLED'
    msg = f'== {label}: {verdict} {res} {dt:.1f}s   [{what}]'
    if not res and not errs:
        msg += '\n' + txt[-1200:]
    for e in errs[:5]:
        msg += '\n      ' + e
    return msg


def vacuity(label, rlimit):
    d = f'{TMP}/{label}'
    shutil.rmtree(d, ignore_errors=True)
    os.makedirs(d)
    gen = f'{d}/bv.rs'
    r = subprocess.run([VX, '/repo', TPL, gen, gen + '.json'], capture_output=True, text=True)
    assert r.returncode == 0, r.stderr
    s = open(gen).read()
    a, b = VACUITY[label]
    assert a in s, label
    out = f'{d}/bv_{label}.rs'
    open(out, 'w').write(s.replace(a, b, 1))
    ok, res, errs, dt, txt = run_verus(out, rlimit, d)
    msg = f'== {label}: {"ACCEPTED (VACUOUS!)" if ok else "REJECTED"} {res} {dt:.1f}s'
    for e in errs[:2]:
        msg += '\n      ' + e
    return msg


def main():
    args = sys.argv[1:]
    rlimit, jobs, keep = 100, 4, False
    while args and args[0].startswith('--'):
        if args[0] == '--rlimit': rlimit = int(args[1]); args = args[2:]
        elif args[0] == '--jobs': jobs = min(4, int(args[1])); args = args[2:]
        elif args[0] == '--keep': keep = True; args = args[1:]
        else: sys.exit(__doc__)
    labels = args or (list(MUTANTS) + list(VACUITY))
    os.makedirs(TMP, exist_ok=True)
    with ThreadPoolExecutor(max_workers=jobs) as ex:
        futs = [(l, ex.submit(mutant if l in MUTANTS else vacuity, l, rlimit)) for l in labels]
        for l, f in futs:
            print(f.result(), flush=True)
    if not keep:
        shutil.rmtree(TMP, ignore_errors=True)


if __name__ == '__main__':
    main()
