#!/usr/bin/env python3
"""compare_stubs.py [--details] [--root /verif] [--repo /repo]

Best-effort, CONSERVATIVE drift detector for "assumed stub vs proved contract" (AUDIT_assumed_contracts.md, item P7).

It reads every template contracts/*.vx and every lib contracts/lib/*.vx and collects
  * template blocks   //@impl <file> :: <selector>  /  //@item <file> :: [mod m ::] fn f   +  //@fn name  …  //@ spec  //@| requires/ensures …
      - with    `//@ external_body`  -> a CONSUMER stub (assumed contract on a real signature)
      - without `//@ external_body`  -> a PROVIDER block (the real body is extracted and verified against this contract)
  * hand-written Verus items
      - `#[verifier::external_body] fn … requires … ensures … { … }` inside `impl [Trait for] Type { }` or free -> CONSUMER stub
      - `#[verifier::external_body] pub exec const NAME: T ensures …`                                           -> CONSUMER stub (kind const)
      - a fn with a body and a contract (e.g. macro variants instantiated by hand and verified)                 -> PROVIDER
      - `impl … XSpecImpl<Rhs> for T { open spec fn x_req(..) -> bool { E } }`: the conjuncts of E are the `requires` of the operator
        method of the same (trait, type) in the same file / unit (this is how std operator impls carry preconditions).
Stubs are paired with provider blocks by (self type incl. `&`, trait incl. arguments, fn name); free fns by name, and — when both sides
say where the fn lives (`//@item <file> :: mod m :: fn f` / an enclosing `mod m { }`) — by compatible module paths. A by-value macro variant
(`EdwardsPoint + EdwardsPoint`) is NOT paired with the `&`-form impl it forwards to: nobody proves the forwarder, so it is NO-PROVIDER.
Clauses are compared TEXTUALLY after normalisation: comments/tags removed, whitespace canonicalised (token stream), the return
name -> $ret, the i-th parameter -> $i (parameter names of a template block are looked up in the real source under --repo).
No spec function is ever unfolded: anything that is not literally the same clause is reported, so DIFFERENT means "look at it",
not "unsound" (sig_l() vs ell(), named post-predicates vs their expansion, `requires` declared in a shim trait, … all show up).

Verdict per (stub, provider) pair:
  IDENTICAL   same requires set and same ensures set
  SUBSET      stub.ensures ⊆ provider.ensures  and  provider.requires ⊆ stub.requires      (the stub assumes no more than is proved)
  DIFFERENT   otherwise; the stub ensures not found in the provider and the provider requires missing in the stub are listed
  NO-PROVIDER no verified block with that key in any template (dependency models, macro variants, constants proved in another form)
Exit status is always 0: this is a report tool.
"""
import glob, os, re, sys
from collections import defaultdict

ROOT = "/verif"
REPO = "/repo"
DEP_SHIMS = ("shim_subtle", "shim_zeroize", "sig_shim_digest", "sig_shim_core", "sig_shim_ed25519", "fiat_shim", "avx2_shim_simd",
             "grp_shim_group", "mont_shims", "ris_shim_traits", "sg_shim_ctoption", "s52_shim_choice", "batch_shim_zeroize", "sgr_shim_subtle",
             "avx2_shim_subtle")

TOK = re.compile(r"[A-Za-z_][A-Za-z_0-9]*|[0-9][A-Za-z_0-9]*|'[a-z_]+\b|<==>|==>|=~=|==|!=|<=|>=|&&|\|\||->|::|\S")


def strip_comment(line):
    """remove a trailing // comment (tags live there); no string literals with // occur in contracts"""
    i = line.find("//")
    return line if i < 0 else line[:i]


def norm_sel(s):
    """normalise an impl header / selector: drop `impl<..>`, lifetimes, path prefixes, whitespace"""
    s = s.strip()
    s = re.sub(r"^impl\b", "", s).strip()
    if s.startswith("<"):
        d = 0
        for i, c in enumerate(s):
            d += c == "<"
            d -= c == ">"
            if d == 0:
                s = s[i + 1:]
                break
    s = re.sub(r"'[a-z_]+\s*,?\s*", "", s)          # lifetimes
    s = re.sub(r"\bwhere\b.*$", "", s)
    s = re.sub(r"(?:[A-Za-z_0-9]+::)+", "", s)      # path prefixes
    s = re.sub(r"<\s*>", "", s)
    return re.sub(r"\s+", " ", s).strip()


def key_of(sel, fn):
    sel = norm_sel(sel)
    if " for " in sel:
        tr, ty = sel.split(" for ", 1)
    else:
        tr, ty = "", sel
    ty_raw = ty.replace(" ", "")
    # shim twins of dependency traits that differ only by a one-letter suffix (same methods + `requires` / spec fns): ConstantTimeEqV, …
    tr = re.sub(r"^(ConditionallySelectable|ConditionallyNegatable|ConstantTimeEq|IsIdentity|Identity|Field|PrimeField)[A-Z]\b", r"\1", tr.strip())
    # `Neg for &EdwardsPoint` and `Neg for EdwardsPoint` are different impls: the `&` stays in the key
    return (ty_raw, tr.replace(" ", ""), fn), ty_raw


def split_top(s, sep=","):
    """split on top-level `sep` (outside () [] {} and outside quantifier bars |..|)"""
    out, cur, d, i, n = [], [], 0, 0, len(s)
    in_bars = False
    while i < n:
        c = s[i]
        if in_bars:
            cur.append(c)
            if c == "|":
                in_bars = False
            i += 1
            continue
        if c == "|" and not (i + 1 < n and s[i + 1] == "|") and not (i > 0 and s[i - 1] == "|"):
            # a single bar: opens a closure/quantifier parameter list if preceded by forall/exists/choose or `(`/`,`/start
            prev = "".join(cur).rstrip()
            if re.search(r"(forall|exists|choose)$", prev) or prev.endswith(("(", ",", "=", "by")) or prev == "":
                in_bars = True
            cur.append(c)
            i += 1
            continue
        if c in "([{":
            d += 1
        elif c in ")]}":
            d -= 1
        if d == 0 and s.startswith(sep, i):
            out.append("".join(cur))
            cur = []
            i += len(sep)
            continue
        cur.append(c)
        i += 1
    out.append("".join(cur))
    return [x.strip() for x in out if x.strip()]


def parse_spec(text):
    """text of a spec section -> (requires clauses, ensures clauses) as raw strings"""
    text = "\n".join(strip_comment(l) for l in text.split("\n"))
    parts = re.split(r"\b(requires|ensures|decreases|recommends|returns|no_unwind|opens_invariants)\b", text)
    req, ens = [], []
    cur = None
    for p in parts:
        if p in ("requires", "ensures", "decreases", "recommends", "returns", "no_unwind", "opens_invariants"):
            cur = p
        elif cur == "requires":
            req += split_top(p)
        elif cur == "ensures":
            ens += split_top(p)
    return req, ens


def norm_clause(c, params, ret):
    toks = TOK.findall(c)
    m = {}
    for i, p in enumerate(params):
        if p and p != "self":
            m[p] = "$%d" % (i + 1)
    if ret:
        m[ret] = "$ret"
    toks = [t if (i > 0 and toks[i - 1] == ".") else m.get(t, t) for i, t in enumerate(toks)]   # `.bytes` is a field, not the parameter `bytes`
    s = " ".join(toks)
    s = re.sub(r"^\( (.*) \)$", lambda mo: mo.group(1) if balanced(mo.group(1)) else mo.group(0), s)
    return s


def balanced(s):
    d = 0
    for t in s.split():
        if t == "(":
            d += 1
        elif t == ")":
            d -= 1
            if d < 0:
                return False
    return d == 0


def conj(clauses):
    """split clauses further on top-level && (a stub may conjoin what the provider lists, or vice versa)"""
    out = []
    for c in clauses:
        c = c.strip()
        while c.startswith("(") and c.endswith(")") and balanced(" ".join(TOK.findall(c[1:-1]))):
            c = c[1:-1].strip()
        if re.match(r"^(forall|exists)\b", c) or "==>" in c or "<==>" in c or "||" in c:
            out.append(c)
        else:
            out += split_top(c, "&&")
    return out


def params_of(sig_params):
    ps = []
    for p in split_top(sig_params):
        p = p.strip()
        if re.match(r"^&?\s*('[a-z_]+\s+)?(mut\s+)?self\b", p):
            ps.append("self")
            continue
        name = p.split(":", 1)[0].strip()
        name = re.sub(r"^(mut|ref)\s+", "", name)
        ps.append(name if re.match(r"^[A-Za-z_][A-Za-z_0-9]*$", name) else "")
    return ps


class Block:
    def __init__(self, **kw):
        self.__dict__.update(kw)
        self.req_extra = []


# ------------------------------------------------------------------------------------------------ real-source parameter lookup
_src_cache = {}


def real_params(relfile, sel, fn, nth):
    if not relfile or relfile.startswith("@"):
        return None
    path = os.path.join(REPO, relfile)
    if path not in _src_cache:
        try:
            _src_cache[path] = open(path, encoding="utf-8").read()
        except OSError:
            _src_cache[path] = None
    src = _src_cache[path]
    if src is None:
        return None
    spans = []
    if sel is None:
        spans = [(0, len(src))]
    else:
        want = norm_sel(sel).replace(" ", "")
        for m in re.finditer(r"^[ \t]*(?:unsafe\s+)?impl\b[^{;]*\{", src, re.M):
            hdr = m.group(0)[:-1]
            if norm_sel(hdr.strip()).replace(" ", "") == want:
                d, i = 0, m.end() - 1
                while i < len(src):
                    d += src[i] == "{"
                    d -= src[i] == "}"
                    if d == 0:
                        break
                    i += 1
                spans.append((m.end(), i))
    found = []
    for a, b in spans:
        for m in re.finditer(r"\bfn\s+%s\s*(?:<[^>(]*>)?\s*\(" % re.escape(fn), src[a:b]):
            i = a + m.end()
            d, j = 1, i
            while j < b and d:
                d += src[j] == "("
                d -= src[j] == ")"
                j += 1
            found.append(params_of(src[i:j - 1]))
    if not found:
        return None
    return found[min(nth - 1, len(found) - 1)]


# ------------------------------------------------------------------------------------------------ parsing of .vx files
def parse_file(path, blocks, specimpls):
    rel = os.path.relpath(path, ROOT)
    lines = open(path, encoding="utf-8").read().split("\n")
    cur_impl = None          # (file, selector)
    cur_fn = None
    sect = None
    # --- template directives
    for ln, line in enumerate(lines, 1):
        t = line.strip()
        if not t.startswith("//@"):
            continue
        if t.startswith("//@|"):
            if cur_fn is not None and sect == "spec":
                cur_fn.spec.append(t[4:])
            continue
        d = t[3:].strip()
        if t.startswith("//@impl "):
            m = re.match(r"//@impl\s+(\S+)\s*::\s*(.*)$", t)
            cur_impl = (m.group(1), m.group(2).strip()) if m else None
            continue
        if t.startswith("//@endimpl"):
            cur_impl = None
            continue
        if t.startswith("//@header ") and cur_impl:
            cur_impl = (cur_impl[0], cur_impl[1], t[len("//@header "):].strip())
            continue
        if t.startswith("//@item "):
            m = re.match(r"//@item\s+(\S+)\s*::\s*((?:mod\s+\w+\s*::\s*)*)fn\s+(\w+)", t)
            if m:
                stem = os.path.basename(m.group(1)).rsplit(".", 1)[0]
                if stem == "mod":
                    stem = os.path.basename(os.path.dirname(m.group(1)))
                qual = [stem] + re.findall(r"mod\s+(\w+)", m.group(2))
                cur_fn = Block(file=rel, line=ln, relsrc=m.group(1), sel=None, fn=m.group(3), nth=1, ext=False, ret=None, spec=[], kind="tmpl", params=None, qual=qual)
                blocks.append(cur_fn)
                sect = None
            continue
        if t.startswith("//@fn "):
            m = re.match(r"//@fn\s+(\w+)(?:\s+#(\d+))?", t)
            if m and cur_impl:
                cur_fn = Block(file=rel, line=ln, relsrc=cur_impl[0], sel=cur_impl[1], fn=m.group(1), nth=int(m.group(2) or 1), ext=False, ret=None,
                               spec=[], kind="tmpl", params=None, qual=[], alt_sel=(cur_impl[2] if len(cur_impl) > 2 else None))
                blocks.append(cur_fn)
                sect = None
            continue
        if t.startswith("//@endfn"):
            cur_fn = None
            sect = None
            continue
        if cur_fn is None or not line.startswith("//@ "):
            continue
        kw = d.split()[0] if d else ""
        if kw == "spec":
            sect = "spec" if cur_fn.__dict__.get("target", "outer") == "outer" else None
        elif kw == "external_body":
            cur_fn.ext = True
            sect = None
        elif kw == "ret":
            if cur_fn.ret is None and cur_fn.__dict__.get("target", "outer") == "outer":
                cur_fn.ret = d.split()[1].rstrip(":") if len(d.split()) > 1 else None
            sect = None
        elif kw in ("inner", "closure"):
            cur_fn.target = "nested"
            sect = None
        elif kw == "outer":
            cur_fn.target = "outer"
            sect = None
        else:
            sect = None
    # --- hand-written Verus items: track impl headers by brace depth
    depth = 0
    impl_stack = []          # (header, depth_at_open)
    mod_stack = []           # (name, depth_at_open)
    pending_ext = False
    i = 0
    n = len(lines)
    while i < n:
        raw = lines[i]
        t = raw.strip()
        if t.startswith("//"):
            i += 1
            continue
        code = strip_comment(raw)
        if "#[verifier::external_body]" in code:
            pending_ext = True
        m_impl = re.match(r"^\s*(?:unsafe\s+)?impl\b(.*)\{\s*$", code)
        m_fn = re.match(r"^\s*(?:pub(?:\([a-z]+\))?\s+)?(?:const\s+)?(?:(proof|spec|open spec|closed spec|uninterp spec|exec)\s+)?(?:broadcast\s+)?fn\s+(\w+)", code)
        m_const = re.match(r"^\s*pub\s+exec\s+const\s+(\w+)\s*:", code)
        handled = False
        m_mod = re.match(r"^\s*(?:pub(?:\([a-z]+\))?\s+)?mod\s+(\w+)\s*\{\s*$", code)
        if m_mod:
            mod_stack.append((m_mod.group(1), depth))
        if m_impl and not m_fn:
            hdr = m_impl.group(1)
            impl_stack.append((hdr, depth))
            ms = re.match(r"\s*(?:<.*?>\s*)?(?:vstd::std_specs::\w+::)(\w+)SpecImpl(<.*>)?\s+for\s+(.*)$", re.sub(r"'[a-z_]+\s*,?\s*", "", hdr.strip()))
            if ms:
                impl_stack[-1] = (hdr, depth, ("%s%s" % (ms.group(1), (ms.group(2) or "")), ms.group(3).strip()))
        if (m_fn or m_const) and not t.startswith("//"):
            mode = m_fn.group(1) if m_fn else "exec"
            name = m_fn.group(2) if m_fn else m_const.group(1)
            # gather the item header up to the `{` that opens the body (paren/bracket depth 0) or `;`
            j, hdrtxt, d2, done, has_body = i, [], 0, False, True
            bar = False
            while j < n and not done:
                seg = strip_comment(lines[j])
                if j == i:
                    seg = seg[seg.find("fn " + name) if m_fn else seg.find("const " + name):]
                k = 0
                while k < len(seg):
                    c = seg[k]
                    if c in "([":
                        d2 += 1
                    elif c in ")]":
                        d2 -= 1
                    elif c == "{" and d2 == 0:
                        # `{` opening a struct-like spec expression (`({ let ..`) is inside parens; at depth 0 this is the body
                        done = True
                        break
                    elif c == ";" and d2 == 0:
                        done, has_body = True, False
                        break
                    hdrtxt.append(c)
                    k += 1
                hdrtxt.append("\n")
                j += 1
            hdrtxt = "".join(hdrtxt)
            # spec-impl requirement functions
            if mode and "spec" in mode and impl_stack and len(impl_stack[-1]) == 3 and name.endswith("_req"):
                body = " ".join(strip_comment(l) for l in lines[i:j])
                mb = re.search(r"->\s*bool\s*\{(.*)\}", body)
                if mb:
                    trait, ty = impl_stack[-1][2]
                    k2, _ = key_of("%s for %s" % (re.sub(r"\s+", "", trait), ty), "")
                    pnames = params_of(re.search(r"\((.*?)\)\s*->", body).group(1)) if re.search(r"\((.*?)\)\s*->", body) else []
                    specimpls[(rel, k2[0], k2[1])] = [norm_clause(c, pnames, None) for c in conj([mb.group(1)])]
            elif (mode in (None, "exec")) and (pending_ext or has_body):
                ms = re.match(r"(?:fn|const)\s+\w+\s*(?:<[^(]*>)?\s*\((.*)\)\s*(?:->\s*(.*?))?\s*(?=\b(?:requires|ensures|decreases|where)\b|$)", hdrtxt, re.S) if m_fn else None
                params, ret, spectxt = [], None, ""
                if m_fn:
                    po = hdrtxt.find("(")
                    d3, q = 0, po
                    while q < len(hdrtxt):
                        d3 += hdrtxt[q] == "("
                        d3 -= hdrtxt[q] == ")"
                        if d3 == 0:
                            break
                        q += 1
                    params = params_of(hdrtxt[po + 1:q])
                    rest = hdrtxt[q + 1:]
                    mr = re.match(r"\s*->\s*\(\s*(\w+)\s*:", rest)
                    ret = mr.group(1) if mr else None
                    ms2 = re.search(r"\b(requires|ensures)\b", rest)
                    spectxt = rest[ms2.start():] if ms2 else ""
                else:
                    ms2 = re.search(r"\b(requires|ensures)\b", hdrtxt)
                    spectxt = hdrtxt[ms2.start():] if ms2 else ""
                    ret = name
                if spectxt or pending_ext:
                    sel = None
                    for fr in reversed(impl_stack):
                        sel = fr[0].strip()
                        break
                    in_trait_decl = False
                    b = Block(file=rel, line=i + 1, relsrc=None, sel=sel, fn=name, nth=1, ext=pending_ext, ret=ret, spec=[spectxt],
                              kind="const" if m_const else "hand", params=params, qual=[x[0] for x in mod_stack])
                    if not (sel is None and not pending_ext and not spectxt):
                        blocks.append(b)
            pending_ext = False
            handled = True
        # struct / other items consume a pending external_body attribute
        if pending_ext and not handled and re.match(r"^\s*(pub\s+)?(struct|enum|type|trait)\b", code):
            pending_ext = False
        # brace accounting (whole line)
        for c in code:
            if c == "{":
                depth += 1
            elif c == "}":
                depth -= 1
                while impl_stack and impl_stack[-1][1] >= depth:
                    impl_stack.pop()
                while mod_stack and mod_stack[-1][1] >= depth:
                    mod_stack.pop()
        i += 1


def includes_of(path):
    out = []
    for l in open(path, encoding="utf-8"):
        m = re.match(r"\s*//@include\s+(\S+)", l)
        if m and not m.group(1).startswith("$"):
            out.append(m.group(1))
    return out


def main():
    global ROOT, REPO
    args = sys.argv[1:]
    details = "--details" in args
    if "--root" in args:
        ROOT = args[args.index("--root") + 1]
    if "--repo" in args:
        REPO = args[args.index("--repo") + 1]
    cdir = os.path.join(ROOT, "contracts")
    files = sorted(glob.glob(os.path.join(cdir, "*.vx")) + glob.glob(os.path.join(cdir, "lib", "*.vx")))
    blocks, specimpls = [], {}
    for f in files:
        try:
            parse_file(f, blocks, specimpls)
        except Exception as e:  # a report tool must not die on one odd file
            print("# warning: could not parse %s: %s" % (os.path.relpath(f, ROOT), e))
    # unit closures: template -> set of files (relative to ROOT)
    closure = {}
    for f in sorted(glob.glob(os.path.join(cdir, "*.vx"))):
        seen, todo = set(), [f]
        while todo:
            x = todo.pop()
            rx = os.path.relpath(x, ROOT)
            if rx in seen or not os.path.exists(x):
                continue
            seen.add(rx)
            for inc in includes_of(x):
                cand = os.path.join(cdir, inc)
                if not os.path.exists(cand):
                    cand = os.path.join(os.path.dirname(x), inc)
                todo.append(cand)
        closure[os.path.relpath(f, ROOT)] = seen
    units_of = defaultdict(list)
    for u, fs in closure.items():
        for x in fs:
            units_of[x].append(os.path.basename(u)[:-3].upper())

    # finish blocks: keys, params, clause sets
    for b in blocks:
        if b.sel is None:
            b.key, b.ty_raw = ("", "", b.fn), ""
        else:
            b.key, b.ty_raw = key_of(b.sel, b.fn)
        if b.params is None:
            b.params = real_params(b.relsrc, b.sel, b.fn, b.nth) or []
            b.params_known = bool(b.params)
        else:
            b.params_known = True
        req, ens = parse_spec("\n".join(b.spec))
        b.req = set(norm_clause(c, b.params, b.ret) for c in conj(req)) - {"true"}
        b.ens = set(norm_clause(c, b.params, b.ret) for c in conj(ens))
        # operator preconditions through XSpecImpl: same file first, then any file of a unit that contains this file
        if b.key[1]:
            cands = [b.file] + sorted(set(x for u, fs in closure.items() if b.file in fs for x in fs))
            for cf in cands:
                r = specimpls.get((cf, b.key[0], b.key[1]))
                if r is not None:
                    # parameters of x_req are (self, rhs): rename $1 consistently; literal `true` carries no requirement
                    b.req |= set("opreq: " + c for c in r if c != "true")
                    break

    stubs = [b for b in blocks if b.ext]
    provs = [b for b in blocks if not b.ext and (b.req or b.ens) and b.kind != "const"]
    by_key = defaultdict(list)
    for p in provs:
        by_key[p.key].append(p)
        if getattr(p, "alt_sel", None):      # a re-homed impl (`//@header`) is also known under its new header
            k2, _ = key_of(p.alt_sel, p.fn)
            if k2 != p.key:
                by_key[k2].append(p)

    def qual_ok(a, b):
        """module paths of two free fns are compatible: one is a (component-wise) suffix of the other, or one is unknown"""
        if not a or not b:
            return True
        k = min(len(a), len(b))
        return a[-k:] == b[-k:]

    rows, detail_txt = [], []
    counts = defaultdict(int)
    stub_verdicts = defaultdict(list)
    for s in stubs:
        name = "%s%s::%s" % (s.key[0] or "::".join(s.qual[-2:]) or "(free)", ("{%s}" % s.key[1]) if s.key[1] else "", s.key[2])
        cons = "%s:%d" % (s.file.replace("contracts/", ""), s.line)
        cands = [(p, "") for p in by_key.get(s.key, []) if s.key[0] or qual_ok(s.qual, p.qual)]
        cands = [(p, f) for p, f in cands if not (p.file == s.file and p.line == s.line)]
        if not cands:
            note = "dependency model" if any(d in s.file for d in DEP_SHIMS) else ("constant (proved in CONST* in another form)" if s.kind == "const" else "")
            rows.append(("NO-PROVIDER", cons, name, "-", note))
            counts["NO-PROVIDER"] += 1
            stub_verdicts[id(s)].append("NO-PROVIDER")
            continue
        for p, loose in cands:
            miss_ens = sorted(s.ens - p.ens)
            miss_req = sorted(p.req - s.req)
            if not miss_ens and not miss_req and s.ens == p.ens and s.req == p.req:
                v = "IDENTICAL"
            elif not miss_ens and not miss_req:
                v = "SUBSET"
            else:
                v = "DIFFERENT"
            prov = "%s%s:%d" % (loose, p.file.replace("contracts/", ""), p.line)
            note = ""
            if v == "DIFFERENT":
                note = "%d stub ensures not in provider, %d provider requires not in stub" % (len(miss_ens), len(miss_req))
                if not (s.params_known and p.params_known):
                    note += " (parameter names unknown on one side)"
                detail_txt.append("%s  %s  vs  %s" % (name, cons, prov))
                for c in miss_ens:
                    detail_txt.append("      stub ensures      : " + c)
                for c in miss_req:
                    detail_txt.append("      provider requires : " + c)
            elif v == "SUBSET":
                note = "provider has %d more ensures, stub has %d more requires" % (len(p.ens - s.ens), len(s.req - p.req))
            rows.append((v, cons, name, prov, note))
            counts[v] += 1
            stub_verdicts[id(s)].append(v)

    w = [max(len(r[k]) for r in rows + [("verdict", "consumer stub", "function", "provider block", "note")]) for k in range(4)]
    hdr = ("verdict", "consumer stub", "function", "provider block", "note")
    print("| " + " | ".join(hdr[k].ljust(w[k]) for k in range(4)) + " | " + hdr[4])
    print("|" + "|".join("-" * (w[k] + 2) for k in range(4)) + "|------")
    order = {"DIFFERENT": 0, "NO-PROVIDER": 1, "SUBSET": 2, "IDENTICAL": 3}
    for r in sorted(rows, key=lambda r: (order[r[0]], r[2], r[1])):
        print("| " + " | ".join(r[k].ljust(w[k]) for k in range(4)) + " | " + r[4])
    if details and detail_txt:
        print()
        print("DIFFERENT — clause lists (normalised text; $ret = return value, $i = i-th parameter, `opreq:` = from an XSpecImpl x_req)")
        for l in detail_txt:
            print(l)
    best = defaultdict(int)
    rank = {"IDENTICAL": 3, "SUBSET": 2, "DIFFERENT": 1, "NO-PROVIDER": 0}
    for s in stubs:
        vs = stub_verdicts[id(s)]
        best[max(vs, key=lambda v: rank[v])] += 1
    print()
    print("SUMMARY: %d stubs (external_body fns / exec consts), %d provider blocks, %d (stub, provider) pairs" % (len(stubs), len(provs), sum(counts[v] for v in ("IDENTICAL", "SUBSET", "DIFFERENT"))))
    print("  pairs : IDENTICAL=%d SUBSET=%d DIFFERENT=%d ; stubs without any provider: NO-PROVIDER=%d" % (counts["IDENTICAL"], counts["SUBSET"], counts["DIFFERENT"], counts["NO-PROVIDER"]))
    print("  stubs by BEST pair: IDENTICAL=%d SUBSET=%d DIFFERENT=%d NO-PROVIDER=%d" % (best["IDENTICAL"], best["SUBSET"], best["DIFFERENT"], best["NO-PROVIDER"]))
    print("  (textual comparison, nothing unfolded: DIFFERENT = review needed, not a soundness verdict; run with --details for the clause lists)")
    return 0


if __name__ == "__main__":
    try:
        main()
    except BrokenPipeError:
        pass
    sys.exit(0)
