#!/usr/bin/env python3
"""Vacuity probes for unit GRP: `assert(false)` is spliced at the end of EVERY verified (non-external_body) extracted body of
contracts/grp.vx (closures included) and of the hand-written model `FieldProvided::is_zero`; every probe must FAIL.
Writes only under /verif/.work/grp/vac."""
import os, re, subprocess, sys
W = "/verif/.work/grp/vac"; os.makedirs(W, exist_ok=True)
tpl = open("/verif/contracts/grp.vx").read().split("\n")
out = []; n = 0; ext = False; infn = False
for l in tpl:
    s = l.strip()
    if s.startswith("//@fn ") or (s.startswith("//@item ") and ":: fn " in s): infn, ext = True, False
    if s == "//@ external_body": ext = True
    if infn and not ext and s in ("//@endfn", "//@ outer"):
        out += ["//@ at-end", "//@|        proof { assert(false); }   // VACUITY-PROBE"]; n += 1
    if s == "//@endfn": infn = False
    if s == "self.ct_eq(&<Scalar as group::ff::FieldV>::ZERO)":
        out.append("        proof { assert(false); }   // VACUITY-PROBE"); n += 1
    if s.startswith("//@include "): l = l.replace("//@include ", "//@include /verif/contracts/")
    out.append(l)
open(W + "/grpvac.vx", "w").write("\n".join(out))
r = subprocess.run(["/verif/vx/target/release/vx", "/repo", W + "/grpvac.vx", W + "/grpvac.rs", W + "/grpvac.log.json"], capture_output=True, text=True)
if r.returncode: print(r.stdout, r.stderr); sys.exit(2)
r = subprocess.run(["timeout", "900", "verus", W + "/grpvac.rs", "--rlimit", os.environ.get("GRP_RLIMIT", "20"), "--triggers-mode", "silent"], capture_output=True, text=True)
o = r.stdout + r.stderr
open(W + "/grpvac.out", "w").write(o)
src = open(W + "/grpvac.rs").read().split("\n")
probe_lines = {i + 1 for i, l in enumerate(src) if "VACUITY-PROBE" in l}
failed = set()
for m in re.finditer(r"error: assertion failed\s*\n\s*--> [^:]+:(\d+):", o):
    if int(m.group(1)) in probe_lines: failed.add(int(m.group(1)))
print([l for l in o.splitlines() if "verification results" in l])
print("probes: %d spliced, %d in output file, %d FAIL (as they must)" % (n, len(probe_lines), len(failed)))
for p in sorted(probe_lines - failed): print("  NOT refuted (vacuous context or rlimit?): line", p, src[p - 1].strip())
sys.exit(0 if failed == probe_lines else 1)
