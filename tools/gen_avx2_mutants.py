#!/usr/bin/env python3
"""Mutation and vacuity checks for unit AVX2F.
  python3 tools/gen_avx2_mutants.py [-j N] [name ...]      mutants: one single-token change of avx2/field.rs (or avx2/constants.rs) in a fake
                                                          repo root, re-extracted with vx and re-verified; every mutant must be REJECTED
  python3 tools/gen_avx2_mutants.py --vacuity             `assert(false)` appended (vx at-end) to every extracted function body; every one must FAIL
Output: `N verified, M errors`, wall time, failing obligations (tag comments of the reported lines)."""
import subprocess, sys, time, re, os, shutil
from concurrent.futures import ThreadPoolExecutor
F = "curve25519-dalek/src/backend/vector/avx2/field.rs"
C = "curve25519-dalek/src/backend/vector/avx2/constants.rs"
U = "curve25519-dalek/src/backend/serial/u64/field.rs"
BASE = "/tmp/avx2f_mut"
RL = os.environ.get("RL", "30")
M = [
 # (name, file, old, new, nth)
 ("sq-p37-low-shift36 (seeded defect)", F, "u64x4::splat(0x3ffffed << 37)", "u64x4::splat(0x3ffffed << 36)", 1),
 ("sq-p37-even-shift36", F, "u64x4::splat(0x3ffffff << 37)", "u64x4::splat(0x3ffffff << 36)", 1),
 ("sq-p37-odd-shift36", F, "u64x4::splat(0x1ffffff << 37)", "u64x4::splat(0x1ffffff << 36)", 1),
 ("sq-p37-low-const", F, "u64x4::splat(0x3ffffed << 37)", "u64x4::splat(0x3ffffee << 37)", 1),
 ("sq-negate_D-lanes", F, "const D_LANES64: u8 = 0b11_00_00_00;", "const D_LANES64: u8 = 0b00_11_00_00;", 1),
 ("sq-drop-x2-oddodd", F, "m(x1_2,  x3_2)", "m(x1_2,  x3)", 1),
 ("sq-x3_2-shl2", F, "let x3_2 = x3.shl::<1>();", "let x3_2 = x3.shl::<2>();", 1),
 ("sq-z8-group-shl2", F, "((m(x9,   x9_19)).shl::<1>())", "((m(x9,   x9_19)).shl::<2>())", 1),
 ("sq-x7_19-wrong-limb", F, "let x7_19 = m_lo(v19, x7);", "let x7_19 = m_lo(v19, x6);", 1),
 ("blend-D-uses-C", F, "Lanes::D => _mm256_blend_epi32(x.into(), y.into(), D_LANES as i32).into(),", "Lanes::D => _mm256_blend_epi32(x.into(), y.into(), C_LANES as i32).into(),", 1),
 ("blend-A_LANES-const", F, "const A_LANES: u8 = 0b0000_0101;", "const A_LANES: u8 = 0b0000_0110;", 1),
 ("blend-AD-uses-AC", F, "(A_LANES | D_LANES) as i32", "(A_LANES | C_LANES) as i32", 1),
 ("shuffle-BADC-control", F, "Shuffle::BADC => u32x8::new(1, 0, 3, 2, 5, 4, 7, 6),", "Shuffle::BADC => u32x8::new(1, 0, 3, 2, 4, 5, 7, 6),", 1),
 ("shuffle-DBBD-control", F, "Shuffle::DBBD => u32x8::new(5, 1, 7, 3, 1, 5, 3, 7),", "Shuffle::DBBD => u32x8::new(5, 1, 7, 3, 1, 5, 7, 3),", 1),
 ("diff_sum-negate-wrong-lanes", F, "let tmp2 = self.blend(self.negate_lazy(), Lanes::AC);", "let tmp2 = self.blend(self.negate_lazy(), Lanes::AD);", 1),
 ("diff_sum-shuffle", F, "let tmp1 = self.shuffle(Shuffle::BADC);", "let tmp1 = self.shuffle(Shuffle::ABDC);", 1),
 ("reduce-19to18", F, "_mm256_mul_epu32(c9_spread, u64x4::splat(19).into())", "_mm256_mul_epu32(c9_spread, u64x4::splat(18).into())", 1),
 ("reduce-shifts", F, "let shifts = u32x8::new(26, 26, 25, 25, 26, 26, 25, 25);", "let shifts = u32x8::new(26, 26, 25, 26, 26, 26, 25, 25);", 1),
 ("reduce-mask25", F, "            (1 << 25) - 1,\n            (1 << 25) - 1,\n            (1 << 26) - 1,", "            (1 << 25) - 1,\n            (1 << 24) - 1,\n            (1 << 26) - 1,", 1),
 ("reduce-rotate-imm", F, "_mm256_shuffle_epi32(c, 0b01_00_11_10).into()", "_mm256_shuffle_epi32(c, 0b01_00_10_11).into()", 1),
 ("reduce-combine-imm", F, "_mm256_blend_epi32(v_lo.into(), v_hi.into(), 0b11_00_11_00).into()", "_mm256_blend_epi32(v_lo.into(), v_hi.into(), 0b11_00_11_01).into()", 1),
 ("reduce-c9-unshuffle", F, "_mm256_shuffle_epi32(c9_19_spread, 0b11_01_10_00).into()", "_mm256_shuffle_epi32(c9_19_spread, 0b11_10_01_00).into()", 1),
 ("reduce-carry-wiring", F, "v[2] = (v[2] & masks) + combine(c32, c54);", "v[2] = (v[2] & masks) + combine(c10, c54);", 1),
 ("reduce64-carry-shr", F, "z[i + 1] += z[i].shr::<26>();", "z[i + 1] += z[i].shr::<25>();", 1),
 ("reduce64-19to18", F, "let x19 = u64x4::splat(19);", "let x19 = u64x4::splat(18);", 1),
 ("reduce64-c1-shr", F, "let mut c1: u64x4 = c.shr::<26>();", "let mut c1: u64x4 = c.shr::<25>();", 1),
 ("reduce64-z1-gets-c0", F, "z[1] += c1;", "z[1] += c0;", 1),
 ("reduce64-chain-order", F, "carry(&mut z, 3); carry(&mut z, 7);", "carry(&mut z, 7); carry(&mut z, 3);", 1),
 ("reduce64-skip-last-carry", F, "carry(&mut z, 0); // z0 < 2^26", "carry(&mut z, 1); // z0 < 2^26", 1),
 ("reduce64-repack-order", F, "repack_pair(z[2].into(), z[3].into()),", "repack_pair(z[3].into(), z[2].into()),", 1),
 ("mul-y9_19-wrong-limb", F, "let y9_19 = m_lo(v19, y9);", "let y9_19 = m_lo(v19, y8);", 1),
 ("mul-v19-18", F, "let v19 = u32x8::new(19, 0, 19, 0, 19, 0, 19, 0);", "let v19 = u32x8::new(19, 0, 18, 0, 19, 0, 19, 0);", 2),
 ("mul-x1_2-not-doubled", F, "let x1_2 = x1 + x1;", "let x1_2 = x1 + x3;", 1),
 ("mul-z3-nofold", F, "m(x3,      y0) + m(x4, y9_19)", "m(x3,      y0) + m(x4, y9)", 1),
 ("mul-z0-no-double", F, "m(x0, y0) + m(x1_2, y9_19)", "m(x0, y0) + m(x1, y9_19)", 1),
 ("unpack-lo-hi-swapped", F, "a = _mm256_unpacklo_epi32(src.into(), zero.into()).into();", "a = _mm256_unpackhi_epi32(src.into(), zero.into()).into();", 1),
 ("repack-x-shuffle-imm", F, "let x_shuffled = _mm256_shuffle_epi32(x.into(), 0b11_01_10_00);", "let x_shuffled = _mm256_shuffle_epi32(x.into(), 0b11_10_01_00);", 1),
 ("repack-blend-imm", F, "_mm256_blend_epi32(x_shuffled, y_shuffled, 0b11001100).into()", "_mm256_blend_epi32(x_shuffled, y_shuffled, 0b11000011).into()", 1),
 ("new-shift25", F, "let a_2i_1 = (x0.0[i] >> 26) as u32;", "let a_2i_1 = (x0.0[i] >> 25) as u32;", 1),
 ("new-lane-order", F, "u32x8::new(a_2i, b_2i, a_2i_1, b_2i_1, c_2i, d_2i, c_2i_1, d_2i_1)", "u32x8::new(b_2i, a_2i, a_2i_1, b_2i_1, c_2i, d_2i, c_2i_1, d_2i_1)", 1),
 ("split-shift25", F, "out[2].0[i] = c_2i + (c_2i_1 << 26);", "out[2].0[i] = c_2i + (c_2i_1 << 25);", 1),
 ("split-extract-lane", F, "let c_2i   = self.0[i].extract::<4>() as u64;", "let c_2i   = self.0[i].extract::<5>() as u64;", 1),
 ("negate_lazy-wrong-const", F, "P_TIMES_2_LO - self.0[0],", "P_TIMES_2_HI - self.0[0],", 1),
 ("neg-wrong-const", F, "P_TIMES_16_LO - self.0[0],", "P_TIMES_2_LO - self.0[0],", 1),
 ("const-2p-shift", C, "pub(crate) static P_TIMES_2_LO: u32x8 = u32x8::new_const(\n    67108845 << 1,", "pub(crate) static P_TIMES_2_LO: u32x8 = u32x8::new_const(\n    67108845 << 2,", 1),
 ("const-16p-limb", C, "pub(crate) static P_TIMES_16_HI: u32x8 = u32x8::new_const(\n    67108863 << 4,", "pub(crate) static P_TIMES_16_HI: u32x8 = u32x8::new_const(\n    67108862 << 4,", 1),
 ("smul-scalar-order", F, "u32x8::new(scalars.0, 0, scalars.1, 0, scalars.2, 0, scalars.3, 0)", "u32x8::new(scalars.1, 0, scalars.0, 0, scalars.2, 0, scalars.3, 0)", 1),
 ("smul-limb-twice", F, "            b5.mul32(consts),", "            b4.mul32(consts),", 1),
 ("select-wrong-vector", F, "a.0[3] ^ (mask_vec & (a.0[3] ^ b.0[3])),", "a.0[3] ^ (mask_vec & (a.0[3] ^ b.0[2])),", 1),
 ("select-mask-not-negated", F, "let mask = (-(choice.unwrap_u8() as i32)) as u32;", "let mask = ((choice.unwrap_u8() as i32)) as u32;", 1),
 ("assign-wrong-vector", F, "self.0[1] ^= mask_vec & (self.0[1] ^ other.0[1]);", "self.0[1] ^= mask_vec & (self.0[1] ^ other.0[2]);", 1),
 ("add-wrong-vector", F, "self.0[2] + rhs.0[2],", "self.0[2] + rhs.0[1],", 1),
]

def run_one(tag, root, tpl):
    w = "%s/%s" % (BASE, tag); os.makedirs(w, exist_ok=True)
    t0 = time.time()
    r = subprocess.run(["/verif/vx/target/release/vx", root, tpl, w + "/avx2f.rs", w + "/avx2f.json"], capture_output=True, text=True)
    if r.returncode != 0:
        return "vx exit %d (undecided): %s" % (r.returncode, (r.stderr or r.stdout).strip()[-200:]), [], time.time() - t0
    p = subprocess.run(["timeout", "1500", "verus", "avx2f.rs", "--rlimit", RL, "--triggers-mode", "silent"], capture_output=True, text=True, cwd=w)
    out = p.stdout + p.stderr
    gen = open(w + "/avx2f.rs").read().split("\n")
    fails = []
    lines = out.split("\n")
    for i, l in enumerate(lines):
        if l.startswith("error") and "aborting" not in l:
            j = i + 1; tags = []
            while j < len(lines) and not lines[j].startswith("error") and not lines[j].startswith("verification results"):
                m = re.search(r"(?:-->|:::) avx2f\.rs:(\d+):", lines[j])
                if m:
                    g = gen[int(m.group(1)) - 1]
                    t = re.search(r"\[C\d+ [^\]]+\]", g)
                    tags.append(t.group(0) if t else g.strip()[:60])
                j += 1
            fails.append("%s {%s}" % (l[7:60].strip(), " | ".join(tags[:2])))
    res = re.search(r"verification results:: (\d+) verified, (\d+) errors", out)
    return (res.group(0)[22:] if res else "NO RESULT " + out[-300:]), fails, time.time() - t0

def mutant(m):
    name, rel, old, new, nth = m
    tag = re.sub(r"[^a-zA-Z0-9_-]", "", name.split(" ")[0])
    root = "%s/%s/mrepo" % (BASE, tag)
    for f in (F, C, U):
        os.makedirs(os.path.dirname(root + "/" + f), exist_ok=True)
        shutil.copy("/repo/" + f, root + "/" + f)
    src = open("/repo/" + rel).read()
    assert src.count(old) >= nth, (name, src.count(old))
    parts = src.split(old); mut = old.join(parts[:nth]) + new + old.join(parts[nth:])
    assert mut != src
    open(root + "/" + rel, "w").write(mut)
    res, fails, dt = run_one(tag, root, "/verif/contracts/avx2f.vx")
    return "%-36s -> %s  %.0fs | %s" % (name, res, dt, "; ".join(fails) if fails else ("" if res.startswith("vx exit") else "!!! NOT DETECTED"))

def vacuity():
    tpl = open("/verif/contracts/avx2f.vx").read().split("\n")
    out = []; names = []
    cur = None
    for l in tpl:
        t = l.strip()
        if t.startswith("//@fn ") or (t.startswith("//@item ") and " :: fn " in t):
            cur = t.split()[-1]
        if t == "//@endfn" and cur:
            if not any(x.strip() == "//@ external_body" for x in out[-60:] if cur in "".join(out[-60:])):
                out += ["//@ outer", "//@ at-end", "//@|        assert(false); // VACUITY %s" % cur]
                names.append(cur)
            cur = None
        out.append(l)
    os.makedirs(BASE + "/vac", exist_ok=True)
    # the template's //@include paths are relative to contracts/
    p = "/verif/contracts/.avx2f_vacuity.vx"
    open(p, "w").write("\n".join(out))
    try:
        w = BASE + "/vac"
        r = subprocess.run(["/verif/vx/target/release/vx", "/repo", p, w + "/avx2f.rs", w + "/avx2f.json"], capture_output=True, text=True)
        assert r.returncode == 0, r.stderr
    finally:
        os.remove(p)
    t0 = time.time()
    pr = subprocess.run(["timeout", "3000", "verus", "avx2f.rs", "--rlimit", RL, "--triggers-mode", "silent"], capture_output=True, text=True, cwd=w)
    o = pr.stdout + pr.stderr
    gen = open(w + "/avx2f.rs").read().split("\n")
    probes = {i + 1: g.split("VACUITY ")[1] for i, g in enumerate(gen) if "// VACUITY " in g}
    hit = {}
    lines = o.split("\n")
    cur_err = None
    for l in lines:
        if l.startswith("error"): cur_err = l
        m = re.search(r"--> avx2f\.rs:(\d+):", l)
        if m and cur_err:
            n = int(m.group(1))
            if n in probes: hit[n] = "refuted"
            elif "rlimit" in cur_err:
                # attribute an rlimit error on a function header to the probe inside that function
                for pn in sorted(probes):
                    if pn > n: hit.setdefault(pn, "rlimit"); break
    print("vacuity: %d probes, %.0fs; %s" % (len(probes), time.time() - t0, [l for l in lines if "verification results" in l]))
    for n in sorted(probes):
        print("   %-28s %s" % (probes[n], hit.get(n, "!!! VERIFIED (vacuous context?)")))

if __name__ == "__main__":
    args = sys.argv[1:]
    if args and args[0] == "--vacuity":
        vacuity(); sys.exit(0)
    j = 3
    if args and args[0] == "-j": j = int(args[1]); args = args[2:]
    todo = [m for m in M if not args or any(a in m[0] for a in args)]
    with ThreadPoolExecutor(max_workers=j) as ex:
        for r in ex.map(mutant, todo):
            print(r); sys.stdout.flush()
