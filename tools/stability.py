#!/usr/bin/env python3
"""stability.py [seeds] [units]  — proof-stability audit (false-alarm guard).
Re-extracts every Verus unit from /repo and verifies it under several Z3 random seeds (smt.random_seed, sat.random_seed).  A function that
verifies with the default seed but fails under another is a brittle proof: a harmless edit could flip it.  Output: .work/stability/report.json and a table.
This is a maintenance tool, not a registered check."""
import json, os, subprocess, sys, time
from concurrent.futures import ThreadPoolExecutor
sys.path.insert(0, os.path.join(os.path.dirname(os.path.abspath(__file__)), ".."))
from vlib import units as U
VERIF = "/verif"
seeds = [int(x) for x in (sys.argv[1] if len(sys.argv) > 1 else "1,2,3").split(",")]
only = sys.argv[2].split(",") if len(sys.argv) > 2 else None
W = os.path.join(VERIF, ".work", "stability")
os.makedirs(W, exist_ok=True)


def one(job):
    n, u, seed = job
    wd = os.path.join(W, n)
    os.makedirs(wd, exist_ok=True)
    gen = os.path.join(wd, n.lower() + ".rs")
    if not os.path.exists(gen + ".done"):
        env = dict(os.environ, VX_GEN=wd)
        for cmdt in u.get("pre_gen", []):
            subprocess.run([c.replace("{repo}", "/repo").replace("{gen}", wd).replace("{verif}", VERIF) for c in cmdt], cwd=VERIF, capture_output=True)
        p = subprocess.run([os.path.join(VERIF, "vx/target/release/vx"), "/repo", os.path.join(VERIF, u["template"]), gen, gen + ".log.json"], capture_output=True, text=True, env=env)
        if p.returncode != 0:
            return (n, seed, "extract-failed", [])
        open(gen + ".done", "w").write("x")
    t0 = time.time()
    try:
        p = subprocess.run(["verus", gen, "--rlimit", str(u.get("rlimit", 100)), "--output-json", "--time-expanded", "--triggers-mode", "silent",
                            "--smt-option", "smt.random_seed=%d" % seed, "--smt-option", "sat.random_seed=%d" % seed],
                           capture_output=True, text=True, cwd=wd, timeout=u.get("timeout_s", 900) * 2)
    except subprocess.TimeoutExpired:
        return (n, seed, "timeout", [])
    try:
        d = json.loads(p.stdout)
    except Exception:
        return (n, seed, "no-json", [p.stderr[-300:]])
    bad = []
    for m in d.get("times-ms", {}).get("smt", {}).get("smt-run-module-times", []):
        for f in m.get("function-breakdown", []):
            if not f.get("success", True):
                bad.append(f["function"])
    vr = d.get("verification-results", {})
    return (n, seed, "ok" if vr.get("success") else "FAIL(%s errors)" % vr.get("errors"), bad, round(time.time() - t0, 1))


jobs = []
for n, u in U.UNITS.items():
    if u["engine"] != "verus" or (only and n not in only):
        continue
    jobs.append((n, u, seeds[0]))
# first seed of every unit sequentially-per-unit (extraction), then the rest
res = []
with ThreadPoolExecutor(4) as ex:
    res += list(ex.map(one, jobs))
    rest = [(n, u, s) for (n, u, _) in jobs for s in seeds[1:]]
    res += list(ex.map(one, rest))
json.dump(res, open(os.path.join(W, "report.json"), "w"), indent=1)
for r in sorted(res, key=lambda r: (r[0], r[1])):
    print("%-8s seed=%d %-16s %s %s" % (r[0], r[1], r[2], r[3], r[4] if len(r) > 4 else ""))
