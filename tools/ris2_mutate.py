#!/usr/bin/env python3
"""tools/ris2_mutate.py [label ...]   — mutation checks for unit RIS2 (AGENT_GUIDE "Mutation sanity check").
For every mutant: the source files the unit reads are copied to a fake repo root /tmp/ris2_mut/<label>/mrepo (same relative paths; /repo is never
touched), ONE textual change is applied, vx re-extracts with the UNCHANGED template contracts/ris2.vx, verus re-verifies (whole file, or the
module / function named in the table when the change is local), and the verdict is printed:
    KILLED      verus reports >= 1 error (the failing obligations / tags are listed)
    UNDECIDED   vx exits 2 (lost anchor, or — by design — a changed text inside an ASSUMED iterator-plumbing expression tied to the source by R19/R28),
                or the mutant does not compile in the extracted unit
    SURVIVED    verus verifies everything
At most 5 verus processes run in parallel. /tmp/ris2_mut is removed at the end."""
import sys, os, shutil, subprocess, time, re, concurrent.futures

R = "curve25519-dalek/src/ristretto.rs"
MAC = "curve25519-dalek/src/macros.rs"
FILES = ["curve25519-dalek/src/edwards.rs", "curve25519-dalek/src/backend/serial/scalar_mul/precomputed_straus.rs", R, "curve25519-dalek/src/field.rs",
         "curve25519-dalek/src/backend/mod.rs", "curve25519-dalek/src/backend/serial/curve_models/mod.rs", "curve25519-dalek/src/scalar.rs",
         "curve25519-dalek/src/window.rs", MAC]
RL = os.environ.get("RIS2_RLIMIT", "30")
B = ["--verify-only-module", "enc::m_batch"]
ENC = lambda f: ["--verify-only-module", "enc", "--verify-function", f]
OPS = lambda f: ["--verify-only-module", "ops"]          # (trait-impl methods have no stable --verify-function name: the whole module is re-verified)
ENCM = lambda f: ["--verify-only-module", "enc"]
WHOLE = []
M = [
    # ---- BatchCompressState::from
    ("a01", R, "let f = &ZZ + &dTT;", "let f = &ZZ - &dTT;", ENC("BatchCompressState::from"), "from: f = Z^2 - dT^2"),
    ("a02", R, "let h = &ZZ - &dTT;", "let h = &ZZ + &dTT;", ENC("BatchCompressState::from"), "from: h = Z^2 + dT^2"),
    ("a03", R, "let g = &YY + &XX;", "let g = &YY - &XX;", ENC("BatchCompressState::from"), "from: g = Y^2 - X^2"),
    ("a04", R, "let dTT = &P.0.T.square() * &constants::EDWARDS_D;", "let dTT = &P.0.T.square() * &constants::SQRT_M1;", ENC("BatchCompressState::from"), "from: d -> sqrt(-1)"),
    ("a05", R, "let eg = &e * &g;", "let eg = &e * &h;", ENC("BatchCompressState::from"), "from: eg = e*h"),
    ("a06", R, "BatchCompressState{ e, f, g, h, eg, fh }", "BatchCompressState{ e: f, f: e, g, h, eg, fh }", ENC("BatchCompressState::from"), "from: e/f swapped in the state"),
    ("a07", R, "let e = &P.0.X * &(&P.0.Y + &P.0.Y);", "let e = &P.0.X * &P.0.Y;", ENC("BatchCompressState::from"), "from: e = XY (factor 2 dropped)"),
    ("a08", R, "&self.eg * &self.fh", "&self.eg * &self.eg", ENC("BatchCompressState::efgh"), "efgh: eg*eg"),
    # ---- the per-point closure
    ("b01", R, "let Zinv = &state.eg * inv;", "let Zinv = &state.fh * inv;", B, "closure: Zinv from fh"),
    ("b02", R, "let Tinv = &state.fh * inv;", "let Tinv = &state.eg * inv;", B, "closure: Tinv from eg"),
    ("b03", R, "let mut magic = constants::INVSQRT_A_MINUS_D;", "let mut magic = constants::SQRT_M1;", B, "closure: wrong constant (not rotated)"),
    ("b04", R, "magic.conditional_assign(&constants::SQRT_M1, negcheck1);", "magic.conditional_assign(&constants::INVSQRT_A_MINUS_D, negcheck1);", B, "closure: wrong constant (rotated)"),
    ("b05", R, "                g.conditional_negate(negcheck2);\n", "", B, "closure: conditional_negate(negcheck2) dropped"),
    ("b06", R, "let negcheck1 = (&state.eg * &Zinv).is_negative();", "let negcheck1 = !(&state.eg * &Zinv).is_negative();", B, "closure: rotate condition inverted"),
    ("b07", R, "let negcheck1 = (&state.eg * &Zinv).is_negative();", "let negcheck1 = (&state.fh * &Zinv).is_negative();", B, "closure: wrong is_negative operand (negcheck1)"),
    ("b08", R, "let negcheck2 = (&(&h * &e) * &Zinv).is_negative();", "let negcheck2 = (&(&h * &e) * &Tinv).is_negative();", B, "closure: wrong is_negative operand (negcheck2)"),
    ("b09", R, "        FieldElement::batch_invert(&mut invs[..]);\n", "", B, "batch_invert skipped"),
    ("b10", R, "e.conditional_assign(&state.g, negcheck1);", "e.conditional_assign(&state.f, negcheck1);", B, "closure: e <- f on rotate"),
    ("b11", R, "let minus_e = -&e;", "let minus_e = e;", B, "closure: minus_e not negated"),
    ("b12", R, "let mut s = &(&h - &g) * &(&magic * &(&g * &Tinv));", "let mut s = &(&h + &g) * &(&magic * &(&g * &Tinv));", B, "closure: h + g"),
    ("b13", R, "                s.conditional_negate(s_is_negative);\n\n                CompressedRistretto(s.as_bytes())", "                CompressedRistretto(s.as_bytes())", B, "closure: final abs dropped"),
    ("b14", R, "let f_times_sqrta = &state.f * &constants::SQRT_M1;", "let f_times_sqrta = &state.f * &constants::INVSQRT_A_MINUS_D;", B, "closure: f * 1/sqrt(a-d)"),
    ("b15", R, "h.conditional_assign(&f_times_sqrta, negcheck1);", "h.conditional_assign(&f_times_sqrta, negcheck2_unused);".replace("negcheck2_unused", "!negcheck1"), B, "closure: h rotated on the opposite condition"),
    ("b16", R, "let mut invs: Vec<FieldElement> = states.iter().map(|state| state.efgh()).collect();", "let mut invs: Vec<FieldElement> = states.iter().map(|state| state.eg).collect();", B, "invs = eg instead of eg*fh"),
    ("b17", R, "let s_is_negative = s.is_negative();\n                s.conditional_negate(s_is_negative);\n\n                CompressedRistretto", "let s_is_negative = !s.is_negative();\n                s.conditional_negate(s_is_negative);\n\n                CompressedRistretto", B, "closure: negative root chosen"),
    # ---- wrappers
    ("c01", R, "RistrettoPoint(self.0 * scalar)", "RistrettoPoint(self.0)", OPS("RistrettoPoint::mul"), "&RistrettoPoint * &Scalar: multiplication dropped"),
    ("c02", R, "RistrettoPoint(self * point.0)", "RistrettoPoint(self * EdwardsPoint::identity())", OPS("Scalar::mul"), "&Scalar * &RistrettoPoint: identity instead of point.0"),
    ("c03", R, "        *self = result;\n", "", OPS("RistrettoPoint::mul_assign"), "MulAssign: result not stored"),
    ("c04", R, "a, &A.0, b,", "b, &A.0, a,", OPS("RistrettoPoint::vartime_double_scalar_mul_basepoint"), "vartime_double_scalar_mul_basepoint: a and b swapped"),
    ("c05", R, "iter.fold(RistrettoPoint::identity(), |acc, item| acc + item.borrow())", "iter.fold(RistrettoPoint::identity(), |acc, item| acc + &acc)", OPS("RistrettoPoint::sum"), "Sum: adds acc instead of the item"),
    ("c06", R, "RistrettoPoint(self.0.basepoint())", "RistrettoPoint(EdwardsPoint::identity())", OPS("RistrettoBasepointTable::basepoint"), "basepoint() returns the identity"),
    ("c07", R, "RistrettoBasepointTable(EdwardsBasepointTable::create(&basepoint.0))", "RistrettoBasepointTable(EdwardsBasepointTable::create(&EdwardsPoint::identity()))", OPS("RistrettoBasepointTable::create"), "create: table of the identity"),
    ("c08", R, "    fn len(&self) -> usize {\n        self.0.len()", "    fn len(&self) -> usize {\n        0", OPS("VartimeRistrettoPrecomputation::len"), "len returns 0"),
    ("c09", R, "self.0.is_empty()", "!self.0.is_empty()", OPS("VartimeRistrettoPrecomputation::is_empty"), "is_empty inverted"),
    ("c10", R, "                static_scalars,\n                dynamic_scalars,\n                dynamic_points.into_iter()", "                dynamic_scalars,\n                static_scalars,\n                dynamic_points.into_iter()", OPS("VartimeRistrettoPrecomputation::optional_mixed_multiscalar_mul"), "mixed: static/dynamic scalars swapped"),
    ("c11", R, "Self::from_slice(slice)", "Self::from_slice(&slice[1..])", ENCM("CompressedRistretto::try_from"), "try_from: drops the first byte (panics on the empty slice)"),
    ("c12", R, "RistrettoPoint(&self.0 * scalar)", "RistrettoPoint(EdwardsPoint::identity())", OPS("RistrettoBasepointTable::mul"), "table * scalar: returns the identity"),
    ("c13", R, "RistrettoPoint(EdwardsPoint::multiscalar_mul(scalars, extended_points))", "RistrettoPoint(EdwardsPoint::identity())", OPS("RistrettoPoint::multiscalar_mul"), "multiscalar_mul returns the identity"),
    ("c14", R, "EdwardsPoint::optional_multiscalar_mul(scalars, extended_points).map(RistrettoPoint)", "{ let _r = EdwardsPoint::optional_multiscalar_mul(scalars, extended_points); None }", OPS("RistrettoPoint::optional_multiscalar_mul"), "optional_multiscalar_mul: always None"),
    ("c15", R, "let extended_points = points.into_iter().map(|P| P.borrow().0);", "let extended_points = points.into_iter().skip(1).map(|P| P.borrow().0);", OPS("RistrettoPoint::multiscalar_mul"), "multiscalar_mul: first point skipped (inside the ASSUMED chain: undecided by design)"),
    ("c16", R, "bytes.try_into().map(CompressedRistretto)", "(&bytes[1..]).try_into().map(CompressedRistretto)", ENCM("CompressedRistretto::from_slice"), "from_slice: drops the first byte (panics on the empty slice)"),
    # ---- the macro the hand-instantiated variants come from
    ("v01", MAC, "                &self * rhs\n", "                &self * &rhs.clone()\n", None, "macros.rs define_mul_variants arm 1 changed (tools/ris2_check_variants.py must notice)"),
]


def run(m):
    label, rel, old, new, vargs, what = m
    root = "/tmp/ris2_mut/%s/mrepo" % label
    shutil.rmtree("/tmp/ris2_mut/%s" % label, ignore_errors=True)
    for f in FILES:
        os.makedirs(os.path.dirname("%s/%s" % (root, f)), exist_ok=True)
        shutil.copy("/repo/" + f, "%s/%s" % (root, f))
    s = open("%s/%s" % (root, rel)).read()
    if s.count(old) < 1:
        return label, what, "ERROR", "pattern not found in the source", 0.0
    i = s.index(old)
    s = s[:i] + new + s[i + len(old):]
    open("%s/%s" % (root, rel), "w").write(s)
    t0 = time.time()
    if vargs is None:
        r = subprocess.run(["python3", "/verif/tools/ris2_check_variants.py", root], capture_output=True, text=True)
        return label, what, ("KILLED" if r.returncode else "SURVIVED"), " ".join(l for l in r.stdout.split("\n") if l.startswith("MISMATCH"))[:200], time.time() - t0
    out = "/tmp/ris2_mut/%s/ris2.rs" % label
    r = subprocess.run(["/verif/vx/target/release/vx", root, "/verif/contracts/ris2.vx", out, out + ".json"], capture_output=True, text=True)
    if r.returncode != 0:
        return label, what, "UNDECIDED", "vx exit %d: %s" % (r.returncode, (r.stderr.strip().split("\n") or [""])[-1][:160]), time.time() - t0
    r = subprocess.run(["timeout", "900", "verus", out, "--rlimit", RL, "--triggers-mode", "silent"] + vargs, capture_output=True, text=True, cwd="/tmp/ris2_mut/%s" % label)
    dt = time.time() - t0
    txt = r.stdout + r.stderr
    res = [l for l in txt.split("\n") if "verification results" in l]
    if not res:
        err = [l for l in txt.split("\n") if l.startswith("error")]
        return label, what, "UNDECIDED", "does not compile: " + (err[0] if err else txt[-200:])[:160], dt
    lines = txt.split("\n")
    src = open(out).read().split("\n")
    tags = []
    kinds = []
    for k, l in enumerate(lines):
        if l.startswith("error") and "aborting" not in l:
            kinds.append(l[7:60])
            for x in lines[k + 1:k + 14]:
                mm = re.match(r"\s*--> [^:]+:(\d+):", x)
                if mm:
                    ln = int(mm.group(1))
                    tg = re.findall(r"\[C\d+ [^\]]+\]", src[ln - 1]) if ln - 1 < len(src) else []
                    tags += tg
                mm = re.match(r"\s*(\d+) \|", x)
                if mm:
                    ln = int(mm.group(1))
                    tags += re.findall(r"\[C\d+ [^\]]+\]", src[ln - 1]) if ln - 1 < len(src) else []
    m2 = re.search(r"(\d+) verified, (\d+) errors", res[0])
    verdict = "KILLED" if m2 and int(m2.group(2)) > 0 else "SURVIVED"
    det = "; ".join(sorted(set(kinds)))[:120] + " {" + ", ".join(sorted(set(tags)))[:260] + "}"
    return label, what, verdict, res[0].replace("verification results:: ", "") + " | " + det, dt


def main():
    sel = sys.argv[1:]
    todo = [m for m in M if not sel or m[0] in sel]
    os.makedirs("/tmp/ris2_mut", exist_ok=True)
    results = []
    with concurrent.futures.ThreadPoolExecutor(max_workers=5) as ex:
        for r in ex.map(run, todo):
            print("%-4s %-9s %5.0fs  %s\n        %s" % (r[0], r[2], r[4], r[1], r[3]), flush=True)
            results.append(r)
    k = sum(1 for r in results if r[2] == "KILLED")
    u = sum(1 for r in results if r[2] == "UNDECIDED")
    s = sum(1 for r in results if r[2] == "SURVIVED")
    print("TOTAL %d mutants: %d killed, %d survived, %d undecided, %d errors" % (len(results), k, s, u, len(results) - k - u - s))
    shutil.rmtree("/tmp/ris2_mut", ignore_errors=True)


main()
