#!/usr/bin/env python3
"""Mutation + vacuity checks for unit AVX2E (AGENT_GUIDE "Mutation sanity check").
usage: tools/avx2e_mutate.py [--vacuity] [-j N] [name...]
Each mutant = ONE textual change of backend/vector/avx2/edwards.rs in a scratch repo root (/tmp/avx2e_mut/<name>/mrepo; /repo is never touched),
re-extracted with vx against contracts/avx2e.vx and re-verified (whole unit, --rlimit 30; the unmutated unit needs < 5 of it).
--vacuity: `assert(false)` spliced (vx at-end) at the end of every extracted body, on the UNMUTATED source; every probe must be rejected.
"""
import sys, os, re, shutil, subprocess, time
from concurrent.futures import ThreadPoolExecutor

EDW = 'curve25519-dalek/src/backend/vector/avx2/edwards.rs'
FILES = [EDW, 'curve25519-dalek/src/backend/vector/avx2/field.rs', 'curve25519-dalek/src/backend/vector/avx2/constants.rs',
         'curve25519-dalek/src/backend/serial/u64/field.rs', 'curve25519-dalek/src/edwards.rs']
TMP = '/tmp/avx2e_mut'
# (name, old, new, nth occurrence)
MUTANTS = [
    # ---- double
    ('double-shuffle-ABAB', 'self.0.shuffle(Shuffle::ABAB)', 'self.0.shuffle(Shuffle::BADC)', 1),
    ('double-shuffle-BADC', 'tmp0.shuffle(Shuffle::BADC)', 'tmp0.shuffle(Shuffle::ABDC)', 1),
    ('double-blend-D-to-C', 'self.0.blend(tmp0 + tmp1, Lanes::D)', 'self.0.blend(tmp0 + tmp1, Lanes::C)', 1),
    ('double-S1-BBBB', 'let S_1 = tmp1.shuffle(Shuffle::AAAA);', 'let S_1 = tmp1.shuffle(Shuffle::BBBB);', 1),
    ('double-2S3-lane', 'zero.blend(tmp1 + tmp1, Lanes::C)', 'zero.blend(tmp1 + tmp1, Lanes::D)', 1),
    ('double-S2-AD-to-AC', 'zero.blend(S_2, Lanes::AD)', 'zero.blend(S_2, Lanes::AC)', 1),
    ('double-negS2-BC-to-AB', 'zero.blend(S_2.negate_lazy(), Lanes::BC)', 'zero.blend(S_2.negate_lazy(), Lanes::AB)', 1),
    ('double-no-negate', 'zero.blend(S_2.negate_lazy(), Lanes::BC)', 'zero.blend(S_2, Lanes::BC)', 1),
    ('double-final-DBBD', 'tmp0.shuffle(Shuffle::DBBD)', 'tmp0.shuffle(Shuffle::ADDA)', 1),
    ('double-final-CACA', 'tmp0.shuffle(Shuffle::CACA)', 'tmp0.shuffle(Shuffle::CBCB)', 1),
    ('double-extra-add', 'tmp0 = tmp0 + S_1;', 'tmp0 = tmp0 + S_1 + S_1;', 1),
    ('double-skip-square-bound', 'tmp1 = tmp0.square_and_negate_D();', 'tmp1 = (tmp0 + tmp0 + tmp0).square_and_negate_D();', 1),
    # ---- From<ExtendedPoint> for CachedPoint
    ('cached-k-121665', 'x = x * (121666, 121666, 2 * 121666, 2 * 121665);', 'x = x * (121665, 121666, 2 * 121666, 2 * 121665);', 1),
    ('cached-2k-lane-C', 'x = x * (121666, 121666, 2 * 121666, 2 * 121665);', 'x = x * (121666, 121666, 121666, 2 * 121665);', 1),
    ('cached-2d-121666', 'x = x * (121666, 121666, 2 * 121666, 2 * 121665);', 'x = x * (121666, 121666, 2 * 121666, 2 * 121666);', 1),
    ('cached-neg-lane-C', 'x = x.blend(-x, Lanes::D);', 'x = x.blend(-x, Lanes::C);', 1),
    ('cached-no-neg', 'x = x.blend(-x, Lanes::D);', 'x = x.blend(x, Lanes::D);', 1),
    ('cached-diff_sum-lanes', 'x = x.blend(x.diff_sum(), Lanes::AB);', 'x = x.blend(x.diff_sum(), Lanes::AC);', 1),
    ('cached-no-diff_sum', 'x = x.blend(x.diff_sum(), Lanes::AB);', 'x = x.blend(x, Lanes::AB);', 1),
    # ---- add
    ('add-drop-diff_sum2', 'tmp = tmp.diff_sum();\n        // tmp = (S9-S8', 'tmp = tmp;\n        // tmp = (S9-S8', 1),
    ('add-blend-AB-to-AC', 'tmp = tmp.blend(tmp.diff_sum(), Lanes::AB);', 'tmp = tmp.blend(tmp.diff_sum(), Lanes::AC);', 1),
    ('add-no-ABDC', 'tmp = tmp.shuffle(Shuffle::ABDC);', 'tmp = tmp.shuffle(Shuffle::BACD);', 1),
    ('add-t0-ADDA', 'let t0 = tmp.shuffle(Shuffle::ADDA);', 'let t0 = tmp.shuffle(Shuffle::DBBD);', 1),
    ('add-t1-CBCB', 'let t1 = tmp.shuffle(Shuffle::CBCB);', 'let t1 = tmp.shuffle(Shuffle::CACA);', 1),
    ('add-mul-self', 'tmp = &tmp * &other.0;', 'tmp = &tmp * &tmp;', 1),
    ('add-swap-mul-operands', 'tmp = &tmp * &other.0;', 'tmp = &other.0 * &tmp;', 1),
    ('add-double-diff_sum', 'tmp = tmp.diff_sum();\n        // tmp = (S9-S8', 'tmp = tmp.diff_sum().diff_sum();\n        // tmp = (S9-S8', 1),
    ('add-lazy-lhs', 'tmp = tmp.blend(tmp.diff_sum(), Lanes::AB);', 'tmp = tmp.blend((tmp + tmp).diff_sum(), Lanes::AB);', 1),
    # ---- neg / sub
    ('neg-no-swap', 'let swapped = self.0.shuffle(Shuffle::BACD);', 'let swapped = self.0.shuffle(Shuffle::ABDC);', 1),
    ('neg-lane-C', 'CachedPoint(swapped.blend(swapped.negate_lazy(), Lanes::D))', 'CachedPoint(swapped.blend(swapped.negate_lazy(), Lanes::C))', 1),
    ('neg-all-lanes', 'CachedPoint(swapped.blend(swapped.negate_lazy(), Lanes::D))', 'CachedPoint(swapped.blend(swapped.negate_lazy(), Lanes::ABCD))', 1),
    ('sub-no-neg', 'self + &(-other)', 'self + other', 1),
    ('sub-double-neg', 'self + &(-other)', 'self + &(-&(-other))', 1),
    # ---- conversions / identity / select
    ('from-edwards-swap-XY', 'FieldElement2625x4::new(&P.X, &P.Y, &P.Z, &P.T)', 'FieldElement2625x4::new(&P.Y, &P.X, &P.Z, &P.T)', 1),
    ('into-edwards-T-lane', 'T: tmp[3],', 'T: tmp[2],', 1),
    ('identity-swapped', 'constants::EXTENDEDPOINT_IDENTITY', 'ExtendedPoint(constants::CACHEDPOINT_IDENTITY.0)', 1),
    ('select-swapped', 'ExtendedPoint(FieldElement2625x4::conditional_select(&a.0, &b.0, choice))', 'ExtendedPoint(FieldElement2625x4::conditional_select(&b.0, &a.0, choice))', 1),
    ('assign-cached-self', 'self.0.conditional_assign(&other.0, choice);', 'self.0.conditional_assign(&self.0.clone(), choice);', 2),
]
# (selector line in avx2e.vx, fn) for the vacuity probes
VAC = [
    ('From<edwards::EdwardsPoint> for ExtendedPoint', 'from'), ('From<ExtendedPoint> for edwards::EdwardsPoint', 'from'), ('From<ExtendedPoint> for CachedPoint', 'from'),
    ('Identity for ExtendedPoint', 'identity'), ('Default for ExtendedPoint', 'default'), ('Identity for CachedPoint', 'identity'), ('Default for CachedPoint', 'default'),
    ('ConditionallySelectable for ExtendedPoint', 'conditional_select'), ('ConditionallySelectable for ExtendedPoint', 'conditional_assign'),
    ('ConditionallySelectable for CachedPoint', 'conditional_select'), ('ConditionallySelectable for CachedPoint', 'conditional_assign'),
    ('ExtendedPoint', 'double'), ('Neg for &CachedPoint', 'neg'), ('Add<&CachedPoint> for &ExtendedPoint', 'add'), ('Sub<&CachedPoint> for &ExtendedPoint', 'sub'),
]


def run_verus(out, d):
    t = time.time()
    r = subprocess.run(['timeout', '900', 'verus', out, '--rlimit', '30', '--triggers-mode', 'silent'], capture_output=True, text=True, cwd=d)
    dt = time.time() - t
    lines = (r.stdout + r.stderr).split('\n')
    errs = []
    for i, l in enumerate(lines):
        if l.startswith('error') and 'aborting' not in l:
            ctx = [x for x in lines[i + 1:i + 10] if re.search(r'^\s*\d+ \|', x)]
            tag = ''
            for x in ctx:
                m = re.search(r'\[(C\d\d[^\]]*)\]', x)
                if m:
                    tag = '[' + m.group(1) + ']'
                    break
            if not tag and ctx:
                tag = ctx[0].split('|', 1)[1].strip()[:70]
            errs.append(l.replace('error: ', '') + ' {' + tag + '}')
    res = [l for l in lines if 'verification results' in l]
    return (res[0].replace('verification results:: ', '') if res else 'NO RESULT (rustc error?) ' + ' / '.join(l for l in lines if l.startswith('error'))[:200]), dt, errs


def mutant(m):
    name, old, new, nth = m
    d = f'{TMP}/{name}'
    root = d + '/mrepo'
    shutil.rmtree(d, ignore_errors=True)
    for f in FILES:
        os.makedirs(os.path.dirname(f'{root}/{f}'), exist_ok=True)
        shutil.copy(f'/repo/{f}', f'{root}/{f}')
    s = open(f'{root}/{EDW}').read()
    idx = -1
    for _ in range(nth):
        idx = s.index(old, idx + 1)
    s = s[:idx] + new + s[idx + len(old):]
    open(f'{root}/{EDW}', 'w').write(s)
    out = d + '/m.rs'
    t0 = time.time()
    r = subprocess.run(['/verif/vx/target/release/vx', root, '/verif/contracts/avx2e.vx', out, out + '.json'], capture_output=True, text=True)
    if r.returncode != 0:
        return f'//   {name}:  {old.strip()[:60]!r} => {new.strip()[:70]!r}\n//        -> vx exit {r.returncode} (undecided at extraction): ' + r.stderr.strip().split('\n')[-1][:160]
    res, dt, errs = run_verus(out, d)
    return f'//   {name}:  {old.strip()[:60]}  =>  {new.strip()[:70]}\n//        -> {res}  {time.time() - t0:.0f}s | ' + '; '.join(errs[:3])


def vacuity(v):
    sel, fn = v
    name = 'vac-' + re.sub(r'[^A-Za-z0-9]+', '_', sel) + '-' + fn
    d = f'{TMP}/{name}'
    shutil.rmtree(d, ignore_errors=True)
    os.makedirs(d)
    lines = open('/verif/contracts/avx2e.vx').read().split('\n')
    i = next(k for k, l in enumerate(lines) if l.startswith('//@impl ') and l.split('::', 1)[1].strip() == sel)
    j = next(k for k in range(i, len(lines)) if lines[k].strip() == '//@fn ' + fn)
    e = next(k for k in range(j, len(lines)) if lines[k].startswith('//@endfn'))
    # put the probe at the very end (after any existing at-end block)
    has_at_end = any(lines[k].strip() == '//@ at-end' for k in range(j, e))
    ins = ['//@|        proof { assert(false); }'] if has_at_end else ['//@ at-end', '//@|        proof { assert(false); }']
    # a body that starts its at-end block with hide(..) must keep hide first: append after the block
    lines[e:e] = ins
    tpl = d + '/avx2e_vac.vx'
    open(tpl, 'w').write('\n'.join(lines))
    # includes are relative to contracts/: run vx on a copy placed in contracts-like dir via symlink
    os.symlink('/verif/contracts/lib', d + '/lib')
    out = d + '/v.rs'
    r = subprocess.run(['/verif/vx/target/release/vx', '/repo', tpl, out, out + '.json'], capture_output=True, text=True)
    if r.returncode != 0:
        return f'//   {name}: vx exit {r.returncode}: ' + r.stderr.strip().split('\n')[-1][:200]
    res, dt, errs = run_verus(out, d)
    ok = any('assertion failed' in x for x in errs)
    return f'//   {sel} :: {fn}: {"REJECTED" if ok else "NOT REJECTED !!!"}  ({res}, {dt:.0f}s) ' + '; '.join(errs[:2])


def main():
    args = sys.argv[1:]
    jobs = 3
    if '-j' in args:
        k = args.index('-j')
        jobs = int(args[k + 1])
        del args[k:k + 2]
    vac = '--vacuity' in args
    names = [a for a in args if not a.startswith('--')]
    os.makedirs(TMP, exist_ok=True)
    if vac:
        todo = [v for v in VAC if not names or any(n in v[0] + v[1] for n in names)]
        f = vacuity
    else:
        todo = [m for m in MUTANTS if not names or m[0] in names]
        f = mutant
    with ThreadPoolExecutor(max_workers=jobs) as ex:
        for r in ex.map(f, todo):
            print(r, flush=True)


if __name__ == '__main__':
    main()
