#!/usr/bin/env python3
"""Tests of the TRUSTED axioms M3 in contracts/lib/ed_axioms.vx (unit ED):
    axiom_m3_add_pniels, axiom_m3_double
and, for good measure, of three statements that unit ED PROVES from them (lib/ed_algebra.vx):
    lemma_m3_add_aniels, lemma_m3_closure (here with the stronger "denominators are non-zero" clause),
    and the subtraction trees lemma_m3_sub_pniels / lemma_m3_sub_aniels.

Every statement is re-stated below with Python integers (spec functions transliterated 1:1 from lib/field_spec.vx,
lib/edwards_spec.vx, lib/ed_models_spec.vx) and evaluated on
  * >= 200 random curve points with random projective scalings,
  * the 8 torsion points (all pairs), the identity,
  * P + (-P), P + P, P + T (T torsion), T + P, P + O, O + P.
For each instance the test first checks that the HYPOTHESIS of the axiom holds (so that the instance is not vacuous) and
then that the CONCLUSION holds. It also checks that the tests have teeth: a set of mutated expression trees must each be
rejected on some instance. Exit status 0 = every axiom passed.
"""
import random
import sys

p = 2**255 - 19
d = (-121665 * pow(121666, p - 2, p)) % p
d2 = (2 * d) % p
ED_D = 37095705934669439343138083508754565189542113879843219016388785533085940283555
ED_D2 = 16295367250680780974490674513165176452449235426866156013048779062215315747161
assert d == ED_D and d2 == ED_D2
ELL = 2**252 + 27742317777372353535851937790883648493
SQRT_M1 = pow(2, (p - 1) // 4, p)


# ---- spec functions (lib/field_spec.vx, lib/edwards_spec.vx) ----
def fadd(a, b): return (a + b) % p
def fsub(a, b): return (a - b) % p
def fneg(a): return (0 - a) % p
def fmul(a, b): return (a * b) % p
def fsq(a): return (a * a) % p
def finv(x): return pow(x, p - 2, p)          # fpow(x, p-2); finv(0) == 0
def fdiv(a, b): return fmul(a, finv(b))
def canon(x): return 0 <= x < p


def on_curve(a):
    x, y = a
    return 0 <= x < p and 0 <= y < p and fsub(fsq(y), fsq(x)) == fadd(1, fmul(ED_D, fmul(fsq(x), fsq(y))))


def ed_add_affine(a, b):
    (x1, y1), (x2, y2) = a, b
    t = fmul(ED_D, fmul(fmul(x1, x2), fmul(y1, y2)))
    return (fdiv(fadd(fmul(x1, y2), fmul(y1, x2)), fadd(1, t)), fdiv(fadd(fmul(y1, y2), fmul(x1, x2)), fsub(1, t)))


def ed_neg_affine(a): return (fneg(a[0]), a[1])
def ed_double_affine(a): return ed_add_affine(a, a)
ED_ID = (0, 1)


# ---- lib/ed_models_spec.vx ----
def aff2(x, y, z): return (fdiv(x, z), fdiv(y, z))
def ext_vals_valid(x, y, z, t): return z != 0 and on_curve(aff2(x, y, z)) and fmul(x, y) == fmul(z, t)
def proj_vals_valid(x, y, z): return z != 0 and on_curve(aff2(x, y, z))
def compl_vals_affine(c): return (fdiv(c[0], c[2]), fdiv(c[1], c[3]))
def compl_vals_valid(c): return c[2] != 0 and c[3] != 0 and on_curve(compl_vals_affine(c))
def pniels_vals_affine(a, b, z): return (fdiv(fsub(a, b), fmul(2, z)), fdiv(fadd(a, b), fmul(2, z)))


def pniels_vals_valid(a, b, z, c):
    q = pniels_vals_affine(a, b, z)
    return z != 0 and on_curve(q) and c == fmul(fmul(ED_D2, fmul(q[0], q[1])), z)


def aniels_vals_affine(a, b): return (fdiv(fsub(a, b), 2), fdiv(fadd(a, b), 2))


def aniels_vals_valid(a, b, c):
    q = aniels_vals_affine(a, b)
    return on_curve(q) and c == fmul(ED_D2, fmul(q[0], q[1]))


# ---- lib/ed_axioms.vx: expression trees ----
def m3_add_pn_tree(x1, y1, z1, t1, a2, b2, z2, c2, mut=None):
    y_plus_x = fadd(y1, x1)
    y_minus_x = fsub(y1, x1)
    pp = fmul(y_plus_x, a2)
    mm = fmul(y_minus_x, b2)
    tt2d = fmul(t1, c2)
    zz = fmul(z1, z2)
    zz2 = fadd(zz, zz)
    if mut == "X=PP+MM": return (fadd(pp, mm), fadd(pp, mm), fadd(zz2, tt2d), fsub(zz2, tt2d))
    if mut == "swapZT": return (fsub(pp, mm), fadd(pp, mm), fsub(zz2, tt2d), fadd(zz2, tt2d))
    if mut == "ZZ2=ZZ": return (fsub(pp, mm), fadd(pp, mm), fadd(zz, tt2d), fsub(zz, tt2d))
    return (fsub(pp, mm), fadd(pp, mm), fadd(zz2, tt2d), fsub(zz2, tt2d))


def m3_add_an_tree(x1, y1, z1, t1, a2, b2, c2, mut=None):
    y_plus_x = fadd(y1, x1)
    y_minus_x = fsub(y1, x1)
    pp = fmul(y_plus_x, a2)
    mm = fmul(y_minus_x, b2)
    txy2d = fmul(t1, c2)
    z2 = fadd(z1, z1)
    if mut == "X=PP+MM": return (fadd(pp, mm), fadd(pp, mm), fadd(z2, txy2d), fsub(z2, txy2d))
    if mut == "swapZT": return (fsub(pp, mm), fadd(pp, mm), fsub(z2, txy2d), fadd(z2, txy2d))
    if mut == "Z2=Z": return (fsub(pp, mm), fadd(pp, mm), fadd(z1, txy2d), fsub(z1, txy2d))
    return (fsub(pp, mm), fadd(pp, mm), fadd(z2, txy2d), fsub(z2, txy2d))


def m3_double_tree(x, y, z, mut=None):
    xx = fsq(x)
    yy = fsq(y)
    zz2 = fmul(2, fsq(z))
    if mut == "ZZ2=ZZ": zz2 = fsq(z)
    x_plus_y = fadd(x, y)
    x_plus_y_sq = fsq(x_plus_y)
    yy_plus_xx = fadd(yy, xx)
    yy_minus_xx = fsub(yy, xx)
    if mut == "YY-XX->XX-YY": yy_minus_xx = fsub(xx, yy)
    if mut == "T=ZZ2+": return (fsub(x_plus_y_sq, yy_plus_xx), yy_plus_xx, yy_minus_xx, fadd(zz2, yy_minus_xx))
    return (fsub(x_plus_y_sq, yy_plus_xx), yy_plus_xx, yy_minus_xx, fsub(zz2, yy_minus_xx))


def m3_sub_pn_tree(x1, y1, z1, t1, a2, b2, z2, c2):
    y_plus_x = fadd(y1, x1)
    y_minus_x = fsub(y1, x1)
    pm = fmul(y_plus_x, b2)
    mp = fmul(y_minus_x, a2)
    tt2d = fmul(t1, c2)
    zz = fmul(z1, z2)
    zz2 = fadd(zz, zz)
    return (fsub(pm, mp), fadd(pm, mp), fsub(zz2, tt2d), fadd(zz2, tt2d))


def m3_sub_an_tree(x1, y1, z1, t1, a2, b2, c2):
    y_plus_x = fadd(y1, x1)
    y_minus_x = fsub(y1, x1)
    pm = fmul(y_plus_x, b2)
    mp = fmul(y_minus_x, a2)
    txy2d = fmul(t1, c2)
    z2 = fadd(z1, z1)
    return (fsub(pm, mp), fadd(pm, mp), fsub(z2, txy2d), fadd(z2, txy2d))


def ed_sub_affine(a, b): return ed_add_affine(a, ed_neg_affine(b))


def lemma_m3_sub_pniels(x1, y1, z1, t1, a2, b2, z2, c2):
    hyp = all(map(canon, (x1, y1, z1, t1, a2, b2, z2, c2))) and ext_vals_valid(x1, y1, z1, t1) and pniels_vals_valid(a2, b2, z2, c2)
    c = m3_sub_pn_tree(x1, y1, z1, t1, a2, b2, z2, c2)
    return hyp, compl_vals_valid(c) and compl_vals_affine(c) == ed_sub_affine(aff2(x1, y1, z1), pniels_vals_affine(a2, b2, z2))


def lemma_m3_sub_aniels(x1, y1, z1, t1, a2, b2, c2):
    hyp = all(map(canon, (x1, y1, z1, t1, a2, b2, c2))) and ext_vals_valid(x1, y1, z1, t1) and aniels_vals_valid(a2, b2, c2)
    c = m3_sub_an_tree(x1, y1, z1, t1, a2, b2, c2)
    return hyp, compl_vals_valid(c) and compl_vals_affine(c) == ed_sub_affine(aff2(x1, y1, z1), aniels_vals_affine(a2, b2))


# ---- axioms: each returns (hypothesis, conclusion) ----
def axiom_m3_add_pniels(x1, y1, z1, t1, a2, b2, z2, c2, mut=None):
    hyp = all(map(canon, (x1, y1, z1, t1, a2, b2, z2, c2))) and ext_vals_valid(x1, y1, z1, t1) and pniels_vals_valid(a2, b2, z2, c2)
    c = m3_add_pn_tree(x1, y1, z1, t1, a2, b2, z2, c2, mut)
    concl = compl_vals_valid(c) and compl_vals_affine(c) == ed_add_affine(aff2(x1, y1, z1), pniels_vals_affine(a2, b2, z2))
    return hyp, concl


def axiom_m3_add_aniels(x1, y1, z1, t1, a2, b2, c2, mut=None):
    hyp = all(map(canon, (x1, y1, z1, t1, a2, b2, c2))) and ext_vals_valid(x1, y1, z1, t1) and aniels_vals_valid(a2, b2, c2)
    c = m3_add_an_tree(x1, y1, z1, t1, a2, b2, c2, mut)
    concl = compl_vals_valid(c) and compl_vals_affine(c) == ed_add_affine(aff2(x1, y1, z1), aniels_vals_affine(a2, b2))
    return hyp, concl


def axiom_m3_double(x, y, z, mut=None):
    hyp = all(map(canon, (x, y, z))) and proj_vals_valid(x, y, z)
    c = m3_double_tree(x, y, z, mut)
    concl = compl_vals_valid(c) and compl_vals_affine(c) == ed_double_affine(aff2(x, y, z))
    return hyp, concl


def axiom_m3_closure(a, b):
    hyp = on_curve(a) and on_curve(b)
    t = fmul(ED_D, fmul(fmul(a[0], b[0]), fmul(a[1], b[1])))
    concl = fadd(1, t) != 0 and fsub(1, t) != 0 and on_curve(ed_add_affine(a, b))
    return hyp, concl


# ---- independent reference arithmetic for generating points (textbook formulas, written separately) ----
def ref_add(P, Q):
    (x1, y1), (x2, y2) = P, Q
    k = d * x1 * x2 * y1 * y2 % p
    x3 = (x1 * y2 + x2 * y1) * pow(1 + k, -1, p) % p
    y3 = (y1 * y2 + x1 * x2) * pow(1 - k, -1, p) % p
    return (x3, y3)


def ref_mul(n, P):
    R = (0, 1)
    while n:
        if n & 1: R = ref_add(R, P)
        P = ref_add(P, P)
        n >>= 1
    return R


def sqrt_mod(a):
    # p = 5 mod 8
    r = pow(a, (p + 3) // 8, p)
    if r * r % p == a % p: return r
    r = r * SQRT_M1 % p
    if r * r % p == a % p: return r
    return None


def random_point(rng):
    while True:
        y = rng.randrange(p)
        u = (y * y - 1) % p
        v = (d * y * y + 1) % p
        x = sqrt_mod(u * pow(v, -1, p) % p)
        if x is None: continue
        if rng.getrandbits(1): x = (-x) % p
        return (x, y)


def torsion_points(rng):
    # a point of order exactly 8: [l]P for random P until the order is 8
    while True:
        T = ref_mul(ELL, random_point(rng))
        if ref_mul(4, T) != (0, 1):
            break
    pts = [ref_mul(k, T) for k in range(8)]
    assert len(set(pts)) == 8 and ref_mul(8, T) == (0, 1)
    assert (0, 1) in pts and (0, p - 1) in pts and (SQRT_M1, 0) in pts and ((-SQRT_M1) % p, 0) in pts
    return pts


def ext_of(P, rng, z=None):
    z = z if z is not None else rng.randrange(1, p)
    x, y = P
    return (x * z % p, y * z % p, z, x * y * z % p)


def pniels_of(P, rng, z=None):
    X, Y, Z, T = ext_of(P, rng, z)
    return ((Y + X) % p, (Y - X) % p, Z, 2 * d * T % p)


def aniels_of(P):
    x, y = P
    return ((y + x) % p, (y - x) % p, 2 * d * x * y % p)


def main():
    seed = int(sys.argv[1]) if len(sys.argv) > 1 else 20261003
    rng = random.Random(seed)
    tors = torsion_points(rng)
    rnd = [random_point(rng) for _ in range(220)]
    base = (15112221349535400772501151409588531511454012693041857206046113283949847762202,
            46316835694926478169428394003475163141307993866256225615783033603165251855960)
    assert on_curve(base)
    rnd.append(base)
    neg = lambda P: ((-P[0]) % p, P[1])

    pairs = []
    for i, P in enumerate(rnd):
        Q = rnd[(i * 7 + 3) % len(rnd)]
        T = tors[i % 8]
        pairs += [(P, Q), (P, neg(P)), (P, P), (P, T), (T, P), (P, (0, 1)), ((0, 1), P), (neg(P), P)]
    pairs += [(S, T) for S in tors for T in tors]          # includes O+O, T+(-T), T+T
    singles = rnd + tors

    stats = {}
    fails = []

    def check(name, hc, inst):
        h, c = hc
        n = stats.setdefault(name, [0, 0])
        n[0] += 1
        if not h:
            fails.append((name, "HYPOTHESIS not satisfied by generated instance (test bug or wrong predicate)", inst))
        elif not c:
            fails.append((name, "CONCLUSION FALSE", inst))
        else:
            n[1] += 1

    for (P, Q) in pairs:
        for zs in ((None, None), (1, 1), (None, 1), (p - 1, 2)):
            e1 = ext_of(P, rng, zs[0])
            n2 = pniels_of(Q, rng, zs[1])
            check("axiom_m3_add_pniels", axiom_m3_add_pniels(*e1, *n2), (P, Q, e1, n2))
            # cross-check of the test itself against the independent reference addition
            assert compl_vals_affine(m3_add_pn_tree(*e1, *n2)) == ref_add(P, Q)
            check("lemma_m3_sub_pniels (proved)", lemma_m3_sub_pniels(*e1, *n2), (P, Q, e1, n2))
        for z in (None, 1):
            e1 = ext_of(P, rng, z)
            a2 = aniels_of(Q)
            check("lemma_m3_add_aniels (proved)", axiom_m3_add_aniels(*e1, *a2), (P, Q, e1, a2))
            assert compl_vals_affine(m3_add_an_tree(*e1, *a2)) == ref_add(P, Q)
            check("lemma_m3_sub_aniels (proved)", lemma_m3_sub_aniels(*e1, *a2), (P, Q, e1, a2))
        check("lemma_m3_closure (proved)", axiom_m3_closure(P, Q), (P, Q))
        assert ed_add_affine(P, Q) == ref_add(P, Q)
    for P in singles:
        for z in (None, 1, p - 1):
            X, Y, Z, _ = ext_of(P, rng, z)
            check("axiom_m3_double", axiom_m3_double(X, Y, Z), (P, X, Y, Z))
            assert compl_vals_affine(m3_double_tree(X, Y, Z)) == ref_add(P, P)

    # teeth: every mutated tree must be rejected by at least one instance
    teeth = []
    P, Q = rnd[0], rnd[1]
    for m in ("X=PP+MM", "swapZT", "ZZ2=ZZ"):
        teeth.append(("add_pniels/" + m, not axiom_m3_add_pniels(*ext_of(P, rng), *pniels_of(Q, rng), mut=m)[1]))
    for m in ("X=PP+MM", "swapZT", "Z2=Z"):
        teeth.append(("add_aniels/" + m, not axiom_m3_add_aniels(*ext_of(P, rng), *aniels_of(Q), mut=m)[1]))
    for m in ("ZZ2=ZZ", "YY-XX->XX-YY", "T=ZZ2+"):
        X, Y, Z, _ = ext_of(P, rng)
        teeth.append(("double/" + m, not axiom_m3_double(X, Y, Z, mut=m)[1]))
    # a non-curve point must not satisfy the hypotheses
    bad = (P[0], (P[1] + 1) % p)
    teeth.append(("hyp rejects off-curve", not axiom_m3_add_pniels(*ext_of(bad, rng), *pniels_of(Q, rng))[0]
                  and not axiom_m3_double(*ext_of(bad, rng)[:3])[0] and not axiom_m3_closure(bad, Q)[0]))

    print("seed", seed, " random points", len(rnd), " torsion points", len(tors), " pairs", len(pairs))
    for k, (n, ok) in sorted(stats.items()):
        print("%-32s instances %6d  passed %6d" % (k, n, ok))
    for k, ok in teeth:
        print("teeth %-32s %s" % (k, "rejected (good)" if ok else "NOT REJECTED"))
    if fails:
        for f in fails[:10]:
            print("FAIL", f[0], f[1], f[2])
        print("RESULT: FAIL (%d failing instances)" % len(fails))
        return 1
    if not all(ok for _, ok in teeth):
        print("RESULT: FAIL (tests have no teeth)")
        return 1
    print("RESULT: PASS")
    return 0


if __name__ == "__main__":
    sys.exit(main())
