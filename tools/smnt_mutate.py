#!/usr/bin/env python3
"""smnt_mutate.py [--suite | <label> <repo-relative file> <old text> <new text> [nth]] [--rlimit N] [--keep]

Mutation sanity check for unit SMNT (AGENT_GUIDE "Mutation sanity check"). For each mutant the REAL sources the unit reads are copied to a
fake repo root /tmp/smnt_mut/<label>/mrepo (same relative paths; /repo is never touched), ONE occurrence of <old> is replaced by <new>, the
macro variants are re-generated from the mutated tree (tools/smnt_gen_variants.py -> VX_GEN), vx re-extracts contracts/smnt.vx against the
fake root and verus re-verifies the WHOLE generated file. Verdicts:
   KILLED     verus reports errors (first failing obligations are listed with the tag found on the failing line, if any)
   SURVIVED   N verified, 0 errors
   UNDECIDED  generator / vx refused (lost anchor, ...) or the mutant does not compile in the extracted unit
`--suite` runs the built-in list (at most 4 verus processes at a time) and prints a summary. /tmp/smnt_mut/<label> is removed unless --keep."""
import os, re, shutil, subprocess, sys, time, concurrent.futures

VERIF = "/verif"
REPO = "/repo"
SCRATCH = "/tmp/smnt_mut"
SRC = "curve25519-dalek/src/"
FILES = [SRC + f for f in ("edwards.rs", "ristretto.rs", "scalar.rs", "window.rs", "macros.rs", "constants.rs",
                           "backend/serial/curve_models/mod.rs", "backend/serial/scalar_mul/vartime_double_base.rs",
                           "backend/vector/avx2/edwards.rs", "backend/vector/scalar_mul/vartime_double_base.rs")]
SD = SRC + "backend/serial/scalar_mul/vartime_double_base.rs"
VD = SRC + "backend/vector/scalar_mul/vartime_double_base.rs"
ED = SRC + "edwards.rs"
RI = SRC + "ristretto.rs"

SUITE = [
    # ---- serial tables-off double-base multiplication
    ("s01", SD, "b.non_adjacent_form(5)", "b.non_adjacent_form(8)", 1),      # recoding width 8, table width 5
    ("s02", SD, "b.non_adjacent_form(5)", "b.non_adjacent_form(6)", 1),
    ("s03", SD, "a.non_adjacent_form(5)", "a.non_adjacent_form(6)", 1),
    ("s04", SD, "Ordering::Less => t = &t.as_extended() - &table_B", "Ordering::Less => t = &t.as_extended() + &table_B", 1),      # wrong sign branch (b)
    ("s05", SD, "Ordering::Greater => t = &t.as_extended() + &table_B", "Ordering::Greater => t = &t.as_extended() - &table_B", 1),
    ("s06", SD, "(0..256).rev()", "(0..255).rev()", 1),      # scan starts one digit too low
    ("s07", SD, "from(&constants::ED25519_BASEPOINT_POINT)", "from(&EdwardsPoint::identity())", 1),      # basepoint replaced by the identity
    ("s08", SD, "&table_B.select(b_naf[i] as usize)", "&table_A.select(b_naf[i] as usize)", 1),      # A table used for a b digit
    ("s09", SD, "let mut t = r.double();", "let mut t = &r.as_extended() + &ProjectiveNielsPoint::identity();", 1),      # dropped doubling
    ("s10", SD, "let mut t = r.double();", "let mut t = r.double().as_projective().double();", 1),      # doubled twice
    ("s11", SD, "&table_B.select(-b_naf[i] as usize)", "&table_B.select(b_naf[i] as usize)", 1),      # negative digit not negated before the cast
    ("s12", SD, "if i == 0 {", "if i == 1 {", 1),      # last digit dropped
    ("s13", SD, "NafLookupTable5::<ProjectiveNielsPoint>::from(A)", "NafLookupTable5::<ProjectiveNielsPoint>::from(&constants::ED25519_BASEPOINT_POINT)", 1),      # table_A built from B
    ("s14", SD, "if a_naf[i] != 0 || b_naf[i] != 0 {", "if a_naf[i] != 0 {", 1),      # scan ignores b
    # ---- vector tables-off double-base multiplication
    ("v01", VD, "b.non_adjacent_form(5)", "b.non_adjacent_form(8)", 1),
    ("v02", VD, "from(&crate::constants::ED25519_BASEPOINT_POINT)", "from(A)", 1),      # table_B built from A
    ("v03", VD, "Q = &Q - &table_B.select(-b_naf[i] as usize);", "Q = &Q + &table_B.select(-b_naf[i] as usize);", 1),
    ("v04", VD, "(0..256).rev()", "(0..255).rev()", 1),
    ("v05", VD, "            Q = Q.double();\n", "", 1),      # dropped doubling
    ("v06", VD, "&table_A.select(a_naf[i] as usize)", "&table_B.select(a_naf[i] as usize)", 1),      # tables swapped for a positive a digit
    ("v07", VD, "a.non_adjacent_form(5)", "a.non_adjacent_form(4)", 1),      # narrower recoding: width-4 digits are valid width-5 digits (expected: equivalent mutant)
    # ---- entry points
    ("e01", ED, "scalar * constants::ED25519_BASEPOINT_POINT", "scalar * EdwardsPoint::identity()", 1),
    ("e02", ED, "bytes: clamp_integer(bytes),", "bytes: bytes,", 2),      # mul_base_clamped without clamping
    ("e03", RI, "scalar * constants::RISTRETTO_BASEPOINT_POINT", "scalar * RistrettoPoint(EdwardsPoint::identity())", 1),
    ("e04", RI, "RistrettoPoint(self * point.0)", "RistrettoPoint(point.0)", 1),
    ("e05", ED, "Self::mul_base(&s)", "Self::mul_base(&Scalar { bytes: [1u8; 32] })", 1),      # mul_base_clamped ignores the clamped scalar
]

TAG = re.compile(r"\[(C\d\d(?:,C\d\d)*) ([A-Za-z0-9_.:<>-]+)\]")


def run_one(label, rel, old, new, nth=1, rlimit=100, keep=False):
    base = os.path.join(SCRATCH, label)
    root = os.path.join(base, "mrepo")
    gen = os.path.join(base, "gen")
    shutil.rmtree(base, ignore_errors=True)
    os.makedirs(gen)
    for f in FILES:
        os.makedirs(os.path.dirname(os.path.join(root, f)), exist_ok=True)
        shutil.copy(os.path.join(REPO, f), os.path.join(root, f))
    p = os.path.join(root, rel)
    s = open(p).read()
    idx = -1
    try:
        for _ in range(nth):
            idx = s.index(old, idx + 1)
    except ValueError:
        return label, "UNDECIDED", "mutation site not found (source changed?)", 0.0
    open(p, "w").write(s[:idx] + new + s[idx + len(old):])
    t0 = time.time()
    try:
        g = subprocess.run(["python3", os.path.join(VERIF, "tools/smnt_gen_variants.py"), root, os.path.join(gen, "smnt_variants.vx")], capture_output=True, text=True)
        if g.returncode != 0:
            return label, "UNDECIDED", "generator: " + g.stderr.strip()[-200:], time.time() - t0
        out = os.path.join(gen, "smnt.rs")
        r = subprocess.run([os.path.join(VERIF, "vx/target/release/vx"), root, os.path.join(VERIF, "contracts/smnt.vx"), out, out + ".json"],
                           capture_output=True, text=True, env=dict(os.environ, VX_GEN=gen))
        if r.returncode != 0:
            return label, "UNDECIDED", "vx exit %d: %s" % (r.returncode, r.stderr.strip().split("\n")[-1][:200]), time.time() - t0
        r = subprocess.run(["timeout", "900", "verus", "smnt.rs", "--rlimit", str(rlimit), "--triggers-mode", "silent", "--multiple-errors", "5"],
                           capture_output=True, text=True, cwd=gen)
        txt = r.stdout + r.stderr
        m = re.search(r"verification results:: (\d+) verified, (\d+) errors", txt)
        glines = open(out).read().split("\n")
        errs = []
        for e in re.finditer(r"^error(?:\[\w+\])?: ([^\n]*)\n\s*--> smnt\.rs:(\d+):", txt, re.M):
            ln = int(e.group(2))
            msg = e.group(1)
            # the tag on the failing line, or on the nearest `failed this ...` note line
            tags = TAG.findall(glines[ln - 1]) if ln - 1 < len(glines) else []
            where = glines[ln - 1].strip()[:90]
            errs.append("%s @%d %s%s" % (msg[:60], ln, ("[" + tags[0][1] + "] ") if tags else "", where))
        for e in re.finditer(r"failed this (?:postcondition|precondition|invariant[^\n]*)\n(?:[^\n]*\n){0,3}?\s*(\d+) \|([^\n]*)", txt):
            tags = TAG.findall(e.group(2))
            if tags:
                errs.append("   ... failed clause [%s]" % tags[0][1])
        if m and int(m.group(2)) == 0 and r.returncode == 0:
            return label, "SURVIVED", m.group(0), time.time() - t0
        if m and int(m.group(2)) > 0:
            return label, "KILLED", m.group(0) + "\n        " + "\n        ".join(errs[:6]), time.time() - t0
        return label, "UNDECIDED", "no verification verdict (mutant does not compile in the extracted unit?): " + " / ".join(errs[:2]) + txt.strip()[-200:].replace("\n", " "), time.time() - t0
    finally:
        if not keep:
            shutil.rmtree(base, ignore_errors=True)


def main():
    args = sys.argv[1:]
    rlimit = 100
    if "--rlimit" in args:
        i = args.index("--rlimit")
        rlimit = int(args[i + 1])
        del args[i:i + 2]
    keep = "--keep" in args
    args = [a for a in args if a != "--keep"]
    if args and args[0] == "--suite":
        only = set(args[1:])
        jobs = [m for m in SUITE if not only or m[0] in only]
        res = {}
        with concurrent.futures.ThreadPoolExecutor(max_workers=4) as ex:
            futs = {ex.submit(run_one, *m, rlimit=rlimit, keep=keep): m for m in jobs}
            for f in concurrent.futures.as_completed(futs):
                label, verdict, info, dt = f.result()
                res[label] = verdict
                m = futs[f]
                print("== %s %-9s %5.1fs  %s: `%s` -> `%s`\n        %s" % (label, verdict, dt, m[1].replace(SRC, ""), m[2].strip()[:70], m[3].strip()[:70], info), flush=True)
        k = sum(v == "KILLED" for v in res.values())
        s = sum(v == "SURVIVED" for v in res.values())
        u = sum(v == "UNDECIDED" for v in res.values())
        print("SUMMARY: %d mutants: %d killed, %d survived (%s), %d undecided (%s)" % (len(res), k, s, " ".join(sorted(l for l, v in res.items() if v == "SURVIVED")),
                                                                                       u, " ".join(sorted(l for l, v in res.items() if v == "UNDECIDED"))))
        return
    label, rel, old, new = args[:4]
    nth = int(args[4]) if len(args) > 4 else 1
    label, verdict, info, dt = run_one(label, rel, old, new, nth, rlimit, keep)
    print("== %s %s %.1fs\n        %s" % (label, verdict, dt, info))


if __name__ == "__main__":
    main()
