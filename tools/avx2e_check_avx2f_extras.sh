#!/bin/bash
# Checks, on a SCRATCH COPY of contracts/avx2f.vx (the committed template is not touched), the two statements that unit AVX2E's abstract field shim
# (lib/avx2e_field_shim.vx) uses BEYOND the ensures of avx2f.vx as committed:
#   (1) `split`: the exact limb relation  r[k].0[j] == lane(self, k)[2j] + 2^26 * lane(self, k)[2j+1]  (split_limbs) as a POSTCONDITION of the real body
#       (in avx2f.vx it is the loop invariant `split_limb`, tag [C01 AVX2F.split.loop]);
#   (2) all_eq(r, x) ==> r == x  (extensionality of the plain structs u32x8 / FieldElement2625x4([u32x8; 5])): the shim states the
#       ConditionallySelectable contracts with `==`.
# Verifies only `FieldElement2625x4::split` and the lemma (Verus --verify-function); exit 0 = both hold.
set -e
W=/verif/.work/avx2e/avx2f_extras
rm -rf $W; mkdir -p $W; ln -s /verif/contracts/lib $W/lib
python3 - <<'PY'
s = open('/verif/contracts/avx2f.vx').read()
old = "//@|            fe51_lt(r[0].0, 288230380446679040) && fe51_lt(r[1].0, 288230380446679040) && fe51_lt(r[2].0, 288230380446679040) && fe51_lt(r[3].0, 288230380446679040),                 // [C11 AVX2F.split.bound]\n"
assert s.count(old) == 1
new = old + "//@|            split_limbs(r[0].0, lane(*self, 0)) && split_limbs(r[1].0, lane(*self, 1)) && split_limbs(r[2].0, lane(*self, 2)) && split_limbs(r[3].0, lane(*self, 3)),     // [C11 AVX2F.split.limbs] (AVX2E extra)\n"
s = s.replace(old, new)
extra = '''
pub open spec fn split_limbs(o: [u64; 5], l: [u32; 10]) -> bool { o[0] == l[0] + l[1] * 67108864 && o[1] == l[2] + l[3] * 67108864 && o[2] == l[4] + l[5] * 67108864 && o[3] == l[6] + l[7] * 67108864 && o[4] == l[8] + l[9] * 67108864 }
pub proof fn lemma_avx2e_extra_all_eq(r: FieldElement2625x4, x: FieldElement2625x4)
    requires all_eq(r, x)
    ensures r == x
{
    assert(r.0[0] == x.0[0] && r.0[1] == x.0[1] && r.0[2] == x.0[2] && r.0[3] == x.0[3] && r.0[4] == x.0[4]);
    assert(r.0 =~= x.0);
}
'''
s = s.replace("//@constfold-obligations", extra + "//@constfold-obligations")
open('/verif/.work/avx2e/avx2f_extras/avx2f_extras.vx', 'w').write(s)
PY
/verif/vx/target/release/vx /repo $W/avx2f_extras.vx $W/x.rs $W/x.json
cd $W
r1=$(timeout 600 verus x.rs --rlimit 100 --triggers-mode silent --verify-root --verify-function 'FieldElement2625x4::split' 2>&1 | grep "verification results")
r2=$(timeout 600 verus x.rs --rlimit 100 --triggers-mode silent --verify-root --verify-function 'lemma_avx2e_extra_all_eq' 2>&1 | grep "verification results")
echo "split with split_limbs postcondition: $r1"
echo "all_eq ==> ==                       : $r2"
[[ "$r1" == *" verified, 0 errors"* && "$r1" != *" 0 verified"* && "$r2" == *"1 verified, 0 errors"* ]] && echo "avx2e_check_avx2f_extras: OK" || { echo "avx2e_check_avx2f_extras: FAILED"; exit 1; }
