#!/usr/bin/env python3
"""Vacuity probes for unit RIS2: `assert(false)` is spliced
  * at the end of EVERY verified (non-external_body) extracted body of contracts/ris2.vx (template `//@ at-end`),
  * at the end of every loop body that vx generates for it (before `vx_out.push(vx_item);` / after `vx_acc = ..;`),
  * at the end of the hand-instantiated macro variants (lib/ris2_variants.vx, lib/ris2_sum.vx),
and every probe must FAIL ("assertion failed"). Works on scratch copies under /verif/.work/ris2/vac only.
usage: tools/ris2_vacuity.py [rlimit]"""
import os, re, subprocess, sys, glob, shutil

W = "/verif/.work/ris2/vac"
shutil.rmtree(W, ignore_errors=True)
os.makedirs(W + "/lib", exist_ok=True)
RL = sys.argv[1] if len(sys.argv) > 1 else "20"
n = 0
for f in glob.glob("/verif/contracts/lib/ris2_*.vx"):
    t = open(f).read()
    # hand-written verified forwarders: body is the single line `core::ops::X::x(..)`
    def probe(m):
        global n
        n += 1
        return "        proof { assert(false); }   // VACUITY-PROBE\n" + m.group(0)
    t = re.sub(r"^        core::ops::(Mul::mul|Add::add)\(.*\)\n", probe, t, flags=re.M)
    # the hand-written lemmas of the algebra (not the generated identities): `assert(false)` at the end of each body
    if os.path.basename(f) in ("ris2_algebra.vx", "ris2_scale.vx"):
        ls = t.split("\n")
        o2 = []
        inlemma = False
        for ln in ls:
            if re.match(r"^(pub )?proof fn lemma_", ln):
                inlemma = True
            if inlemma and ln == "}":
                o2.append("    assert(false);   // VACUITY-PROBE (lemma)")
                n += 1
                inlemma = False
            o2.append(ln)
        t = "\n".join(o2)
    open(W + "/lib/" + os.path.basename(f), "w").write(t)
tpl = open("/verif/contracts/ris2.vx").read().split("\n")
out = []
ext = False
infn = False
for l in tpl:
    s = l.strip()
    if s.startswith("//@fn ") or (s.startswith("//@item ") and ":: fn " in s):
        infn, ext = True, False
    if s == "//@ external_body":
        ext = True
    if infn and not ext and s == "//@endfn":
        out += ["//@ at-end", "//@|        proof { assert(false); }   // VACUITY-PROBE"]
        n += 1
    if s == "//@endfn":
        infn = False
    if s.startswith("//@include lib/ris2_"):
        l = l.replace("//@include lib/", "//@include " + W + "/lib/")
    elif s.startswith("//@include "):
        l = l.replace("//@include ", "//@include /verif/contracts/")
    out.append(l)
open(W + "/ris2vac.vx", "w").write("\n".join(out))
# the included lib copies include nothing themselves except via //@include lines relative to contracts/: rewrite those too
for f in glob.glob(W + "/lib/*.vx"):
    t = open(f).read()
    t = re.sub(r"^//@include (?!/)", "//@include /verif/contracts/", t, flags=re.M)
    open(f, "w").write(t)
r = subprocess.run(["/verif/vx/target/release/vx", "/repo", W + "/ris2vac.vx", W + "/ris2vac.rs", W + "/ris2vac.log.json"], capture_output=True, text=True)
if r.returncode:
    print(r.stdout[-2000:], r.stderr[-2000:])
    sys.exit(2)
src = open(W + "/ris2vac.rs").read().split("\n")
res = []
for l in src:
    if l.strip() == "vx_out.push(vx_item);":
        res.append("            proof { assert(false); }   // VACUITY-PROBE (loop body)")
        n += 1
    res.append(l)
    if l.strip().startswith("vx_acc = core::ops::Add::add("):
        res.append("            proof { assert(false); }   // VACUITY-PROBE (loop body)")
        n += 1
open(W + "/ris2vac.rs", "w").write("\n".join(res))
src = res
r = subprocess.run(["timeout", "1500", "verus", W + "/ris2vac.rs", "--rlimit", RL, "--triggers-mode", "silent", "--multiple-errors", "10"], capture_output=True, text=True)
o = r.stdout + r.stderr
open(W + "/ris2vac.out", "w").write(o)
probe_lines = {i + 1 for i, l in enumerate(src) if "VACUITY-PROBE" in l}


def fn_of(line):
    k = line - 1
    while k > 0 and not re.search(r"\bfn\s+\w+", src[k]):
        k -= 1
    return k


failed = set()
for m in re.finditer(r"error: assertion failed\s*\n\s*--> [^:]+:(\d+):", o):
    if int(m.group(1)) in probe_lines:
        failed.add(int(m.group(1)))
# "rlimit exceeded" in the function that holds the probe: `false` was NOT proved either (Z3 gave up instead of finding the counter-model)
rl_fns = {fn_of(int(m.group(1))) for m in re.finditer(r"error: [^\n]*Resource limit \(rlimit\) exceeded[^\n]*\n\s*--> [^:]+:(\d+):", o)}
undecided = {p for p in probe_lines - failed if fn_of(p) in rl_fns}
print([l for l in o.splitlines() if "verification results" in l])
print("probes: %d spliced, %d in output file; %d 'assertion failed', %d 'rlimit exceeded' (not proved either), %d PROVED (vacuous!)"
      % (n, len(probe_lines), len(failed), len(undecided), len(probe_lines - failed - undecided)))
for p in sorted(undecided):
    print("  rlimit exceeded (rejected, not refuted):", src[fn_of(p)].strip()[:100])
for p in sorted(probe_lines - failed - undecided):
    print("  VACUOUS?: line", p, "in", src[fn_of(p)].strip()[:100])
sys.exit(0 if not (probe_lines - failed - undecided) else 1)
