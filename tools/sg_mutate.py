#!/usr/bin/env python3
"""Mutation checks for unit SG: the REAL scalar.rs (or macros.rs) is copied to /tmp/sg/mrepo, ONE textual change is applied, vx re-extracts with
the UNCHANGED template contracts/sg.vx and verus runs on the whole file.  Every non-equivalent mutant must be rejected.
usage: python3 tools/sg_mutate.py [mutant names...]"""
import os, re, subprocess, sys, time, shutil
REL = 'curve25519-dalek/src/scalar.rs'
MREL = 'curve25519-dalek/src/macros.rs'
src = open('/repo/' + REL).read()
mac = open('/repo/' + MREL).read()
S = 'scalar'; Mc = 'macros'
M = [
 # (name, file, expected, old, new)
 ('fcb_drop_highbit', S, 'PASS-equivalent', "CtOption::new(candidate, high_bit_unset & candidate.is_canonical())", "CtOption::new(candidate, candidate.is_canonical())"),
 ('fcb_drop_canonical', S, 'FAIL', "CtOption::new(candidate, high_bit_unset & candidate.is_canonical())", "CtOption::new(candidate, high_bit_unset)"),
 ('fcb_highbit_shift6', S, 'FAIL', "let high_bit_unset = (bytes[31] >> 7).ct_eq(&0);", "let high_bit_unset = (bytes[31] >> 6).ct_eq(&0);"),
 ('fcb_highbit_eq1', S, 'FAIL', "let high_bit_unset = (bytes[31] >> 7).ct_eq(&0);", "let high_bit_unset = (bytes[31] >> 7).ct_eq(&1);"),
 ('fcb_or', S, 'FAIL', "high_bit_unset & candidate.is_canonical()", "high_bit_unset | candidate.is_canonical()"),
 ('is_canonical_self', S, 'FAIL', "self.ct_eq(&self.reduce())", "self.ct_eq(self)"),
 ('fbmo_no_reduce', S, 'FAIL', "let s = s_unreduced.reduce();", "let s = s_unreduced;"),
 ('reduce_rr', S, 'FAIL', "let xR = UnpackedScalar::mul_internal(&x, &constants::R);", "let xR = UnpackedScalar::mul_internal(&x, &constants::RR);"),
 ('reduce_l', S, 'FAIL', "let xR = UnpackedScalar::mul_internal(&x, &constants::R);", "let xR = UnpackedScalar::mul_internal(&x, &constants::L);"),
 ('neg_swap', S, 'FAIL', "UnpackedScalar::sub(&UnpackedScalar::ZERO, &self_mod_l).pack()", "UnpackedScalar::sub(&self_mod_l, &UnpackedScalar::ZERO).pack()"),
 ('neg_rr', S, 'FAIL', "let self_R = UnpackedScalar::mul_internal(&self.unpack(), &constants::R);", "let self_R = UnpackedScalar::mul_internal(&self.unpack(), &constants::RR);"),
 ('neg_val_identity', S, 'FAIL', "    fn neg(self) -> Scalar {\n        -&self\n", "    fn neg(self) -> Scalar {\n        self\n"),
 ('add_uses_sub', S, 'FAIL', "UnpackedScalar::add(&self.unpack(), &_rhs.unpack()).pack()", "UnpackedScalar::sub(&self.unpack(), &_rhs.unpack()).pack()"),
 ('sub_swap', S, 'FAIL', "UnpackedScalar::sub(&self.unpack(), &rhs.unpack()).pack()", "UnpackedScalar::sub(&rhs.unpack(), &self.unpack()).pack()"),
 ('mul_assign_square', S, 'FAIL', "*self = UnpackedScalar::mul(&self.unpack(), &_rhs.unpack()).pack();", "*self = UnpackedScalar::mul(&self.unpack(), &self.unpack()).pack();"),
 ('mul_uses_montgomery_mul', S, 'FAIL', "        UnpackedScalar::mul(&self.unpack(), &_rhs.unpack()).pack()\n", "        UnpackedScalar::montgomery_mul(&self.unpack(), &_rhs.unpack()).pack()\n"),
 ('add_assign_sub', S, 'FAIL', "*self = *self + _rhs;", "*self = *self - _rhs;"),
 ('inv_count_2_to_3', S, 'FAIL', "square_multiply(&mut y,       2, &_11);", "square_multiply(&mut y,       3, &_11);"),
 ('inv_count_first', S, 'FAIL', "square_multiply(&mut y, 123 + 3, &_101);", "square_multiply(&mut y, 123 + 2, &_101);"),
 ('inv_operand', S, 'FAIL', "square_multiply(&mut y,   1 + 3, &_111);", "square_multiply(&mut y,   1 + 3, &_101);"),
 ('inv_last_operand', S, 'FAIL', "square_multiply(&mut y,   1 + 2, &_11);", "square_multiply(&mut y,   1 + 2, &_1);"),
 ('inv_101', S, 'FAIL', "let  _101 = UnpackedScalar::montgomery_mul(&_10,    &_11);", "let  _101 = UnpackedScalar::montgomery_mul(&_11,    &_11);"),
 ('sqmul_loop_from_1', S, 'FAIL', "for _ in 0..squarings {", "for _ in 1..squarings {"),
 ('sqmul_no_final_mul', S, 'FAIL', "            *y = UnpackedScalar::montgomery_mul(y, x);", "            *y = UnpackedScalar::montgomery_mul(y, y);"),
 ('invert_no_from_mont', S, 'FAIL', "self.as_montgomery().montgomery_invert().from_montgomery()", "self.as_montgomery().montgomery_invert()"),
 ('invert_no_as_mont', S, 'FAIL', "self.as_montgomery().montgomery_invert().from_montgomery()", "self.montgomery_invert().from_montgomery()"),
 ('macro_add_variant_sub', Mc, 'FAIL', "                &self + rhs\n", "                &self - rhs\n"),
 ('macro_mul_assign_noop', Mc, 'FAIL', "                *self *= &rhs;\n", "                *self += &rhs;\n"),
]
R = os.environ.get('SG_MREPO', '/tmp/sg/mrepo'); W = '/verif/.work/sg/mut'
os.makedirs(R + '/curve25519-dalek/src', exist_ok=True); os.makedirs(W, exist_ok=True)
tplsrc = open('/verif/contracts/sg.vx').read()
only = sys.argv[1:]
for name, which, expect, a, b in M:
    if only and name not in only: continue
    text = src if which == S else mac
    assert text.count(a) == 1, (name, text.count(a))
    for f in os.listdir('/repo/curve25519-dalek/src'):
        pass
    # fresh fake root: the two files the unit reads from src/, plus the backend files (unchanged)
    open(R + '/' + REL, 'w').write(src.replace(a, b) if which == S else src)
    open(R + '/' + MREL, 'w').write(mac.replace(a, b) if which == Mc else mac)
    for rel in ('curve25519-dalek/src/backend/serial/u64/scalar.rs', 'curve25519-dalek/src/backend/serial/u64/constants.rs'):
        os.makedirs(os.path.dirname(R + '/' + rel), exist_ok=True); shutil.copy('/repo/' + rel, R + '/' + rel)
    tpl = '/verif/contracts/sg.vx'
    if which == Mc:
        # the macro instances are generated offline: regenerate them from the mutated macros.rs into a scratch file, template otherwise unchanged
        g = subprocess.run(['python3', '/verif/tools/gen_sg_variants.py', R, W + '/' + name + '_variants.vx'], capture_output=True, text=True)
        if g.returncode: print('%-26s generator rejects the mutated macro (undecided): %s' % (name, (g.stdout + g.stderr).strip()[-160:])); continue
        t = tplsrc.replace('//@include lib/sg_macro_variants.vx', '//@include %s/%s_variants.vx' % (W, name)).replace('//@include lib/', '//@include /verif/contracts/lib/')
        tpl = W + '/' + name + '.vx'; open(tpl, 'w').write(t)
    out = W + '/%s.rs' % name
    r = subprocess.run(['/verif/vx/target/release/vx', R, tpl, out, out + '.json'], capture_output=True, text=True)
    if r.returncode != 0:
        print('%-26s expect %-16s vx exit %d (undecided): %s' % (name, expect, r.returncode, (r.stdout + r.stderr).strip()[-200:])); continue
    t0 = time.time()
    r = subprocess.run(['timeout', '900', 'verus', out, '--rlimit', os.environ.get('SG_RLIMIT', '100'), '--triggers-mode', 'silent', '--multiple-errors', '2'], capture_output=True, text=True)
    dt = time.time() - t0
    o = r.stdout + r.stderr
    res = [l for l in o.splitlines() if 'verification results' in l]
    errs = []
    lines = o.splitlines()
    for i, l in enumerate(lines):
        if l.startswith('error') and 'aborting' not in l:
            tag = ''
            for k in range(i + 1, min(i + 9, len(lines))):
                m = re.search(r'\[C\d+ [^\]]+\]', lines[k])
                if m: tag = m.group(0); break
                m2 = re.match(r'\s*\d+ \|\s*(.*)', lines[k])
                if m2 and not tag: tag = m2.group(1).strip()[:90]
            errs.append(l[:70] + ' :: ' + tag)
    ok = bool(res) and ' 0 errors' in res[0] and r.returncode == 0
    verdict = 'PASS' if ok else 'FAIL'
    print('%-26s expect %-16s got %-4s %6.1fs %s' % (name, expect, verdict, dt, res[0] if res else 'NO RESULT (timeout/rustc error)'))
    for e in errs[:5]: print('        ', e)
    if not res:
        for l in lines[:6]: print('        |', l[:160])
