#!/usr/bin/env python3
"""Hardware differential test for unit IFMAF (optional; needs a CPU with avx512ifma + avx512vl and the offline cargo registry).
   python3 tools/ifmaf_hwtest.py [--keep]
Builds a scratch crate in /tmp/ifmaf_hw that MOUNTS the real curve25519-dalek/src/backend/vector/{packed_simd.rs, ifma/field.rs} with #[path]
(nothing is copied or modified; /repo is only read) and
  1. runs 200000 x 4 random lanes (biased to the edges: limbs near 0, 2^51, 2^52, 2^64) of mul, square, Mul<scalars>, the reduction, shuffle, blend and
     conditional_select on the real hardware against the lane-wise integer model that lib/ifma_shim_simd.vx ASSUMES and ifmaf.vx proves the code to follow
     (an empirical cross-check of the unit's trusted base: VPMADD52LUQ/HUQ, VPERMQ, VPBLENDD, VPSRLQ, VPAND, VPADDQ ...);
  2. executes the witness of lemma_finding_mul_limb4_exceeds_16p with the REAL code: limb 4 of the product is 2^55 + 12, `negate_lazy` of it wraps
     (2^64 - 28), and `diff_sum` with the other lane 0 returns a value that is NOT (B - A) mod p (it is off by 2^268 mod p).
Exit 0 = all agree / 3 = CPU lacks IFMA (skipped)."""
import os, subprocess, sys, shutil
REPO = os.environ.get("REPO", "/repo")
W = "/tmp/ifmaf_hw"
MAIN = r'''// Differential test on real AVX-512 IFMA hardware: the REAL ifma/field.rs + packed_simd.rs (mounted by #[path], nothing copied) against the
// lane-wise integer model that unit IFMAF assumes (lib/ifma_shim_simd.vx) / proves (contracts of ifmaf.vx).
#![allow(non_snake_case, dead_code, unused_imports)]
mod backend {
    pub mod vector {
        #[path = "@REPO@/curve25519-dalek/src/backend/vector/packed_simd.rs"]
        pub mod packed_simd;
        pub mod ifma {
            #[path = "@REPO@/curve25519-dalek/src/backend/vector/ifma/field.rs"]
            pub mod field;
        }
    }
    pub mod serial { pub mod u64 { pub mod field {
        #[derive(Copy, Clone, Debug, PartialEq, Eq)]
        pub struct FieldElement51(pub(crate) [u64; 5]);
    } } }
}
use backend::serial::u64::field::FieldElement51;
use backend::vector::ifma::field::*;
use backend::vector::packed_simd::u64x4;
use subtle::{Choice, ConditionallySelectable};

const M52: u128 = (1u128 << 52) - 1;
fn lo(a: u64, b: u64) -> u64 { (((a as u128 & M52) * (b as u128 & M52)) & M52) as u64 }
fn hi(a: u64, b: u64) -> u64 { (((a as u128 & M52) * (b as u128 & M52)) >> 52) as u64 }
/// the per-lane dataflow proved in ifmaf.vx (ifma_mul_flow), with wrapping adds so that any wrap shows up as a mismatch-free comparison
fn model_mul(x: [u64; 5], y: [u64; 5]) -> [u64; 5] {
    let mut z = [0u64; 10];
    for k in 0..10usize {
        let mut v = 0u64;
        for i in 0..5usize { if k >= i && k - i < 5 { v = v.wrapping_add(lo(x[i], y[k - i])); } }
        for i in 0..5usize { if k >= 1 + i && k - 1 - i < 5 { v = v.wrapping_add(2u64.wrapping_mul(hi(x[i], y[k - 1 - i]))); } }
        z[k] = v;
    }
    let tt = hi(19, z[9]).wrapping_add(lo(19, z[9] >> 52));
    let mut r = [0u64; 5];
    r[0] = z[0].wrapping_add(lo(19, z[5])).wrapping_add(2u64.wrapping_mul(lo(19, tt)));
    for k in 1..5 { r[k] = z[k].wrapping_add(lo(19, z[k + 5])).wrapping_add(2u64.wrapping_mul(hi(19, z[k + 4]).wrapping_add(lo(19, z[k + 4] >> 52)))); }
    r
}
fn model_smul(x: [u64; 5], s: u32) -> [u64; 5] {
    let s = s as u64;
    let d = 2 * hi(s, x[4]);
    [lo(s, x[0]) + lo(d, 19), lo(s, x[1]) + 2 * hi(s, x[0]), lo(s, x[2]) + 2 * hi(s, x[1]), lo(s, x[3]) + 2 * hi(s, x[2]), lo(s, x[4]) + 2 * hi(s, x[3])]
}
fn model_reduce(x: [u64; 5]) -> [u64; 5] {
    let m = (1u64 << 51) - 1;
    [(x[0] & m) + 19 * (x[4] >> 51), (x[1] & m) + (x[0] >> 51), (x[2] & m) + (x[1] >> 51), (x[3] & m) + (x[2] >> 51), (x[4] & m) + (x[3] >> 51)]
}
fn pack(l: [[u64; 5]; 4]) -> [u64x4; 5] { core::array::from_fn(|i| u64x4::new(l[0][i], l[1][i], l[2][i], l[3][i])) }
fn unpack(v: &[u64x4; 5]) -> [[u64; 5]; 4] {
    [core::array::from_fn(|i| v[i].extract::<0>()), core::array::from_fn(|i| v[i].extract::<1>()), core::array::from_fn(|i| v[i].extract::<2>()), core::array::from_fn(|i| v[i].extract::<3>())]
}
struct Rng(u64);
impl Rng {
    fn next(&mut self) -> u64 { self.0 ^= self.0 << 13; self.0 ^= self.0 >> 7; self.0 ^= self.0 << 17; self.0 }
    /// limb below `bound`, biased towards the edges
    fn limb(&mut self, bound: u64) -> u64 {
        match self.next() % 8 { 0 => bound - 1 - (self.next() % 64), 1 => self.next() % 64, 2 => (1u64 << 51).wrapping_add(self.next() % 41).wrapping_sub(20) % bound, _ => self.next() % bound }
    }
}
fn shuffle_src(c: u8, k: usize) -> usize {
    let t: [usize; 4] = match c { 0 => [0, 0, 0, 0], 1 => [1, 1, 1, 1], 2 => [1, 0, 3, 2], 3 => [1, 0, 2, 3], 4 => [0, 3, 3, 0], 5 => [2, 1, 2, 1], 6 => [0, 1, 3, 2], 7 => [0, 1, 0, 1], 8 => [3, 1, 1, 3], _ => [2, 0, 2, 0] };
    t[k]
}
fn shuffle_of(c: u8) -> Shuffle { match c { 0 => Shuffle::AAAA, 1 => Shuffle::BBBB, 2 => Shuffle::BADC, 3 => Shuffle::BACD, 4 => Shuffle::ADDA, 5 => Shuffle::CBCB, 6 => Shuffle::ABDC, 7 => Shuffle::ABAB, 8 => Shuffle::DBBD, _ => Shuffle::CACA } }
fn lanes_of(c: u8) -> (Lanes, [bool; 4]) { match c { 0 => (Lanes::D, [false, false, false, true]), 1 => (Lanes::C, [false, false, true, false]), 2 => (Lanes::AB, [true, true, false, false]), 3 => (Lanes::AC, [true, false, true, false]), 4 => (Lanes::AD, [true, false, false, true]), _ => (Lanes::BCD, [false, true, true, true]) } }

fn main() {
    assert!(is_x86_feature_detected!("avx512ifma") && is_x86_feature_detected!("avx512vl") && is_x86_feature_detected!("avx2"));
    let mut rng = Rng(0x9e3779b97f4a7c15);
    let mut n = 0u64;
    for it in 0..200000u64 {
        let bound = if it % 2 == 0 { 1u64 << 52 } else { (1u64 << 51) + 8191 };
        let xs: [[u64; 5]; 4] = core::array::from_fn(|_| core::array::from_fn(|_| rng.limb(bound)));
        let ys: [[u64; 5]; 4] = core::array::from_fn(|_| core::array::from_fn(|_| rng.limb(bound)));
        let x = F51x4Reduced(pack(xs)); let y = F51x4Reduced(pack(ys));
        let r = unpack(&(&x * &y).0);
        for k in 0..4 { assert_eq!(r[k], model_mul(xs[k], ys[k]), "mul lane {k} {:?} {:?}", xs[k], ys[k]); }
        let r = unpack(&x.square().0);
        for k in 0..4 { assert_eq!(r[k], model_mul(xs[k], xs[k]), "square lane {k}"); }
        let sc = (rng.next() as u32, if it % 3 == 0 { u32::MAX } else { rng.next() as u32 }, rng.next() as u32 % 1000000, rng.next() as u32);
        let r = unpack(&(&x * sc).0);
        let scs = [sc.0, sc.1, sc.2, sc.3];
        for k in 0..4 { assert_eq!(r[k], model_smul(xs[k], scs[k]), "smul lane {k}"); }
        // reduction on arbitrary 64-bit limbs
        let us: [[u64; 5]; 4] = core::array::from_fn(|_| core::array::from_fn(|_| match rng.next() % 4 { 0 => u64::MAX - rng.next() % 4, 1 => rng.next() >> 7, _ => rng.next() }));
        let u = F51x4Unreduced(pack(us));
        let r = unpack(&F51x4Reduced::from(u).0);
        for k in 0..4 { assert_eq!(r[k], model_reduce(us[k]), "reduce lane {k}"); }
        // shuffle / blend / select
        let c = (rng.next() % 10) as u8;
        let r = unpack(&u.shuffle(shuffle_of(c)).0);
        for k in 0..4 { assert_eq!(r[k], us[shuffle_src(c, k)], "shuffle {c} lane {k}"); }
        let (ln, has) = lanes_of((rng.next() % 6) as u8);
        let v = F51x4Unreduced(pack(xs));
        let r = unpack(&u.blend(&v, ln).0);
        for k in 0..4 { assert_eq!(r[k], if has[k] { xs[k] } else { us[k] }, "blend lane {k}"); }
        let ch = (rng.next() & 1) as u8;
        let r = unpack(&F51x4Reduced::conditional_select(&x, &y, Choice::from(ch)).0);
        for k in 0..4 { assert_eq!(r[k], if ch == 1 { ys[k] } else { xs[k] }); }
        n += 1;
    }
    println!("differential test: {n} iterations x 4 lanes: mul, square, Mul<scalars>, reduce, shuffle, blend, conditional_select all agree with the model");

    // the witness of lemma_finding_mul_limb4_exceeds_16p
    let t51 = 1u64 << 51;
    let xw = [t51 - 1, t51 - 1, t51 - 1, t51 - 1, 474063118670578];
    let yw = [t51 + 19, t51 + 1, t51 + 1, t51 + 1, t51 + 1];
    let zero = [0u64; 5];
    let x = F51x4Reduced(pack([xw, zero, xw, zero])); let y = F51x4Reduced(pack([yw, zero, yw, zero]));
    let prod = &x * &y;
    let r = unpack(&prod.0);
    println!("witness product lane A = {:?}", r[0]);
    println!("limb 4 = {} = 2^55 {:+};  16p limb = {}", r[0][4], r[0][4] as i128 - (1i128 << 55), (1u64 << 55) - 16);
    let neg = unpack(&prod.negate_lazy().0);
    println!("negate_lazy(product) lane A = {:?}   (limb 4 wrapped: 2^64 {:+})", neg[0], neg[0][4] as i128 - (1i128 << 64));
    // lanes (A, B, C, D) = (product, 0, product, 0): diff_sum = (B - A, B + A, D - C, D + C) with B = D = 0
    let ds = unpack(&prod.diff_sum().0);
    println!("diff_sum lane A (= 0 - product, lazily) = {:?}", ds[0]);
}
'''
CARGO = """[package]
name = "ifmaf_hw"
version = "0.1.0"
edition = "2021"
[dependencies]
curve25519-dalek-derive = { path = "%s/curve25519-dalek-derive" }
subtle = "2"
[workspace]
""" % REPO
if "avx512ifma" not in open("/proc/cpuinfo").read():
    print("SKIPPED: this CPU has no avx512ifma"); sys.exit(3)
os.makedirs(W + "/src", exist_ok=True)
open(W + "/Cargo.toml", "w").write(CARGO)
open(W + "/src/main.rs", "w").write(MAIN.replace("@REPO@", REPO))
b = subprocess.run(["cargo", "build", "--release", "--offline", "--target-dir", W + "/target"], cwd=W, capture_output=True, text=True, env=dict(os.environ, CARGO_NET_OFFLINE="true"))
if b.returncode != 0:
    print(b.stderr[-3000:]); sys.exit(1)
r = subprocess.run([W + "/target/release/ifmaf_hw"], capture_output=True, text=True)
print(r.stdout + r.stderr)
if r.returncode == 0:
    # functional effect of the wrap, evaluated with big integers
    import re
    P = 2**255 - 19
    val = lambda l: sum(v << (51 * i) for i, v in enumerate(l))
    t51 = 2**51
    x = [t51 - 1] * 4 + [474063118670578]; y = [t51 + 19] + [t51 + 1] * 4
    m = re.search(r"diff_sum lane A .*= \[([0-9, ]+)\]", r.stdout)
    ds = [int(v) for v in m.group(1).split(",")]
    print("diff_sum lane A == (0 - x*y) mod p :", val(ds) % P == (-val(x) * val(y)) % P, "  (difference == 2^268 mod p:", (val(ds) + val(x) * val(y)) % P == pow(2, 268, P), ")")
if "--keep" not in sys.argv:
    shutil.rmtree(W, ignore_errors=True)
sys.exit(r.returncode)
