#!/usr/bin/env python3
"""Sanity test (NOT part of the trusted base: unit AVX2E adds NO axiom) of the value-level statements of contracts/lib/avx2e_algebra.vx, which Verus
PROVES from M1 + the two M3 axioms: lemma_ext_to_cached, lemma_cached_as_pniels, lemma_cached_neg, lemma_avx2e_add, lemma_avx2e_double,
lemma_cached_identity, lemma_avx2e_consts. Purpose: show that the HYPOTHESES are satisfiable on real data (random curve points with random projective
scalings, the 8 torsion points, P + (-P), P + P) and that the view definitions of lib/avx2e_spec.vx (cached_vals_affine / cached_vals_ok) are the lane model
of unit CONSTV (tools/gen_constv_unit.py: cached_pt / cached_ok). Spec functions transliterated 1:1. Exit 0 = all checks passed."""
import random, sys
p = 2**255 - 19
ED_D = (-121665 * pow(121666, p - 2, p)) % p
ED_D2 = (2 * ED_D) % p
def fadd(a, b): return (a + b) % p
def fsub(a, b): return (a - b) % p
def fneg(a): return (0 - a) % p
def fmul(a, b): return (a * b) % p
def fsq(a): return (a * a) % p
def finv(x): return pow(x, p - 2, p)
def fdiv(a, b): return fmul(a, finv(b))
def on_curve(a):
    x, y = a
    return 0 <= x < p and 0 <= y < p and fsub(fsq(y), fsq(x)) == fadd(1, fmul(ED_D, fmul(fsq(x), fsq(y))))
def ed_add(a, b):
    (x1, y1), (x2, y2) = a, b
    t = fmul(ED_D, fmul(fmul(x1, x2), fmul(y1, y2)))
    return (fdiv(fadd(fmul(x1, y2), fmul(y1, x2)), fadd(1, t)), fdiv(fadd(fmul(y1, y2), fmul(x1, x2)), fsub(1, t)))
def ed_neg(a): return (fneg(a[0]), a[1])
def aff2(x, y, z): return (fdiv(x, z), fdiv(y, z))
def ext_vals_valid(x, y, z, t): return z != 0 and on_curve(aff2(x, y, z)) and fmul(x, y) == fmul(z, t)
def pniels_vals_affine(a, b, z): return (fdiv(fsub(a, b), fmul(2, z)), fdiv(fadd(a, b), fmul(2, z)))
def pniels_vals_valid(a, b, z, c):
    q = pniels_vals_affine(a, b, z)
    return z != 0 and on_curve(q) and c == fmul(fmul(ED_D2, fmul(q[0], q[1])), z)
# lib/avx2e_spec.vx
def cached_vals_affine(a, b, c): return (fdiv(fsub(b, a), c), fdiv(fadd(a, b), c))
def cached_vals_ok(a, b, c, d): return c != 0 and fmul(d, c) == fmul(fmul(ED_D, fsub(b, a)), fadd(b, a))
def cached_vals_valid(a, b, c, d): return cached_vals_ok(a, b, c, d) and on_curve(cached_vals_affine(a, b, c))
# lib/avx2e_algebra.vx
def to_cached(x, y, z, t): return (fmul(fsub(y, x), 121666), fmul(fadd(y, x), 121666), fmul(z, 243332), fneg(fmul(t, 243330)))
def add_tree(x1, y1, z1, t1, a, b, c, d):
    s0, s1 = fsub(y1, x1), fadd(y1, x1)
    s8, s9, s10, s11 = fmul(s0, a), fmul(s1, b), fmul(z1, c), fmul(t1, d)
    s12, s13, s14, s15 = fsub(s9, s8), fadd(s9, s8), fsub(s10, s11), fadd(s10, s11)
    return (fmul(s12, s14), fmul(s15, s13), fmul(s15, s14), fmul(s12, s13))
def double_lanes(x, y, z, junk):
    i1, i2, i3, i4 = fsq(x) + junk[0] * p, fsq(y) + junk[1] * p, fsq(z) + junk[2] * p, fneg(fsq(fadd(x, y))) + junk[3] * p
    s5, s6, s8, s9 = (i1 + i2) % p, (i1 + (2 * p - i2)) % p, (2 * i3 + i1 + (2 * p - i2)) % p, (i4 + i1 + i2) % p
    return (fmul(s8, s9), fmul(s5, s6), fmul(s8, s6), fmul(s5, s9))

def sqrt(a):
    r = pow(a, (p + 3) // 8, p)
    if fsq(r) != a % p: r = fmul(r, pow(2, (p - 1) // 4, p))
    return r if fsq(r) == a % p else None
def rand_point(rng):
    while True:
        y = rng.randrange(p)
        x = sqrt(fdiv(fsub(fsq(y), 1), fadd(fmul(ED_D, fsq(y)), 1)))
        if x is not None:
            return (x if rng.random() < .5 else fneg(x), y)
def ext(pt, rng):
    z = rng.randrange(1, p)
    return (fmul(pt[0], z), fmul(pt[1], z), z, fmul(fmul(pt[0], pt[1]), z))

def main():
    rng = random.Random(20261004)
    assert fmul(ED_D, 243332) == p - 243330 and fmul(fmul(243332, 243332), ED_D) == fneg(fmul(243330, 243332))      # lemma_avx2e_consts
    assert cached_vals_valid(121666, 121666, 243332, 0) and cached_vals_affine(121666, 121666, 243332) == (0, 1)     # lemma_cached_identity
    sm1 = pow(2, (p - 1) // 4, p)
    tors = [(0, 1), (0, p - 1), (sm1, 0), (fneg(sm1), 0)]
    pts = tors + [rand_point(rng) for _ in range(120)]
    assert all(on_curve(q) for q in pts)
    n = 0
    for P in pts:
        for Q in [P, ed_neg(P)] + tors + [rng.choice(pts) for _ in range(3)]:
            X1 = ext(P, rng); X2 = ext(Q, rng)
            assert ext_vals_valid(*X1) and ext_vals_valid(*X2)
            C = to_cached(*X2)
            assert cached_vals_valid(*C) and cached_vals_affine(*C[:3]) == Q                                            # lemma_ext_to_cached
            h = fdiv(C[2], 2)
            assert fmul(2, h) == C[2] and pniels_vals_valid(C[1], C[0], h, C[3]) and pniels_vals_affine(C[1], C[0], h) == Q     # lemma_cached_as_pniels
            N = (C[1], C[0], C[2], fneg(C[3]))
            assert cached_vals_valid(*N) and cached_vals_affine(*N[:3]) == ed_neg(Q)                                     # lemma_cached_neg
            R = add_tree(*X1, *C)
            assert ext_vals_valid(*R) and aff2(*R[:3]) == ed_add(P, Q)                                                   # lemma_avx2e_add
            S = add_tree(*X1, *N)
            assert ext_vals_valid(*S) and aff2(*S[:3]) == ed_add(P, ed_neg(Q))                                           # Sub = add of the negation
            D = double_lanes(*X1[:3], [rng.randrange(0, 3) for _ in range(4)])
            assert ext_vals_valid(*D) and aff2(*D[:3]) == ed_add(P, P)                                                   # lemma_avx2e_double
            n += 1
    # teeth: mutated formulas must be rejected on some instance
    P, Q = pts[10], pts[11]; X1 = ext(P, rng); X2 = ext(Q, rng)
    bad = (fmul(fsub(X2[1], X2[0]), 121665),) + to_cached(*X2)[1:]
    assert not cached_vals_valid(*bad)
    bad2 = to_cached(*X2)[:3] + (fmul(X2[3], 243330),)
    assert not cached_vals_ok(*bad2)
    print("test_avx2e_algebra: OK (%d instance pairs)" % n)

if __name__ == "__main__":
    main()
