#!/usr/bin/env python3
"""smnt_same_contract.py [--root /verif] [-v]

Pre-generation check of unit SMNT (contracts/smnt.vx: the cfg variants compiled WITHOUT cargo feature "precomputed-tables").
Property C05 ("the table feature is unobservable") is the statement that the tables-off and the tables-on variant of a function satisfy
ONE contract. This script makes "one contract" a checked fact about the templates:

 (1) every VERIFIED block of contracts/smnt.vx (`//@item <file> :: [mod m ::] fn f` / `//@impl <file> :: <sel>` + `//@fn f`, without
     `//@ external_body`) is paired with its TWIN: the verified block with the same (file, selector, fn) key in a template whose `//@cfg`
     line contains feature="precomputed-tables" (sm.vx, sm2.vx, vsm.vx, ... — all templates are searched, includes expanded).
     The `requires` / `ensures` text of both (the `//@|` lines after `//@ spec`) is normalised (comments incl. tags removed, whitespace
     canonicalised, split into clauses at top-level commas) and compared clause by clause:  IDENTICAL / DIFFERENT / NO-TWIN.
     The functions listed in EXPECT_TWIN must have a twin (a silently missing twin would make the check vacuous).
 (2) every STUB block of the unit (same block forms WITH `//@ external_body`, incl. the libs it includes) is paired with the verified
     block of the same key in another template (its PROVIDER):  IDENTICAL / SUBSET (stub ensures subset of proved ensures, proved
     requires subset of stub requires) / DIFFERENT / NO-PROVIDER. For operator impls the `requires` lives in the hand-written
     `impl vstd::std_specs::ops::<Op>SpecImpl<Rhs> for Lhs { open spec fn <op>_req(..) -> bool { E } }`: E is compared as well.
 (3) the unit's `//@cfg` must NOT contain feature="precomputed-tables"; every twin's `//@cfg` must contain it.

Exit status: 1 if anything is DIFFERENT, an expected twin is missing, or (3) fails; 0 otherwise. NO-TWIN / NO-PROVIDER are reported, not fatal
(hand-written Verus stubs — exec consts, dependency models — are covered by tools/compare_stubs.py, not here)."""
import glob, os, re, sys

ROOT = "/verif"
UNIT = "smnt.vx"
FEATURE = 'feature="precomputed-tables"'
# (file suffix, selector, fn) of the SMNT functions that MUST have a tables-on twin
EXPECT_TWIN = [
    ("backend/serial/scalar_mul/vartime_double_base.rs", "", "mul"),
    ("backend/vector/scalar_mul/vartime_double_base.rs", "mod spec", "mul"),
    ("src/edwards.rs", "EdwardsPoint", "mul_base"),
    ("src/edwards.rs", "EdwardsPoint", "mul_base_clamped"),
]


def expand(path, depth=0):
    """textual //@include expansion, as vx does it ($VX_GEN/ falls back to lib/)"""
    if depth > 8:
        raise SystemExit("include depth")
    out = []
    d = os.path.dirname(path)
    for l in open(path).read().split("\n"):
        s = l.strip()
        if s.startswith("//@include "):
            r = s[len("//@include "):].strip()
            if r.startswith("$VX_GEN/"):
                r = "lib/" + r[len("$VX_GEN/"):]
            p = r if r.startswith("/") else os.path.join(d if depth == 0 else os.path.join(ROOT, "contracts"), r)
            if not os.path.exists(p):
                p = os.path.join(ROOT, "contracts", r)
            if os.path.exists(p):
                out += expand(p, depth + 1)
            else:
                out.append(("// (include not found: %s)" % r, path))
        else:
            out.append((l, path))
    return out


def norm_sel(s):
    s = re.sub(r"'[a-z_]+\s*,?\s*", "", s)       # lifetimes
    s = re.sub(r"<\s*>", "", s)
    return re.sub(r"\s+", "", s)


def strip_comment(l):
    i = l.find("//")
    return l if i < 0 else l[:i]


def split_top(s):
    out, cur, d, bars = [], [], 0, False
    i = 0
    while i < len(s):
        c = s[i]
        if c == "|" and not (s[i:i + 2] == "||" or (i > 0 and s[i - 1] == "|")):
            prev = "".join(cur).rstrip()
            if bars:
                bars = False
            elif re.search(r"(forall|exists|choose)$", prev):
                bars = True
        if not bars:
            if c in "([{":
                d += 1
            elif c in ")]}":
                d -= 1
            elif c == "," and d == 0:
                out.append("".join(cur))
                cur = []
                i += 1
                continue
        cur.append(c)
        i += 1
    out.append("".join(cur))
    return [re.sub(r"\s+", " ", x).strip() for x in out if x.strip()]


def parse_spec(lines):
    text = "\n".join(strip_comment(l) for l in lines)
    parts = re.split(r"\b(requires|ensures|decreases|recommends)\b", text)
    req, ens, cur = [], [], None
    for p in parts:
        if p in ("requires", "ensures", "decreases", "recommends"):
            cur = p
        elif cur == "requires":
            req += split_top(p)
        elif cur == "ensures":
            ens += split_top(p)
    return req, ens


class Block:
    def __init__(self, tpl, file, sel, fn, nth, origin=""):
        self.tpl, self.file, self.sel, self.fn, self.nth, self.origin = tpl, file, sel, fn, nth, os.path.basename(origin)
        self.stub = False
        self.spec_lines = []
        self.req, self.ens = [], []

    def key(self):
        return (self.file, norm_sel(self.sel), self.fn, self.nth)

    def name(self):
        return "%s :: %s%s" % (self.file.replace("curve25519-dalek/src/", ""), (self.sel + " :: ") if self.sel else "", self.fn)


def parse_template(path):
    pairs = expand(path)
    lines = [x[0] for x in pairs]
    cfg = " ".join(l.strip()[len("//@cfg"):].strip() for l in lines if l.strip().startswith("//@cfg"))
    blocks, opreq = [], {}
    cur_impl = None      # (file, selector)
    blk = None
    in_spec = False
    for l, origin in pairs:
        s = l.strip()
        if s.startswith("//@impl "):
            # file :: selector   (the selector may itself contain `::`, e.g. `From<&edwards::EdwardsPoint> for ..`)
            m = re.match(r"(\S+)\s*::\s*(.*)$", s[len("//@impl "):])
            cur_impl = (m.group(1), m.group(2).strip())
            continue
        if s.startswith("//@endimpl"):
            cur_impl = None
            continue
        if s.startswith("//@item ") and re.search(r"::\s*fn\s+\w+", s):
            m = re.match(r"(\S+)\s*::\s*(.*?)\s*fn\s+(\w+)(?:\s+#(\d+))?", s[len("//@item "):])
            modpath = m.group(2).strip().rstrip(":").strip()
            blk = Block(os.path.basename(path), m.group(1), modpath, m.group(3), m.group(4) or "1", origin)
            in_spec = False
            continue
        if s.startswith("//@fn ") and cur_impl:
            m = re.match(r"(\w+)(?:\s+#(\d+))?", s[len("//@fn "):])
            blk = Block(os.path.basename(path), cur_impl[0], cur_impl[1], m.group(1), m.group(2) or "1", origin)
            in_spec = False
            continue
        if s.startswith("//@endfn"):
            if blk:
                blk.req, blk.ens = parse_spec(blk.spec_lines)
                blocks.append(blk)
            blk = None
            continue
        if blk is not None:
            if s.startswith("//@|"):
                if in_spec:
                    blk.spec_lines.append(s[4:])
            elif s.startswith("//@ "):
                d = s[4:].strip()
                in_spec = d == "spec"
                if d == "external_body":
                    blk.stub = True
    # hand-written operator preconditions: impl<..> vstd::std_specs::ops::MulSpecImpl<Rhs> for Lhs { .. open spec fn mul_req(..) -> bool { E } .. }
    text = "\n".join(lines)
    for m in re.finditer(r"impl(?:<[^>]*>)?\s+vstd::std_specs::ops::(\w+)SpecImpl<(.+?)>\s+for\s+([^{]+?)\s*\{(.*?)\n\}", text, re.S):
        op, rhs, lhs, body = m.group(1), m.group(2), m.group(3), m.group(4)
        r = re.search(r"open spec fn \w+_req\([^)]*\)\s*->\s*bool\s*\{", body)
        if r:
            i, d = r.end(), 1
            while i < len(body) and d:
                d += (body[i] == "{") - (body[i] == "}")
                i += 1
            e = re.sub(r"\s+", " ", "\n".join(strip_comment(x) for x in body[r.end():i - 1].split("\n"))).strip()
            opreq[(op, norm_sel(rhs), norm_sel(lhs))] = sorted(x.strip() for x in e.split("&&"))
    return cfg, blocks, opreq


def op_key(sel):
    m = re.match(r"(\w+)<(.+)>\s+for\s+(.+)$", sel.strip())
    if not m or m.group(1) not in ("Add", "Sub", "Mul", "Neg", "AddAssign", "SubAssign", "MulAssign"):
        return None
    return (m.group(1), norm_sel(m.group(2)), norm_sel(m.group(3)))


def show(kind_pairs, other):
    for kind, x, y in kind_pairs:
        for c in x:
            print("      %s %s %s" % ("=" if c in y else "+", kind, c))
        for c in y:
            if c not in x:
                print("      - %s %s   (only in %s)" % (kind, c, other))


def main():
    global ROOT
    args = sys.argv[1:]
    verbose = "-v" in args
    if "--root" in args:
        ROOT = args[args.index("--root") + 1]
    cdir = os.path.join(ROOT, "contracts")
    ucfg, ublocks, uopreq = parse_template(os.path.join(cdir, UNIT))
    others = {}
    for p in sorted(glob.glob(os.path.join(cdir, "*.vx"))):
        if os.path.basename(p) != UNIT:
            others[os.path.basename(p)] = parse_template(p)
    bad = 0
    has_feature = lambda cfg: FEATURE.replace(" ", "") in cfg.replace(" ", "")
    print("SMNT cfg: %s" % ucfg)
    if has_feature(ucfg):
        print("DIFFERENT  the unit's //@cfg contains %s" % FEATURE)
        bad += 1
    # ---- (1) verified functions vs tables-on twins
    print("== verified functions of SMNT vs their tables-on twins (verified blocks with the same key under a //@cfg with %s)" % FEATURE)
    for e in EXPECT_TWIN:
        if not any(b.file.endswith(e[0]) and norm_sel(b.sel) == norm_sel(e[1]) and b.fn == e[2] for b in ublocks if not b.stub):
            print("DIFFERENT  expected verified block %s :: %s :: %s is missing from %s" % (e[0], e[1], e[2], UNIT))
            bad += 1
    for b in [x for x in ublocks if not x.stub]:
        twins = [t for tn, (cfg, blocks, _) in others.items() if has_feature(cfg) for t in blocks if not t.stub and t.key() == b.key()]
        exp = [e for e in EXPECT_TWIN if b.file.endswith(e[0]) and norm_sel(b.sel) == norm_sel(e[1]) and b.fn == e[2]]
        if not twins:
            if exp:
                print("DIFFERENT  %-70s expected tables-on twin NOT FOUND" % b.name())
                bad += 1
            else:
                print("NO-TWIN    %-70s (no verified block with this key in a tables-on template)" % b.name())
            continue
        same = [t for t in twins if b.req == t.req and b.ens == t.ens]
        diff = [t for t in twins if t not in same]
        if same:
            # one contract for both variants; a further unit that verifies the same function against ANOTHER formulation is only listed
            print("IDENTICAL  %-70s twin in %s" % (b.name(), ", ".join(t.tpl for t in same)))
            if verbose:
                show((("requires", b.req, same[0].req), ("ensures", b.ens, same[0].ens)), same[0].tpl)
            for t in diff:
                print("   (note)  %-70s also verified in %s against another formulation" % ("", t.tpl))
        else:
            for t in diff:
                print("DIFFERENT  %-70s twin in %s" % (b.name(), t.tpl))
                show((("requires", b.req, t.req), ("ensures", b.ens, t.ens)), t.tpl)
            bad += 1
    # ---- (2) stubs of this unit's own files vs providers
    print("== stubs written in smnt.vx / lib/smnt_*.vx (template blocks with `//@ external_body`) vs the blocks that prove them")
    for b in [x for x in ublocks if x.stub]:
        if not (b.origin == UNIT or b.origin.startswith("smnt_")):
            if verbose:
                print("   (skip)  %-70s stub of shared lib %s (owned by another unit)" % (b.name(), b.origin))
            continue
        res = []
        for tn, (cfg, blocks, opreq) in others.items():
            for t in blocks:
                if t.stub or t.key() != b.key():
                    continue
                breq, treq = list(b.req), list(t.req)
                k = op_key(b.sel)
                if k:
                    breq += ["[%s_req] %s" % (k[0].lower(), c) for c in uopreq.get(k, ["<no SpecImpl in SMNT>"])]
                    treq += ["[%s_req] %s" % (k[0].lower(), c) for c in opreq.get(k, ["<no SpecImpl in provider>"])]
                if sorted(breq) == sorted(treq) and sorted(b.ens) == sorted(t.ens):
                    v = "IDENTICAL"
                elif all(c in t.ens for c in b.ens) and all(c in breq for c in treq):
                    v = "SUBSET"
                else:
                    v = "DIFFERENT"
                res.append((v, t, breq, treq))
        if not res:
            print("NO-PROVIDER %-69s" % b.name())
            continue
        good = [r for r in res if r[0] != "DIFFERENT"]
        if good:
            for v, t, breq, treq in good:
                print("%-10s %-70s proved in %s" % (v, b.name(), t.tpl))
                if verbose:
                    show((("requires", breq, treq), ("ensures", b.ens, t.ens)), t.tpl)
            for v, t, breq, treq in res:
                if v == "DIFFERENT":
                    print("   (note)  %-70s also verified in %s against another formulation" % ("", t.tpl))
        else:
            for v, t, breq, treq in res:
                print("DIFFERENT  %-70s proved in %s" % (b.name(), t.tpl))
                show((("requires", breq, treq), ("ensures", b.ens, t.ens)), t.tpl)
            bad += 1
    print("RESULT: %s" % ("DIFFERENT (%d)" % bad if bad else "all paired contracts IDENTICAL"))
    sys.exit(1 if bad else 0)


if __name__ == "__main__":
    main()
