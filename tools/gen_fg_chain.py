#!/usr/bin/env python3
"""Emits the directive blocks (ghost exponent hints) for FieldElement::{pow22501, invert, pow_p58} into contracts/lib/../fg_chain.inc.
The hints are *checked* by Verus; the generator only saves typing the numerals."""
import os
def lit(n): return ("%d" % n) if n < 2**63 else '(spec_literal_int("%d") as nat)' % n
P=2**255-19
# (name, kind, args) in source order of pow22501
chain=[("t0","sq","self"),("t1","sq2","t0"),("t2","mul",("self","t1")),("t3","mul",("t0","t2")),("t4","sq","t3"),
 ("t5","mul",("t2","t4")),("t6","pow2k",("t5",5)),("t7","mul",("t6","t5")),("t8","pow2k",("t7",10)),("t9","mul",("t8","t7")),
 ("t10","pow2k",("t9",20)),("t11","mul",("t10","t9")),("t12","pow2k",("t11",10)),("t13","mul",("t12","t7")),
 ("t14","pow2k",("t13",50)),("t15","mul",("t14","t13")),("t16","pow2k",("t15",100)),("t17","mul",("t16","t15")),
 ("t18","pow2k",("t17",50)),("t19","mul",("t18","t13"))]
e={"self":1}
out=[]
w=out.append
w("//@ before let t0 =")
w("//@|        let ghost x = fe(*self);")
w("//@|        proof { lemma_fpow_1_reduced(x); }")
for (n,k,a) in chain:
    w("//@ after let %s =" % n)
    if k=="sq":
        e[n]=2*e[a]; w("//@|        proof { lemma_sq_step(x, %s); assert(fe(%s) == fpow(x, %s)); }   // [C01 FG.pow22501.chain]"%(lit(e[a]),n,lit(e[n])))
    elif k=="sq2":
        e[n]=4*e[a]; w("//@|        proof { lemma_sq_step(x, %s); lemma_sq_step(x, %s); assert(fe(%s) == fpow(x, %s)); }"%(lit(e[a]),lit(2*e[a]),n,lit(e[n])))
    elif k=="mul":
        e[n]=e[a[0]]+e[a[1]]; w("//@|        proof { lemma_mul_step(x, %s, %s); assert(fe(%s) == fpow(x, %s)); }"%(lit(e[a[0]]),lit(e[a[1]]),n,lit(e[n])))
    elif k=="pow2k":
        e[n]=e[a[0]]*2**a[1]
        w("//@|        proof { assert(%s == %s * pow2(%d)) by (compute); lemma_pow2k_chain(x, %s, %d, %s); assert(fe(%s) == fpow(x, %s)); }"%(lit(e[n]),lit(e[a[0]]),a[1],lit(e[a[0]]),a[1],lit(e[n]),n,lit(e[n])))
assert e["t19"]==2**250-1 and e["t3"]==11
d=os.path.join(os.path.dirname(os.path.abspath(__file__)),"..","contracts")
open(os.path.join(d,"fg_pow22501.inc"),"w").write("\n".join(out)+"\n")
# invert: t20 = t19.pow2k(5); t21 = t20*t3
inv=[]
w=inv.append
w("//@ before let (t19, t3)")
w("//@|        let ghost x = fe(*self);")
e20=(2**250-1)*32; e21=e20+11
assert e21==P-2
w("//@ after let t20 =")
w("//@|        proof { assert(%s == %s * pow2(5)) by (compute); lemma_pow2k_chain(x, %s, 5, %s); assert(fe(t20) == fpow(x, %s)); }"%(lit(e20),lit(2**250-1),lit(2**250-1),lit(e20),lit(e20)))
w("//@ after let t21 =")
w("//@|        proof { lemma_mul_step(x, %s, 11); assert(fe(t21) == fpow(x, %s)); }"%(lit(e20),lit(e21)))
open(os.path.join(d,"fg_invert.inc"),"w").write("\n".join(inv)+"\n")
p58=[]
w=p58.append
w("//@ before let (t19, _)")
w("//@|        let ghost x = fe(*self);")
w("//@|        proof { lemma_fpow_1_reduced(x); }")
f20=(2**250-1)*4; f21=f20+1
assert f21==(P-5)//8
w("//@ after let t20 =")
w("//@|        proof { assert(%s == %s * pow2(2)) by (compute); lemma_pow2k_chain(x, %s, 2, %s); assert(fe(t20) == fpow(x, %s)); }"%(lit(f20),lit(2**250-1),lit(2**250-1),lit(f20),lit(f20)))
w("//@ after let t21 =")
w("//@|        proof { lemma_mul_step(x, 1, %s); assert(fe(t21) == fpow(x, %s)); }"%(lit(f20),lit(f21)))
open(os.path.join(d,"fg_pow_p58.inc"),"w").write("\n".join(p58)+"\n")
print("E250m1",lit(2**250-1)); print("Pm2",lit(P-2)); print("P58",lit((P-5)//8))
