#!/usr/bin/env python3
"""mutation checks for units FF64 / FF32: mutate the REAL wrapper source (copy under /tmp/ff/mrepo<bits>), re-extract with vx, run verus.
usage: tools/ff_mutate.py 64|32 [mutant names...]"""
import os, subprocess, sys, time, re
bits = sys.argv[1]
REL = 'curve25519-dalek/src/backend/serial/fiat_u%s/field.rs' % bits
src = open('/repo/' + REL).read()
FE = 'FieldElement51' if bits == '64' else 'FieldElement2625'
N = '5' if bits == '64' else '10'
m1 = ('2251799813685228,', '2251799813685229,') if bits == '64' else ('0x3ffffec, 0x1ffffff, 0x3ffffff,', '0x3ffffed, 0x1ffffff, 0x3ffffff,')
# (name, old, new, occurrence index of `old` to replace (0-based))
M = [
    ('mul_dup_operand', 'fiat_25519_carry_mul(&mut output.0, &self_loose, &rhs_loose);', 'fiat_25519_carry_mul(&mut output.0, &self_loose, &self_loose);', 0),
    ('mul_assign_dup_operand', 'fiat_25519_carry_mul(&mut self.0, &self_loose, &rhs_loose);', 'fiat_25519_carry_mul(&mut self.0, &rhs_loose, &rhs_loose);', 0),
    ('sub_swapped', 'fiat_25519_sub(&mut result_loose, &self.0, &rhs.0);\n        let mut output', 'fiat_25519_sub(&mut result_loose, &rhs.0, &self.0);\n        let mut output', 0),
    ('sub_no_carry', 'fiat_25519_sub(&mut result_loose, &self.0, &rhs.0);\n        let mut output = %s::ZERO;\n        fiat_25519_carry(&mut output.0, &result_loose);' % FE,
                     'fiat_25519_sub(&mut result_loose, &self.0, &rhs.0);\n        let mut output = %s::ZERO;\n        output.0 = fiat_25519_tight_field_element(result_loose.0);' % FE, 0),
    ('add_is_sub', 'fiat_25519_add(&mut result_loose, &self.0, &rhs.0);\n        let mut output', 'fiat_25519_sub(&mut result_loose, &self.0, &rhs.0);\n        let mut output', 0),
    ('neg_is_relax', 'fiat_25519_opp(&mut output_loose, &self.0);', 'fiat_25519_relax(&mut output_loose, &self.0);', 0),
    ('square2_add_once', 'fiat_25519_add(&mut output_loose, &square, &square);', 'fiat_25519_relax(&mut output_loose, &square);', 0),
    ('square_is_relax_carry', 'fiat_25519_carry_square(&mut output.0, &self_loose);', 'fiat_25519_carry(&mut output.0, &self_loose);', 0),
    ('minus_one_const', m1[0], m1[1], 0),
    ('one_const', 'from_limbs([1, 0, 0, 0, 0', 'from_limbs([0, 1, 0, 0, 0', 0),
    ('from_bytes_mask', 'temp[31] &= 127u8;', 'temp[31] &= 255u8;', 0),
    ('from_bytes_no_copy', 'temp.copy_from_slice(%s);' % ('bytes' if bits == '64' else 'data'), '', 0),
    ('select_swapped', '&(a.0).0,\n            &(b.0).0,', '&(b.0).0,\n            &(a.0).0,', 0),
    ('swap_wrong_limb', 'conditional_swap(&mut a.0[4], &mut b.0[4], choice);', 'conditional_swap(&mut a.0[4], &mut b.0[3], choice);', 0),
    ('assign_wrong_limb', 'fiat_25519_cmovznz_u%s(&mut output[2], choicebit, self.0[2], ' % bits, 'fiat_25519_cmovznz_u%s(&mut output[2], choicebit, self.0[1], ' % bits, 0),
    ('zeroize_noop', '(self.0).0.zeroize();', '', 0),
]
if bits == '64':
    M += [
        ('pow2k_no_decrement_guard', 'if k == 0 {\n                return output;', 'if k <= 1 {\n                return output;', 0),
        ('pow2k_mul_not_square', 'fiat_25519_carry_square(&mut output.0, &input);', 'fiat_25519_carry(&mut output.0, &input);', 0),
        ('reduce_no_carry', 'fiat_25519_carry(&mut output, &input);', 'output = fiat_25519_tight_field_element(input.0);', 0),
    ]
else:
    M += [
        ('pow2k_off_by_one', 'for _ in 1..k {', 'for _ in 0..k {', 0),
        ('negate_noop', 'self.0 = neg.0;', '', 0),
    ]
mroot = '/tmp/ff/mrepo%s' % bits
wdir = '/verif/.work/ff%s/mut' % bits
os.makedirs(os.path.dirname(os.path.join(mroot, REL)), exist_ok=True)
os.makedirs(wdir, exist_ok=True)
# the units also read literal table data (//@data) from the serial constants file: provide it unchanged
CREL = 'curve25519-dalek/src/backend/serial/u%s/constants.rs' % bits
os.makedirs(os.path.dirname(os.path.join(mroot, CREL)), exist_ok=True)
open(os.path.join(mroot, CREL), 'w').write(open('/repo/' + CREL).read())
only = sys.argv[2:]
for name, a, b, occ in M:
    if only and name not in only:
        continue
    assert src.count(a) >= 1, (name, src.count(a))
    idx = -1
    for _ in range(occ + 1):
        idx = src.index(a, idx + 1)
    open(os.path.join(mroot, REL), 'w').write(src[:idx] + b + src[idx + len(a):])
    out = '%s/%s.rs' % (wdir, name)
    r = subprocess.run(['/verif/vx/target/release/vx', mroot, '/verif/contracts/ff%s.vx' % bits, out, out + '.json'], capture_output=True, text=True)
    if r.returncode != 0:
        print('%-26s vx exit %d (undecided) %s' % (name, r.returncode, (r.stdout + r.stderr).strip()[-200:]))
        continue
    t0 = time.time()
    r = subprocess.run(['timeout', '600', 'verus', out, '--rlimit', '100', '--triggers-mode', 'silent', '--multiple-errors', '6'], capture_output=True, text=True)
    dt = time.time() - t0
    o = r.stdout + r.stderr
    res = [l for l in o.splitlines() if 'verification results' in l]
    errs = []
    lines = o.splitlines()
    for i, l in enumerate(lines):
        if l.startswith('error') and 'aborting' not in l:
            tag = ''
            for k in range(i + 1, min(i + 9, len(lines))):
                m = re.search(r'\[C\d+ [^\]]+\]', lines[k])
                if m:
                    tag = m.group(0)
                    break
                m2 = re.match(r'\s*\d+ \|\s*(.*)', lines[k])
                if m2 and not tag:
                    tag = m2.group(1).strip()[:90]
            errs.append(l[:50] + ' :: ' + tag)
    print('%-26s %5.1fs %s' % (name, dt, res[0] if res else 'NO RESULT ' + o[-300:]))
    for e in errs[:6]:
        print('      ', e)
