#!/usr/bin/env python3
"""Vacuity probes for unit SG: `assert(false)` is spliced at the end of EVERY verified function body of contracts/sg.vx (and of the nested
square_multiply, and of the generated macro-variant impls); every probe must FAIL.  Writes only under /verif/.work/sg/vac."""
import os, re, subprocess, sys
W = "/verif/.work/sg/vac"; os.makedirs(W, exist_ok=True)
tpl = open("/verif/contracts/sg.vx").read().split("\n")
out = []; n = 0; ext = False; infn = False
for l in tpl:
    s = l.strip()
    if s.startswith("//@fn ") or (s.startswith("//@item ") and ":: fn " in s): infn, ext = True, False
    if s == "//@ external_body": ext = True
    if infn and not ext and s in ("//@endfn", "//@ outer"):
        out += ["//@ at-end", "//@|        proof { assert(false); }   // VACUITY-PROBE"]; n += 1
    if s == "//@endfn": infn = False
    if s.startswith("//@include lib/sg_macro_variants.vx"):
        mv = open("/verif/contracts/lib/sg_macro_variants.vx").read().split("\n")
        mv2 = []
        for m in mv:
            if "// macro body:" in m: mv2.append("        proof { assert(false); }   // VACUITY-PROBE"); n += 1
            mv2.append(m)
        open(W + "/sg_macro_variants.vx", "w").write("\n".join(mv2)); out.append("//@include %s/sg_macro_variants.vx" % W); continue
    if s.startswith("//@include "): l = l.replace("//@include ", "//@include /verif/contracts/")
    out.append(l)
open(W + "/sgvac.vx", "w").write("\n".join(out))
r = subprocess.run(["/verif/vx/target/release/vx", "/repo", W + "/sgvac.vx", W + "/sgvac.rs", W + "/sgvac.log.json"], capture_output=True, text=True)
if r.returncode: print(r.stdout, r.stderr); sys.exit(2)
r = subprocess.run(["timeout", "900", "verus", W + "/sgvac.rs", "--rlimit", os.environ.get("SG_RLIMIT", "20"), "--triggers-mode", "silent"], capture_output=True, text=True)
o = r.stdout + r.stderr
src = open(W + "/sgvac.rs").read().split("\n")
probe_lines = {i + 1 for i, l in enumerate(src) if "VACUITY-PROBE" in l}
failed = set()
for m in re.finditer(r"error: assertion failed\s*\n\s*--> [^:]+:(\d+):", o):
    if int(m.group(1)) in probe_lines: failed.add(int(m.group(1)))
print([l for l in o.splitlines() if "verification results" in l])
print("probes: %d spliced, %d in output file, %d FAIL (as they must)" % (n, len(probe_lines), len(failed)))
for p in sorted(probe_lines - failed): print("  NOT refuted (vacuous context or rlimit?): line", p, src[p - 1].strip())
sys.exit(0 if failed == probe_lines else 1)
