#!/usr/bin/env python3
"""Tests of the TRUSTED axioms M4 in contracts/lib/sm_axioms.vx (unit SM):
    axiom_m4_closure, axiom_m4_assoc, axiom_m4_comm, axiom_m4_identity, axiom_m4_inverse
(the abelian-group laws of `on_curve` points under `ed_add_affine`, identity `ed_id()`, inverse `ed_neg_affine`).

Every statement is re-stated with Python integers (spec functions transliterated 1:1 from lib/field_spec.vx and
lib/edwards_spec.vx) and evaluated on
  * random curve points (decoded from random y), random multiples of the basepoint, the basepoint,
  * all 8 torsion points (all pairs / triples among them), the identity,
  * P + (-P), P + P, P + T (T torsion), T + P, P + O, mixed triples (P, T, -P), (P, P, T), ...
For each instance the HYPOTHESIS (on_curve of every argument) is checked first (non-vacuity), then the CONCLUSION.
It also checks the derived laws that lib/sm_group.vx PROVES from M4 (gmul(a+b) = gmul(a)+gmul(b), gmul(ab) = gmul(a, gmul(b)),
-(P+Q) = -P + -Q, gdbl(k) = gmul(2^k), the Horner steps used by variable_base / vartime_double_base / mul_base) on small
numbers, and that the tests have teeth: mutated statements (wrong identity, wrong inverse, a non-associative law) are rejected.
Exit status 0 = every axiom passed.
"""
import random
import sys

p = 2**255 - 19
ED_D = 37095705934669439343138083508754565189542113879843219016388785533085940283555
assert ED_D == (-121665 * pow(121666, p - 2, p)) % p
ELL = 2**252 + 27742317777372353535851937790883648493
SQRT_M1 = pow(2, (p - 1) // 4, p)
BX = 15112221349535400772501151409588531511454012693041857206046113283949847762202
BY = 46316835694926478169428394003475163141307993866256225615783033603165251855960


# ---- spec functions (lib/field_spec.vx, lib/edwards_spec.vx) ----
def fadd(a, b): return (a + b) % p
def fsub(a, b): return (a - b) % p
def fneg(a): return (0 - a) % p
def fmul(a, b): return (a * b) % p
def fsq(a): return (a * a) % p
def finv(x): return pow(x, p - 2, p)          # fpow(x, p-2); finv(0) == 0
def fdiv(a, b): return fmul(a, finv(b))


def on_curve(a):
    x, y = a
    return 0 <= x < p and 0 <= y < p and fsub(fsq(y), fsq(x)) == fadd(1, fmul(ED_D, fmul(fsq(x), fsq(y))))


def ed_add_affine(a, b, mut=None):
    (x1, y1), (x2, y2) = a, b
    t = fmul(ED_D, fmul(fmul(x1, x2), fmul(y1, y2)))
    if mut == "nonassoc":          # a wrong law (sign of the x-denominator): must be caught
        return (fdiv(fadd(fmul(x1, y2), fmul(y1, x2)), fsub(1, t)), fdiv(fadd(fmul(y1, y2), fmul(x1, x2)), fsub(1, t)))
    return (fdiv(fadd(fmul(x1, y2), fmul(y1, x2)), fadd(1, t)), fdiv(fadd(fmul(y1, y2), fmul(x1, x2)), fsub(1, t)))


def ed_neg_affine(a): return (fneg(a[0]), a[1])
def ed_double_affine(a): return ed_add_affine(a, a)
ED_ID = (0, 1)


def gmul(n, a):                     # the recursive definition, iteratively
    r = ED_ID
    for _ in range(n):
        r = ed_add_affine(r, a)
    return r


def smul(n, a): return gmul(n, a) if n >= 0 else ed_neg_affine(gmul(-n, a))


def gdbl(k, a):
    for _ in range(k):
        a = ed_double_affine(a)
    return a


def fast_mul(n, a):                 # double-and-add, only used to build test points
    r, q = ED_ID, a
    while n:
        if n & 1:
            r = ed_add_affine(r, q)
        q = ed_add_affine(q, q)
        n >>= 1
    return r


def decode(y, sign):
    u, v = fsub(fsq(y), 1), fadd(fmul(ED_D, fsq(y)), 1)
    x2 = fdiv(u, v)
    x = pow(x2, (p + 3) // 8, p)
    if fsq(x) != x2:
        x = fmul(x, SQRT_M1)
    if fsq(x) != x2:
        return None
    if x % 2 != sign:
        x = fneg(x)
    return (x, y)


# ---- the axioms, as predicates (True = holds on this instance; hypothesis checked separately) ----
def ax_closure(a, b): return on_curve(ed_add_affine(a, b))
def ax_assoc(a, b, c, mut=None): return ed_add_affine(ed_add_affine(a, b, mut), c, mut) == ed_add_affine(a, ed_add_affine(b, c, mut), mut)
def ax_comm(a, b): return ed_add_affine(a, b) == ed_add_affine(b, a)
def ax_identity(a, ident=ED_ID): return ed_add_affine(a, ident) == a
def ax_inverse(a, neg=ed_neg_affine): return ed_add_affine(a, neg(a)) == ED_ID


def main():
    rng = random.Random(int(sys.argv[1]) if len(sys.argv) > 1 else 20261004)
    B = (BX, BY)
    assert on_curve(B) and fmul(5, BY) == 4 and BX % 2 == 0
    assert fast_mul(ELL, B) == ED_ID and B != ED_ID
    # torsion: a point of order 8 = [l]Q for a random Q not in the prime-order subgroup
    T8 = None
    while T8 is None:
        q = decode(rng.randrange(p), rng.randrange(2))
        if q is None:
            continue
        t = fast_mul(ELL, q)
        if fast_mul(4, t) != ED_ID:
            T8 = t
    torsion = [fast_mul(k, T8) for k in range(8)]
    assert len(set(torsion)) == 8 and all(on_curve(t) for t in torsion) and fast_mul(8, T8) == ED_ID
    assert (0, p - 1) in torsion and ED_ID in torsion
    pts = []
    while len(pts) < 40:
        q = decode(rng.randrange(p), rng.randrange(2))
        if q is not None:
            pts.append(q)
    pts += [fast_mul(rng.randrange(1, ELL), B) for _ in range(20)] + [B, fast_mul(ELL - 1, B)]
    special = torsion + [ed_add_affine(pts[0], t) for t in torsion]
    allp = pts + special
    assert all(on_curve(a) for a in allp)           # hypotheses of every instance below hold

    n = {"closure": 0, "assoc": 0, "comm": 0, "identity": 0, "inverse": 0}
    pairs = [(a, b) for a in special for b in special] + [(rng.choice(allp), rng.choice(allp)) for _ in range(600)]
    pairs += [(a, a) for a in allp] + [(a, ed_neg_affine(a)) for a in allp] + [(a, ED_ID) for a in allp] + [(ED_ID, a) for a in allp]
    for a, b in pairs:
        assert on_curve(a) and on_curve(b)
        assert ax_closure(a, b), ("closure", a, b); n["closure"] += 1
        assert ax_comm(a, b), ("comm", a, b); n["comm"] += 1
    triples = [(a, b, c) for a in torsion for b in torsion for c in torsion]
    triples += [(rng.choice(allp), rng.choice(allp), rng.choice(allp)) for _ in range(400)]
    triples += [(a, ed_neg_affine(a), b) for a, b in pairs[:200]] + [(a, a, b) for a, b in pairs[:200]] + [(a, b, ed_neg_affine(b)) for a, b in pairs[:200]]
    for a, b, c in triples:
        assert on_curve(a) and on_curve(b) and on_curve(c)
        assert ax_assoc(a, b, c), ("assoc", a, b, c); n["assoc"] += 1
    for a in allp + [ed_neg_affine(a) for a in allp]:
        assert on_curve(a)
        assert ax_identity(a), ("identity", a); n["identity"] += 1
        assert on_curve(ed_neg_affine(a)) and ax_inverse(a), ("inverse", a); n["inverse"] += 1

    # derived laws proved in lib/sm_group.vx, on small numbers (definitional gmul)
    nd = 0
    for a in [B, pts[0], ed_add_affine(pts[1], T8), T8, torsion[3]]:
        for m in range(0, 12):
            for k in range(0, 9):
                assert gmul(m + k, a) == ed_add_affine(gmul(m, a), gmul(k, a))
                assert gmul(m * k, a) == gmul(m, gmul(k, a))
                nd += 2
        for m in range(-9, 10):
            for k in range(-9, 10):
                assert smul(m + k, a) == ed_add_affine(smul(m, a), smul(k, a))
                assert smul(m * k, a) == smul(m, smul(k, a))
                nd += 2
        for k in range(0, 7):
            assert gdbl(k, a) == gmul(2**k, a); nd += 1
        b = pts[2]
        assert ed_neg_affine(ed_add_affine(a, b)) == ed_add_affine(ed_neg_affine(a), ed_neg_affine(b)); nd += 1
        for (h, d16) in [(3, -8), (-5, 7), (0, 8), (11, 0)]:     # radix-16 Horner step (variable_base, mul_base)
            assert ed_add_affine(smul(16, smul(h, a)), smul(d16, a)) == smul(16 * h + d16, a); nd += 1
        for (ha, hb, da, db) in [(3, -2, 1, -15), (0, 0, -7, 127), (-9, 4, 0, 0)]:   # interleaved binary step (vartime_double_base)
            lhs = ed_add_affine(ed_add_affine(ed_double_affine(ed_add_affine(smul(ha, a), smul(hb, B))), smul(da, a)), smul(db, B))
            assert lhs == ed_add_affine(smul(2 * ha + da, a), smul(2 * hb + db, B)); nd += 1

    # the tests have teeth: wrong statements are rejected on some instance
    teeth = 0
    assert any(not ax_identity(a, (0, p - 1)) for a in allp); teeth += 1                       # wrong identity element
    assert any(not ax_identity(a, (1, 0)) for a in allp); teeth += 1
    assert any(not ax_inverse(a, lambda q: (q[0], fneg(q[1]))) for a in allp); teeth += 1      # wrong inverse (x, -y)
    assert any(not ax_inverse(a, lambda q: q) for a in allp); teeth += 1
    assert any(not ax_assoc(a, b, c, "nonassoc") for a, b, c in triples[512:700]); teeth += 1   # a wrong addition law
    assert any(not on_curve((a[0], fadd(a[1], 1))) for a in allp); teeth += 1                  # closure test can fail

    print("axiom_m4_closure  %5d instances OK" % n["closure"])
    print("axiom_m4_assoc    %5d instances OK" % n["assoc"])
    print("axiom_m4_comm     %5d instances OK" % n["comm"])
    print("axiom_m4_identity %5d instances OK" % n["identity"])
    print("axiom_m4_inverse  %5d instances OK" % n["inverse"])
    print("derived laws (proved in lib/sm_group.vx) %d instances OK; %d mutated statements rejected" % (nd, teeth))
    print("RESULT: PASS")


if __name__ == "__main__":
    main()
