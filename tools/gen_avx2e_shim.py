#!/usr/bin/env python3
"""gen_avx2e_shim.py [--check]  ->  contracts/lib/avx2e_field_shim.vx

The ABSTRACT FIELD LAYER of unit AVX2E (contracts/avx2e.vx): `FieldElement2625x4` is opaque, the only view is the uninterpreted
`lane(x, k) : [u32; 10]` (the ten radix-2^25.5 limbs of lane k), and every method of backend/vector/avx2/field.rs that
avx2/edwards.rs calls is an `external_body` stub on the REAL signature (vx `//@ external_body`) whose requires / ensures lines are
COPIED BY THIS SCRIPT, character by character, from the block of contracts/avx2f.vx in which unit AVX2F PROVES them (so the stub text cannot
drift: `--check` regenerates and compares). The specification vocabulary (fe2625_int, fe2625_lt, the bXXX numerals, lanes_lt, le_2p,
sum_limbs, diff_limbs, neg2p_limbs, shuffle_src, lanes_has, ...) is copied verbatim from lib/fe2625_math.vx, lib/avx2_math.vx and
lib/avx2_spec.vx. Only four definitions are ABSTRACTED, each a consequence of the concrete one of AVX2F:
  lane(x, k)               uninterpreted here; in AVX2F: the ten 32-bit positions of lane k in the five u32x8 vectors
  lane_eq(r, k, x, k2)     here: lane(r, k) == lane(x, k2); in AVX2F: position-wise equality, which implies it (lib/avx2_spec.vx lemma_lane_eq)
  all_eq(r, x)             here: r == x (the two values are the same); in AVX2F: all 40 positions are equal, which implies r == x by extensionality of
                           the plain structs u32x8 { l0 .. l7 } and FieldElement2625x4([u32x8; 5]) (checked: tools/avx2e_check_avx2f_extras.sh)
  Add::add_req             here: no limb sum of any lane exceeds u32::MAX; in AVX2F: no 32-bit position sum wraps (vec_add_ok on the five vectors) —
                           the 40 positions ARE the 4 x 10 lane limbs, so the two are equivalent
The tags `[C01 AVX2F.x.y]` of the copied lines are kept as `AVX2F-clause(C01 AVX2F.x.y)` comments: they name the proved clause each assumed line
corresponds to (the square brackets are removed so that the driver does not attribute a call-site failure to unit AVX2F).
"""
import re, sys, os

ROOT = os.path.dirname(os.path.dirname(os.path.abspath(__file__)))
L = os.path.join(ROOT, "contracts", "lib")
OUT = os.path.join(L, "avx2e_field_shim.vx")


def read(p):
    with open(p) as f:
        return f.read().split("\n")


def grab_item(lines, head_re):
    """the item (spec fn / proof fn) whose first line matches head_re, up to the line where the brace depth returns to 0"""
    for i, l in enumerate(lines):
        if re.search(head_re, l):
            # include preceding doc comments
            s = i
            while s > 0 and lines[s - 1].startswith("///"):
                s -= 1
            depth = 0
            seen = False
            for j in range(i, len(lines)):
                code = lines[j].split("//")[0] if not lines[j].lstrip().startswith("///") else ""
                depth += code.count("{") - code.count("}")
                seen = seen or "{" in code
                if seen and depth == 0:
                    return lines[s:j + 1]
    raise SystemExit("gen_avx2e_shim: item not found: " + head_re)


def detag(l):
    return re.sub(r"\[(C\d\d(?:,C\d\d)*) (AVX2F\.[A-Za-z0-9_.\-]+)\]", r"AVX2F-clause(\1 \2)", l)


def grab_fn(av, impl_sel, fn):
    """(ret line, spec lines) of `//@fn fn` inside `//@impl <file> :: impl_sel` of avx2f.vx"""
    i = next(k for k, l in enumerate(av) if l.startswith("//@impl ") and l.split("::", 1)[1].strip() == impl_sel)
    j = next(k for k in range(i, len(av)) if av[k].strip() == "//@fn " + fn)
    ret, spec = None, []
    k = j + 1
    while not av[k].startswith("//@endfn"):
        if av[k].startswith("//@ ret "):
            ret = av[k]
        if av[k].strip() == "//@ spec":
            k += 1
            while av[k].startswith("//@|"):
                spec.append(detag(av[k]))
                k += 1
            break
        k += 1
    if not spec:
        raise SystemExit("gen_avx2e_shim: no spec for " + impl_sel + " :: " + fn)
    return ret, spec


def stub(av, file, impl_sel, fns, extra=None):
    o = ["//@impl %s :: %s" % (file, impl_sel)]
    for fn in fns:
        ret, spec = grab_fn(av, impl_sel, fn)
        o.append("//@fn " + fn)
        o.append("//@ props C11 C03")
        if ret:
            o.append(ret)
        o.append("//@ spec")
        o += spec
        if extra and fn in extra:
            o += extra[fn]
        o.append("//@ external_body")
        o.append("//@endfn")
    o.append("//@endimpl")
    return o


def grab_block(av, head):
    """a hand-written Verus block of avx2f.vx starting at the line equal to head (plus preceding /// lines)"""
    return grab_item(av, "^" + re.escape(head))


def main():
    fe = read(os.path.join(L, "fe2625_math.vx"))
    am = read(os.path.join(L, "avx2_math.vx"))
    sp = read(os.path.join(L, "avx2_spec.vx"))
    av = read(os.path.join(ROOT, "contracts", "avx2f.vx"))
    FIELD = "curve25519-dalek/src/backend/vector/avx2/field.rs"
    o = []
    o.append("// GENERATED by tools/gen_avx2e_shim.py from contracts/avx2f.vx, lib/avx2_spec.vx, lib/avx2_math.vx, lib/fe2625_math.vx — do not edit.")
    o.append("// ABSTRACT FIELD LAYER of unit AVX2E: FieldElement2625x4 is OPAQUE (view: uninterpreted `lane`), every method is an external_body stub on the")
    o.append("// real signature carrying the requires / ensures text PROVED in unit AVX2F (copied line by line; `AVX2F-clause(..)` names the proved clause).")
    o.append("// ---- (1) vocabulary copied verbatim from lib/fe2625_math.vx")
    for k in range(1, 10):
        o += grab_item(fe, r"pub open spec fn w25_%d\(\)" % k)
    for n in ("fe2625_int", "fe2625_lt"):
        o += grab_item(fe, r"pub open spec fn %s\(" % n)
    o.append("// ---- (2) bound classes copied verbatim from lib/avx2_math.vx: `b < beta` <==> even limbs < bXXX_e(), odd limbs < bXXX_o()")
    for n in ("b00002", "b0007", "b001", "b0999", "b1", "b15", "b16", "b175", "b25", "b4"):
        o += grab_item(am, r"pub open spec fn %s_e\(\)" % n)
        o += grab_item(am, r"pub open spec fn %s_o\(\)" % n)
    o += grab_item(am, r"pub proof fn lemma_bound_numerals\(\)")
    o += grab_item(am, r"pub open spec fn smul_scalar_max\(\)")
    o.append("// ---- (3) the opaque type and its only view")
    o.append("/// opaque placeholder for backend/vector/avx2/field.rs FieldElement2625x4 (five u32x8 vectors = 40 32-bit positions); never inspected")
    o.append("#[derive(Copy, Clone)]")
    o.append("pub struct FieldElement2625x4 { pub rep: [u32; 40] }")
    o.append("/// the ten limbs (radix 2^25.5, as in FieldElement2625) of lane k (0 = A, 1 = B, 2 = C, 3 = D). UNINTERPRETED here; defined from the vector layout in lib/avx2_spec.vx")
    o.append("pub uninterp spec fn lane(x: FieldElement2625x4, k: int) -> [u32; 10];")
    o.append("/// ABSTRACTED (AVX2F: position-wise equality of the five vectors' lane positions, which implies this by lemma_lane_eq of lib/avx2_spec.vx)")
    o.append("pub open spec fn lane_eq(r: FieldElement2625x4, k: int, x: FieldElement2625x4, k2: int) -> bool { lane(r, k) == lane(x, k2) }")
    o.append("/// ABSTRACTED (AVX2F: all 40 positions equal, which implies r == x by extensionality of the structs u32x8 / [u32x8; 5]; checked by tools/avx2e_check_avx2f_extras.sh)")
    o.append("pub open spec fn all_eq(r: FieldElement2625x4, x: FieldElement2625x4) -> bool { r == x }")
    o.append("// ---- (4) vocabulary copied verbatim from lib/avx2_spec.vx")
    for n in ("lane_int", "fe_lane", "lanes_lt", "avx2_reduced", "lanes_reduced", "avx2_reduced64", "lanes_reduced64", "shuffle_src", "lanes_has",
              "le_2p", "le_16p", "lanes_le_2p", "lanes_le_16p", "sum_limbs", "neg2p_limbs", "diff_limbs"):
        o += grab_item(sp, r"pub open spec fn %s\(" % n)
    o += grab_item(sp, r"pub proof fn lemma_doc_bounds\(")
    o.append("// ---- (5) operator requirements: copied from contracts/avx2f.vx except Add (see the header of tools/gen_avx2e_shim.py)")
    o.append("/// no limb sum exceeds u32::MAX")
    o.append("pub open spec fn limbs_add_ok(a: [u32; 10], b: [u32; 10]) -> bool { a[0] + b[0] <= u32::MAX && a[1] + b[1] <= u32::MAX && a[2] + b[2] <= u32::MAX && a[3] + b[3] <= u32::MAX && a[4] + b[4] <= u32::MAX && a[5] + b[5] <= u32::MAX && a[6] + b[6] <= u32::MAX && a[7] + b[7] <= u32::MAX && a[8] + b[8] <= u32::MAX && a[9] + b[9] <= u32::MAX }")
    o.append("/// `Add`: ABSTRACTED form of AVX2F's add_req (vec_add_ok on each of the five vectors: no 32-bit position wraps; the 40 positions are the 4 x 10 lane limbs)")
    o.append("impl vstd::std_specs::ops::AddSpecImpl<FieldElement2625x4> for FieldElement2625x4 {")
    o.append("    open spec fn obeys_add_spec() -> bool { false }")
    o.append("    open spec fn add_req(self, rhs: FieldElement2625x4) -> bool { limbs_add_ok(lane(self, 0), lane(rhs, 0)) && limbs_add_ok(lane(self, 1), lane(rhs, 1)) && limbs_add_ok(lane(self, 2), lane(rhs, 2)) && limbs_add_ok(lane(self, 3), lane(rhs, 3)) }")
    o.append("    open spec fn add_spec(self, rhs: FieldElement2625x4) -> FieldElement2625x4 { arbitrary() }")
    o.append("}")
    o += grab_block(av, "impl vstd::std_specs::ops::NegSpecImpl for FieldElement2625x4 {")
    o += grab_block(av, "impl<'a, 'b> vstd::std_specs::ops::MulSpecImpl<&'b FieldElement2625x4> for &'a FieldElement2625x4 {")
    o += grab_block(av, "impl vstd::std_specs::ops::MulSpecImpl<(u32, u32, u32, u32)> for FieldElement2625x4 {")
    o.append("// ---- (6) the stubs. ASSUMED here, PROVED in unit AVX2F (contracts/avx2f.vx): same requires / ensures lines")
    zi = next(k for k, l in enumerate(av) if l.strip() == "//@const ZERO" and "FieldElement2625x4" in av[k + 1])
    o.append("impl FieldElement2625x4 {")
    o.append("    /// ASSUMED here, PROVED in unit AVX2F (`//@const ZERO` of avx2f.vx: the real initialiser with this ensures)")
    o.append("    #[verifier::external_body]")
    o.append("    pub exec const ZERO: FieldElement2625x4")
    o.append("    " + detag(av[zi + 1][4:]).strip())
    o.append("    { FieldElement2625x4 { rep: [0; 40] } }")
    o.append("}")
    # `split`: AVX2F proves the bound for ANY input (limbs < 2^58 + 2^32). The conversion to a serial point needs the bound of a REDUCED input
    # (limbs < 2^52 = weight 1 of the serial field interface); that clause is stated over the same limb relation AVX2F's loop invariant
    # (`split_limb`) establishes: limb j of output k == lane(k)[2j] + lane(k)[2j+1] * 2^26.
    extra = {"split": [
        "//@|            // EXTRA clause, NOT among the ensures of avx2f.vx as committed (there it is the LOOP INVARIANT `split_limb`, AVX2F-clause(C01 AVX2F.split.loop)):",
        "//@|            // the exact limb relation r[k].0[j] == lane(k)[2j] + 2^26 * lane(k)[2j+1]. Verified as a postcondition of the real `split` on a scratch copy of avx2f.vx",
        "//@|            // (tools/avx2e_check_avx2f_extras.sh); needed because the bound for ANY input (2^58 + 2^32) does not give the serial weight-1 bound (2^52) of ed_valid.",
        "//@|            split_limbs(r[0].0, lane(*self, 0)) && split_limbs(r[1].0, lane(*self, 1)) && split_limbs(r[2].0, lane(*self, 2)) && split_limbs(r[3].0, lane(*self, 3)),     // AVX2F-extra(C11 split.limbs)",
    ]}
    o.append("/// limb j of the radix-2^51 output == limb 2j + 2^26 * limb 2j+1 of the lane (what `split` computes: `a_2i + (a_2i_1 << 26)`)")
    o.append("pub open spec fn split_limbs(o: [u64; 5], l: [u32; 10]) -> bool { o[0] == l[0] + l[1] * 67108864 && o[1] == l[2] + l[3] * 67108864 && o[2] == l[4] + l[5] * 67108864 && o[3] == l[6] + l[7] * 67108864 && o[4] == l[8] + l[9] * 67108864 }")
    o += stub(av, FIELD, "FieldElement2625x4", ["split", "new", "negate_lazy", "diff_sum", "square_and_negate_D", "shuffle", "blend"], extra)
    o += stub(av, FIELD, "Add<FieldElement2625x4> for FieldElement2625x4", ["add"])
    o += stub(av, FIELD, "Neg for FieldElement2625x4", ["neg"])
    o += stub(av, FIELD, "Mul<&FieldElement2625x4> for &FieldElement2625x4", ["mul"])
    o += stub(av, FIELD, "Mul<(u32, u32, u32, u32)> for FieldElement2625x4", ["mul"])
    o += stub(av, FIELD, "ConditionallySelectable for FieldElement2625x4", ["conditional_select", "conditional_assign"])
    text = "\n".join(o) + "\n"
    # ---- second file: the VALUE-LEVEL part of lib/ed_models_spec.vx and the first part of lib/ed_algebra.vx, verbatim (the struct-level part of
    # ed_models_spec.vx names the serial CompletedPoint views cp_valid / cp_affine, which in this unit are the CachedPoint views, as in unit VSM;
    # the rest of ed_algebra.vx is about decompression and needs axiom M2, which this unit does not use)
    em = read(os.path.join(L, "ed_models_spec.vx"))
    ea = read(os.path.join(L, "ed_algebra.vx"))
    s0 = next(k for k, l in enumerate(em) if l.startswith("/// 2d mod p"))
    s1 = next(k for k, l in enumerate(em) if l.startswith("// ---- struct level ----"))
    a1 = next(k for k, l in enumerate(ea) if l.startswith("// ---------- projective equality test"))
    o2 = ["// GENERATED by tools/gen_avx2e_shim.py — do not edit. Verbatim copies: lib/ed_models_spec.vx (value level only) and lib/ed_algebra.vx (up to the",
          "// subtraction formulas). All lemmas are PROVED here again (from M1 = lib/axioms_field.vx and the M3 axioms of lib/ed_axioms.vx, included separately)."]
    o2 += em[s0:s1]
    o2.append("// ---- lib/ed_algebra.vx, lines 1..%d" % a1)
    o2 += ea[:a1]
    text2 = "\n".join(o2) + "\n"
    OUT2 = os.path.join(L, "avx2e_ed_vals.vx")
    if "--check" in sys.argv:
        bad = False
        for pth, t in ((OUT, text), (OUT2, text2)):
            cur = open(pth).read() if os.path.exists(pth) else ""
            if cur != t:
                print("gen_avx2e_shim: %s is OUT OF DATE with respect to its sources (avx2f.vx, lib/avx2_spec.vx, lib/avx2_math.vx, lib/fe2625_math.vx, lib/ed_models_spec.vx, lib/ed_algebra.vx)" % pth)
                bad = True
        if bad:
            sys.exit(1)
        print("gen_avx2e_shim: up to date")
        return
    for pth, t in ((OUT, text), (OUT2, text2)):
        with open(pth, "w") as f:
            f.write(t)
        print("wrote", pth, t.count("\n"), "lines")


if __name__ == "__main__":
    main()
