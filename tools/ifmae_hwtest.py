#!/usr/bin/env python3
"""ifmae_hwtest.py [--n N] [--keep]   hardware experiment for unit IFMAE (NOT part of the proof; needs an avx512ifma CPU + nightly cargo, offline)

Makes a SCRATCH COPY of the repository under test (git archive HEAD of /repo -> /tmp/ifmae_try; /repo itself is never touched), instruments the three
`diff_sum` call sites of backend/vector/ifma/edwards.rs with a recorder (limbs of the operand that gets negated), builds the IFMA backend
(RUSTFLAGS --cfg curve25519_dalek_backend="unstable_avx512" -C target-feature=+avx512ifma,+avx512vl, cargo +nightly test --offline) and runs two tests:
  probe_witness   the inputs of lemma_ifmae_finding_add_witness (lib/ifmae_bounds.vx), placed in lane D of an ExtendedPoint / CachedPoint, through the REAL
                  `&ExtendedPoint + &CachedPoint` on real hardware: (a) the recorder sees limb 4 = 2^55 + 12 > 2^55 - 16 at the second diff_sum (the strict
                  requirement of IFMAF's diff_sum / negate_lazy is violated: `hi - self.0[4]` wraps); (b) with the partner lane (Z1 C') = 0 the wrap is not
                  undone by the following wrapping add and the result differs from the serial computation of the same formulas; (c) with a partner lane whose
                  limb 4 is >= 28 the two wraps cancel and the result is right.
  probe_search    a randomized search through the PUBLIC API (EdwardsPoint * Scalar, vartime_double_scalar_mul_basepoint, Straus multiscalar_mul,
                  vartime_multiscalar_mul incl. Pippenger sizes) on random / edge-case scalars and points, every result compared with the serial backend;
                  reports per call site the number of calls, the maximum of every limb of the negated lanes (vs the limbs of 16p), the number of strict
                  violations and the minimum of `b + 16p - a` (negative = the hardware result would be wrong).
The scratch copy is deleted at the end unless --keep."""
import os, re, shutil, subprocess, sys

SCR = "/tmp/ifmae_try"
ED = "curve25519-dalek/src/backend/vector/ifma/edwards.rs"

PROBE = r'''
#[allow(dead_code)]
pub mod probe {
    use core::sync::atomic::{AtomicI64, AtomicU64, Ordering};
    use super::F51x4Unreduced;
    const Z: AtomicU64 = AtomicU64::new(0);
    const ZI: AtomicI64 = AtomicI64::new(i64::MAX);
    const Z5: [AtomicU64; 5] = [Z; 5];
    pub static CALLS: [AtomicU64; 3] = [Z; 3];
    /// max of limb i over the lanes whose negation is USED at that site (site 0, 2: lane A; site 1: lanes A, C)
    pub static MAX_USED: [[AtomicU64; 5]; 3] = [Z5; 3];
    /// max of limb i over all four lanes (negate_lazy subtracts in all four)
    pub static MAX_ALL: [[AtomicU64; 5]; 3] = [Z5; 3];
    pub static VIOL_USED: [AtomicU64; 3] = [Z; 3];
    pub static VIOL_ALL: [AtomicU64; 3] = [Z; 3];
    /// min over the used (negated lane a, partner lane b) pairs and limbs of b + 16p - a
    pub static MIN_SLACK: [AtomicI64; 3] = [ZI; 3];
    pub const P16: [u64; 5] = [36028797018963664, 36028797018963952, 36028797018963952, 36028797018963952, 36028797018963952];
    pub fn record(site: usize, x: &F51x4Unreduced) {
        let l = x.split();
        CALLS[site].fetch_add(1, Ordering::Relaxed);
        let used: &[(usize, usize)] = if site == 1 { &[(0, 1), (2, 3)] } else { &[(0, 1)] };
        let mut va = false;
        let mut vu = false;
        for k in 0..4 {
            for i in 0..5 {
                MAX_ALL[site][i].fetch_max(l[k].0[i], Ordering::Relaxed);
                if l[k].0[i] > P16[i] { va = true; }
            }
        }
        for &(a, b) in used {
            for i in 0..5 {
                MAX_USED[site][i].fetch_max(l[a].0[i], Ordering::Relaxed);
                if l[a].0[i] > P16[i] { vu = true; }
                let s = (l[b].0[i] as i128 + P16[i] as i128 - l[a].0[i] as i128) as i64;
                MIN_SLACK[site].fetch_min(s, Ordering::Relaxed);
            }
        }
        if va { VIOL_ALL[site].fetch_add(1, Ordering::Relaxed); }
        if vu { VIOL_USED[site].fetch_add(1, Ordering::Relaxed); }
    }
    pub fn reset() {
        for s in 0..3 {
            CALLS[s].store(0, Ordering::Relaxed); VIOL_ALL[s].store(0, Ordering::Relaxed); VIOL_USED[s].store(0, Ordering::Relaxed); MIN_SLACK[s].store(i64::MAX, Ordering::Relaxed);
            for i in 0..5 { MAX_USED[s][i].store(0, Ordering::Relaxed); MAX_ALL[s][i].store(0, Ordering::Relaxed); }
        }
    }
    pub fn report(title: &str) {
        let names = ["add: tmp.diff_sum() on self.0 (used: lane A)", "add: tmp.diff_sum() on the product (used: lanes A, C)", "From<ExtendedPoint> for CachedPoint: x.diff_sum() on P.0 (used: lane A)"];
        println!("IFMAE-PROBE ==== {}", title);
        for s in 0..3 {
            println!("IFMAE-PROBE site {} [{}]: calls {}", s, names[s], CALLS[s].load(Ordering::Relaxed));
            let mut d03u = i128::MIN; let mut d03a = i128::MIN;
            for i in 0..4 {
                d03u = d03u.max(MAX_USED[s][i].load(Ordering::Relaxed) as i128 - P16[i] as i128); d03a = d03a.max(MAX_ALL[s][i].load(Ordering::Relaxed) as i128 - P16[i] as i128);
            }
            let mu = MAX_USED[s][4].load(Ordering::Relaxed); let ma = MAX_ALL[s][4].load(Ordering::Relaxed);
            println!("IFMAE-PROBE    limb 4: max over used negated lanes {} = (2^55 - 16) {:+} | over all four lanes {} = (2^55 - 16) {:+} | limbs 0..3: max of (limb - limb of 16p) used {:+}, all {:+}", mu, mu as i128 - P16[4] as i128, ma, ma as i128 - P16[4] as i128, d03u, d03a);
            println!("IFMAE-PROBE    strict violations (some limb > limb of 16p): used lanes {}, any lane {}; min (b + 16p - a) over used pairs {}", VIOL_USED[s].load(Ordering::Relaxed), VIOL_ALL[s].load(Ordering::Relaxed), MIN_SLACK[s].load(Ordering::Relaxed));
        }
    }
}
'''

TESTS = r'''
    // ---------------- unit IFMAE hardware experiment (tools/ifmae_hwtest.py) ----------------
    use super::super::field::{F51x4Reduced as R4, F51x4Unreduced as U4};
    use crate::backend::serial::u64::field::FieldElement51 as F51;
    use crate::backend::vector::packed_simd::u64x4;
    use std::vec::Vec;
    use std::vec;
    use std::format;

    fn lanes_of(x: U4) -> [F51; 4] { U4::from(R4::from(x)).split() }
    fn cached_from_lanes(a: [u64; 5], b: [u64; 5], c: [u64; 5], d: [u64; 5]) -> CachedPoint {
        CachedPoint(R4([u64x4::new(a[0], b[0], c[0], d[0]), u64x4::new(a[1], b[1], c[1], d[1]), u64x4::new(a[2], b[2], c[2], d[2]), u64x4::new(a[3], b[3], c[3], d[3]), u64x4::new(a[4], b[4], c[4], d[4])]))
    }
    /// the formulas of `&ExtendedPoint + &CachedPoint` with the serial field arithmetic on the lane VALUES
    fn serial_add(p: [F51; 4], q: [F51; 4]) -> [[u8; 32]; 4] {
        let s0 = &p[1] - &p[0]; let s1 = &p[1] + &p[0];
        let s8 = &s0 * &q[0]; let s9 = &s1 * &q[1]; let s10 = &p[2] * &q[2]; let s11 = &p[3] * &q[3];
        let s12 = &s9 - &s8; let s13 = &s9 + &s8; let s14 = &s10 - &s11; let s15 = &s10 + &s11;
        [(&s12 * &s14).as_bytes(), (&s15 * &s13).as_bytes(), (&s15 * &s14).as_bytes(), (&s12 * &s13).as_bytes()]
    }
    #[test]
    fn probe_witness() {
        let m = (1u64 << 51) - 1;
        let wx = [m, m, m, m, 474063118670578u64];
        let wy = [m + 20, m + 2, m + 2, m + 2, m + 2];
        let k = [121666u64, 0, 0, 0, 0]; let k2 = [243332u64, 0, 0, 0, 0];
        for (case, z1) in [("partner lane Z1 = 0", [0u64; 5]), ("partner lane Z1 = 2^204 (limb 4 = 1)", [0u64, 0, 0, 0, 1]), ("partner lane Z1 = 1", [1u64, 0, 0, 0, 0]), ("partner lane Z1 = 5 * 2^204", [0u64, 0, 0, 0, 5])] {
            probe::reset();
            let p = ExtendedPoint(U4::new(&F51([0, 0, 0, 0, 0]), &F51([1, 0, 0, 0, 0]), &F51(z1), &F51(wx)));
            let q = cached_from_lanes(k, k, k2, wy);
            let r = &p + &q;
            let got = lanes_of(r.0);
            let want = serial_add([F51([0, 0, 0, 0, 0]), F51([1, 0, 0, 0, 0]), F51(z1), F51(wx)], [F51(k), F51(k), F51(k2), F51(wy)]);
            let ok = (0..4).all(|i| got[i].as_bytes() == want[i]);
            probe::report(&format!("WITNESS {}: result == serial formulas: {}", case, ok));
            println!("IFMAE-PROBE WITNESS {}: lanes equal to the serial result: {:?}", case, (0..4).map(|i| got[i].as_bytes() == want[i]).collect::<Vec<_>>());
        }
    }

    struct Xs(u64);
    impl Xs {
        fn next(&mut self) -> u64 { self.0 ^= self.0 << 13; self.0 ^= self.0 >> 7; self.0 ^= self.0 << 17; self.0 }
        fn bytes(&mut self) -> [u8; 32] { let mut b = [0u8; 32]; for i in 0..4 { b[8 * i..8 * i + 8].copy_from_slice(&self.next().to_le_bytes()); } b }
    }
    #[test]
    fn probe_search() {
        use crate::constants;
        use crate::scalar::Scalar;
        use crate::traits::{MultiscalarMul, VartimeMultiscalarMul};
        let n: usize = std::env::var("IFMAE_N").ok().and_then(|s| s.parse().ok()).unwrap_or(1000);
        let mut rng = Xs(0x9E3779B97F4A7C15);
        let mut mism = 0u64;
        let mut nvb = 0u64; let mut ndb = 0u64; let mut nms = 0u64; let mut nvm = 0u64;
        probe::reset();
        let l_minus_1 = -Scalar::ONE;
        let edge: Vec<Scalar> = vec![Scalar::ZERO, Scalar::ONE, l_minus_1, Scalar::from(8u64), Scalar::from_bytes_mod_order([0xff; 32]), Scalar::from_bytes_mod_order([0x88; 32]), Scalar::from_bytes_mod_order([0x77; 32]), Scalar::from(u64::MAX)];
        let torsion = constants::EIGHT_TORSION;
        let mut p = constants::ED25519_BASEPOINT_POINT;
        for it in 0..n {
            let s = if it % 37 == 0 { edge[(it / 37) % edge.len()] } else { Scalar::from_bytes_mod_order(rng.bytes()) };
            // the point: the previous result (an output of the vector backend), sometimes re-encoded (canonical limbs), sometimes plus a torsion point
            if it % 5 == 0 { p = p.compress().decompress().unwrap(); }
            if it % 11 == 0 { p = &p + &torsion[(it / 11) % 8]; }
            if it % 101 == 0 { p = torsion[(it / 101) % 8]; }
            let r = &p * &s;
            nvb += 1;
            if r.compress() != crate::backend::serial::scalar_mul::variable_base::mul(&p, &s).compress() { mism += 1; }
            if it % 3 == 0 {
                let a = Scalar::from_bytes_mod_order(rng.bytes()); let b = Scalar::from_bytes_mod_order(rng.bytes());
                let d = crate::edwards::EdwardsPoint::vartime_double_scalar_mul_basepoint(&a, &p, &b);
                ndb += 1;
                if d.compress() != crate::backend::serial::scalar_mul::vartime_double_base::mul(&a, &p, &b).compress() { mism += 1; }
            }
            if it % 8 == 0 {
                let sc = [Scalar::from_bytes_mod_order(rng.bytes()), s, Scalar::from_bytes_mod_order(rng.bytes())];
                let pts = [p, r, constants::ED25519_BASEPOINT_POINT];
                let m = crate::edwards::EdwardsPoint::multiscalar_mul(sc.iter(), pts.iter());
                nms += 1;
                if m.compress() != crate::backend::serial::scalar_mul::straus::Straus::multiscalar_mul(sc.iter(), pts.iter()).compress() { mism += 1; }
            }
            if it % 64 == 0 {
                let cnt = if it % 256 == 0 { 200 } else { 10 };     // 200: Pippenger, 10: Straus (vartime)
                let mut sc = vec![]; let mut pts = vec![];
                let mut q = r;
                for _ in 0..cnt { sc.push(Scalar::from_bytes_mod_order(rng.bytes())); q = &q + &p; pts.push(q); }
                let m = crate::edwards::EdwardsPoint::vartime_multiscalar_mul(sc.iter(), pts.iter());
                nvm += 1;
                let want = if cnt >= 190 { crate::backend::serial::scalar_mul::pippenger::Pippenger::vartime_multiscalar_mul(sc.iter(), pts.iter()) } else { crate::backend::serial::scalar_mul::straus::Straus::vartime_multiscalar_mul(sc.iter(), pts.iter()) };
                if m.compress() != want.compress() { mism += 1; }
            }
            if !(r == crate::edwards::EdwardsPoint::default()) { p = r; } else { p = constants::ED25519_BASEPOINT_POINT; }
        }
        probe::report(&format!("SEARCH n = {}: {} variable-base, {} double-base, {} Straus, {} vartime multiscalar (incl. Pippenger); results differing from the serial backend: {}", n, nvb, ndb, nms, nvm, mism));
        assert_eq!(mism, 0);
        assert!(probe::CALLS[1].load(core::sync::atomic::Ordering::Relaxed) > 0, "the IFMA backend was not selected");
    }
'''


def sh(cmd, **kw):
    return subprocess.run(cmd, shell=True, text=True, capture_output=True, **kw)


def patch(path, old, new, count=1):
    s = open(path).read()
    assert s.count(old) == count, (old, s.count(old))
    open(path, "w").write(s.replace(old, new))


def main():
    n = "1000"
    if "--n" in sys.argv:
        n = sys.argv[sys.argv.index("--n") + 1]
    keep = "--keep" in sys.argv
    if not os.path.exists(os.path.join(SCR, "curve25519-dalek")):
        os.makedirs(SCR, exist_ok=True)
        r = sh("git -C /repo archive HEAD | tar x -C " + SCR)
        assert r.returncode == 0, r.stderr
    ed = os.path.join(SCR, ED)
    shutil.copy("/repo/" + ED, ed)     # always start from the pristine source text
    patch(ed, "#[derive(Copy, Clone, Debug)]\npub struct ExtendedPoint(", PROBE + "\n#[derive(Copy, Clone, Debug)]\npub struct ExtendedPoint(")
    patch(ed, "        tmp = tmp.blend(&tmp.diff_sum(), Lanes::AB);", "        probe::record(0, &tmp);\n        tmp = tmp.blend(&tmp.diff_sum(), Lanes::AB);")
    patch(ed, "        let tmp = F51x4Reduced::from(tmp.diff_sum());", "        probe::record(1, &tmp);\n        let tmp = F51x4Reduced::from(tmp.diff_sum());")
    patch(ed, "        x = x.blend(&x.diff_sum(), Lanes::AB);", "        probe::record(2, &x);\n        x = x.blend(&x.diff_sum(), Lanes::AB);")
    s = open(ed).read()
    i = s.rstrip().rfind("}")
    open(ed, "w").write(s[:i] + TESTS + "}\n")
    env = dict(os.environ, CARGO_TARGET_DIR=os.path.join(SCR, "target"), IFMAE_N=n,
               RUSTFLAGS='--cfg curve25519_dalek_backend="unstable_avx512" -C target-feature=+avx512ifma,+avx512vl')
    r = subprocess.run("timeout 3000 cargo +nightly test --offline --release --lib ifma::edwards::test::probe -- --nocapture --test-threads 1", shell=True, text=True,
                       capture_output=True, env=env, cwd=os.path.join(SCR, "curve25519-dalek"))
    out = r.stdout + r.stderr
    for l in out.split("\n"):
        if l.startswith("IFMAE-PROBE") or l.startswith("test ") or "test result" in l or l.startswith("error") or "panicked" in l:
            print(l)
    if r.returncode != 0:
        print(out[-4000:])
    if not keep:
        shutil.rmtree(SCR, ignore_errors=True)
    sys.exit(r.returncode)


if __name__ == "__main__":
    main()
