#!/usr/bin/env python3
"""Mutation checks for unit BATCH: the REAL scalar.rs / field.rs (and, for the ristretto part, ristretto.rs) are copied to a scratch root, ONE textual
change is applied, vx re-extracts with the UNCHANGED template contracts/batch.vx and verus runs on the whole file. Every mutant must be rejected.
usage: python3 tools/batch_mutate.py [mutant names...]      env: BATCH_RLIMIT (default 30), BATCH_MREPO (default /tmp/batch/mrepo)"""
import os, re, subprocess, sys, time, shutil
FILES = {
 'S': 'curve25519-dalek/src/scalar.rs',
 'F': 'curve25519-dalek/src/field.rs',
 'R': 'curve25519-dalek/src/ristretto.rs',
}
OTHER = ['curve25519-dalek/src/backend/serial/u64/scalar.rs', 'curve25519-dalek/src/backend/serial/u64/constants.rs',
         'curve25519-dalek/src/edwards.rs', 'curve25519-dalek/src/traits.rs']
SB = "        for (input, scratch) in inputs.iter_mut().rev().zip(scratch.iter().rev()) {\n            let tmp = UnpackedScalar::montgomery_mul(&acc, &input.unpack());\n"
M = [
 # (name, file, old, new)   — scalar.rs :: Scalar::batch_invert
 ('s_loop2_no_rev_scratch', 'S', "inputs.iter_mut().rev().zip(scratch.iter().rev())", "inputs.iter_mut().rev().zip(scratch.iter())"),
 ('s_loop2_no_rev_inputs', 'S', "inputs.iter_mut().rev().zip(scratch.iter().rev())", "inputs.iter_mut().zip(scratch.iter().rev())"),
 ('s_loop2_no_rev_both', 'S', "inputs.iter_mut().rev().zip(scratch.iter().rev())", "inputs.iter_mut().zip(scratch.iter())"),
 ('s_drop_acc_tmp', 'S', "            *input = UnpackedScalar::montgomery_mul(&acc, scratch).pack();\n            acc = tmp;\n", "            *input = UnpackedScalar::montgomery_mul(&acc, scratch).pack();\n"),
 ('s_scratch_shift', 'S', "inputs.iter_mut().rev().zip(scratch.iter().rev())", "inputs.iter_mut().rev().zip(scratch.iter().rev().skip(1))"),
 ('s_scratch_after_mul', 'S', "            *scratch = acc;\n\n            // Avoid unnecessary Montgomery", "            // Avoid unnecessary Montgomery"),   # see s_scratch_after_mul2 (two-part edit)
 ('s_ret_acc_after', 'S', "        let ret = acc.pack();\n", "        let ret = acc.montgomery_invert().pack();\n"),
 ('s_ret_before_invert', 'S', "        acc = acc.montgomery_invert().from_montgomery();\n\n        // We need to return the product of all inverses later\n        let ret = acc.pack();\n",
                               "        let ret = acc.pack();\n        acc = acc.montgomery_invert().from_montgomery();\n"),
 ('s_no_from_montgomery', 'S', "        acc = acc.montgomery_invert().from_montgomery();\n", "        acc = acc.montgomery_invert();\n"),
 ('s_no_invert', 'S', "        acc = acc.montgomery_invert().from_montgomery();\n", ""),
 ('s_no_zeroize', 'S', "        #[cfg(feature = \"zeroize\")]\n        Zeroize::zeroize(&mut scratch);\n", ""),
 ('s_zeroize_other', 'S', "        Zeroize::zeroize(&mut scratch);\n", "        Zeroize::zeroize(&mut vec![one; n]);\n"),
 ('s_loop1_acc_square', 'S', "            acc = UnpackedScalar::montgomery_mul(&acc, &tmp);\n", "            acc = UnpackedScalar::montgomery_mul(&tmp, &tmp);\n"),
 ('s_loop1_no_as_mont', 'S', "            let tmp = input.unpack().as_montgomery();\n", "            let tmp = input.unpack();\n"),
 ('s_loop2_swap_operands', 'S', "            *input = UnpackedScalar::montgomery_mul(&acc, scratch).pack();\n", "            *input = UnpackedScalar::montgomery_mul(&tmp, scratch).pack();\n"),
 ('s_acc_init_plain_one', 'S', "        let mut acc = Scalar::ONE.unpack().as_montgomery();\n", "        let mut acc = Scalar::ONE.unpack();\n"),
 # field.rs :: FieldElement::batch_invert
 ('f_loop2_no_rev_scratch', 'F', "inputs.iter_mut().rev().zip(scratch.into_iter().rev())", "inputs.iter_mut().rev().zip(scratch.into_iter())"),
 ('f_loop2_no_rev_inputs', 'F', "inputs.iter_mut().rev().zip(scratch.into_iter().rev())", "inputs.iter_mut().zip(scratch.into_iter().rev())"),
 ('f_drop_acc_assign', 'F', "            acc.conditional_assign(&tmp, nz);\n", ""),
 ('f_no_skip_zero_loop1', 'F', "acc.conditional_assign(&(&acc * input), !input.is_zero());", "acc = &acc * input;"),
 ('f_skip_inverted_loop1', 'F', "acc.conditional_assign(&(&acc * input), !input.is_zero());", "acc.conditional_assign(&(&acc * input), input.is_zero());"),
 ('f_nz_inverted_loop2', 'F', "            let nz = !input.is_zero();\n", "            let nz = input.is_zero();\n"),
 ('f_input_gets_tmp', 'F', "input.conditional_assign(&(&acc * &scratch), nz);", "input.conditional_assign(&tmp, nz);"),
 ('f_scratch_after', 'F', "            *scratch = acc;\n            // acc <- acc * input, but skipping zeros (constant-time)\n            acc.conditional_assign(&(&acc * input), !input.is_zero());\n",
                          "            acc.conditional_assign(&(&acc * input), !input.is_zero());\n            *scratch = acc;\n"),
 ('f_no_invert', 'F', "        acc = acc.invert();\n", ""),
 ('f_acc_init_zero', 'F', "        let mut acc = FieldElement::ONE;\n\n        // Pass through the input vector, recording", "        let mut acc = FieldElement::ZERO;\n\n        // Pass through the input vector, recording"),
]
R = os.environ.get('BATCH_MREPO', '/tmp/batch/mrepo'); W = '/verif/.work/batch/mut'
os.makedirs(W, exist_ok=True)
only = sys.argv[1:]
src = {k: open('/repo/' + v).read() for k, v in FILES.items()}
for name, which, a, b in M:
    if only and name not in only: continue
    if name == 's_scratch_after_mul':
        # move `*scratch = acc;` after the accumulator update (scratch index shift by one: scratch[i] = prefix product INCLUDING input i)
        t = src['S']
        a1 = "            *scratch = acc;\n\n            // Avoid unnecessary Montgomery"
        a2 = "            acc = UnpackedScalar::montgomery_mul(&acc, &tmp);\n        }\n"
        assert t.count(a1) == 1 and t.count(a2) == 1
        mutated = t.replace(a1, "            // Avoid unnecessary Montgomery").replace(a2, "            acc = UnpackedScalar::montgomery_mul(&acc, &tmp);\n            *scratch = acc;\n        }\n")
    else:
        assert src[which].count(a) == 1, (name, src[which].count(a))
        mutated = src[which].replace(a, b)
    for k, rel in FILES.items():
        os.makedirs(os.path.dirname(R + '/' + rel), exist_ok=True)
        open(R + '/' + rel, 'w').write(mutated if k == which else src[k])
    for rel in OTHER:
        os.makedirs(os.path.dirname(R + '/' + rel), exist_ok=True); shutil.copy('/repo/' + rel, R + '/' + rel)
    out = W + '/%s.rs' % name
    r = subprocess.run(['/verif/vx/target/release/vx', R, '/verif/contracts/batch.vx', out, out + '.json'], capture_output=True, text=True)
    if r.returncode != 0:
        print('%-26s vx exit %d (undecided): %s' % (name, r.returncode, (r.stdout + r.stderr).strip()[-200:]), flush=True); continue
    t0 = time.time()
    r = subprocess.run(['timeout', '900', 'verus', out, '--rlimit', os.environ.get('BATCH_RLIMIT', '30'), '--triggers-mode', 'silent', '--multiple-errors', '2'], capture_output=True, text=True)
    dt = time.time() - t0
    o = r.stdout + r.stderr
    res = [l for l in o.splitlines() if 'verification results' in l]
    errs = []
    lines = o.splitlines()
    for i, l in enumerate(lines):
        if l.startswith('error') and 'aborting' not in l:
            tag = ''
            for k in range(i + 1, min(i + 12, len(lines))):
                m = re.search(r'\[C\d+ [^\]]+\]', lines[k])
                if m: tag = m.group(0); break
            errs.append((l[7:70].strip() + ' ' + tag).strip())
    verdict = 'REJECTED' if (r.returncode != 0) else 'PASSED(!)'
    print('%-26s %-9s %5.1fs  %s | %s' % (name, verdict, dt, res[0].split('::')[1].strip() if res else 'no result (rustc error?)', '; '.join(errs[:4])), flush=True)
