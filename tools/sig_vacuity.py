#!/usr/bin/env python3
"""Vacuity probe for unit SIG: `assert(false)` is spliced at the end of every extracted (non external_body) function body of
contracts/sig.vx (template copy, /repo untouched); every probe must FAIL. Usage: python3 tools/sig_vacuity.py"""
import re, subprocess, os, sys
V = "/verif"
src = open(V + "/contracts/sig.vx").read().split("\n")
out = []; i = 0; n = 0
while i < len(src):
    l = src[i]
    if re.match(r"//@fn |//@item .* :: fn ", l.strip()):
        j = i
        while src[j].strip() != "//@endfn":
            j += 1
        blk = src[i:j]
        if not any(b.strip() == "//@ external_body" for b in blk):
            # main fn only: put the probe before any `inner`/`closure` switch
            k = next((t for t, b in enumerate(blk) if re.match(r"//@ (inner|closure) ", b.strip())), len(blk))
            blk = blk[:k] + ["//@ at-end", "//@|        proof { assert(false); } // VACUITY-PROBE %d" % n] + (["//@ outer"] if k < len(blk) else []) + blk[k:]
            if k < len(blk) - 3:
                # the closure spec lines must follow their `closure N` line: move the probe instead to just after the fn line
                pass
            n += 1
        out += blk
        i = j
    else:
        out.append(l); i += 1
tpl = V + "/contracts/sig_vacuity_tmp.vx"
open(tpl, "w").write("\n".join(out))
os.makedirs("/tmp/sigb", exist_ok=True)
try:
    p = subprocess.run([V + "/vx/target/release/vx", "/repo", tpl, "/tmp/sigb/vac.rs", "/tmp/sigb/vac.json"], capture_output=True, text=True)
    if p.returncode != 0:
        print("vx failed:", p.stderr); sys.exit(2)
    p = subprocess.run(["verus", "vac.rs", "--rlimit", "30", "--triggers-mode", "silent", "--multiple-errors", "200", "--output-json", "--time-expanded"],
                       capture_output=True, text=True, cwd="/tmp/sigb", timeout=3600)
    import json
    js = json.loads(p.stdout)
    ok = set(); bad = set()
    for m in js["times-ms"]["smt"]["smt-run-module-times"]:
        for fb in m.get("function-breakdown", []):
            (ok if fb["success"] else bad).add(fb["function"])
    # map probes to generated functions: the probe line lies inside the fn; find the enclosing `fn name` upwards
    gen = open("/tmp/sigb/vac.rs").read().split("\n")
    probed = []
    for ln, l in enumerate(gen):
        if "VACUITY-PROBE" in l:
            k = ln
            while k > 0 and not re.search(r"\bfn\s+([A-Za-z0-9_]+)", gen[k]):
                k -= 1
            probed.append(re.search(r"\bfn\s+([A-Za-z0-9_]+)", gen[k]).group(1))
    vacuous = [f for f in probed if any(o.endswith("::" + f) for o in ok) and not any(b.endswith("::" + f) for b in bad)]
    print("probes:", len(probed), "verification-results:", js.get("verification-results"))
    print("functions whose body still verifies with assert(false) at the end (VACUOUS):", vacuous)
finally:
    os.remove(tpl)
