#!/usr/bin/env python3
"""Empirical test of math axiom M5 of unit RIS (contracts/lib/ris_axioms.vx :: axiom_m5_elligator_on_curve):

    for every field element t:  (x : y : z : t') = MAP(t)  (RFC 9496 §4.3.4)  has  z != 0  and
    (x/z, y/z) satisfies  -x^2 + y^2 = 1 + d x^2 y^2     [and x y == z t', which the unit PROVES rather than assumes]

The RFC functions are re-implemented here from the RFC text (independently of the Verus spec file and of the Rust code).
The Python model itself is validated against known answers of RFC 9496: the encoding of the generator (A.1), a
non-canonical / negative rejection (A.2 style) and the first one-way-map vector (A.3).
Exit status 0 iff everything holds.
"""
import random, sys

P = 2**255 - 19
D = (-121665 * pow(121666, P - 2, P)) % P
SQRT_M1 = pow(2, (P - 1) // 4, P)
if SQRT_M1 % 2 == 1:
    SQRT_M1 = P - SQRT_M1
assert SQRT_M1 * SQRT_M1 % P == P - 1

def is_neg(x): return x % 2 == 1
def ct_abs(x): return (-x) % P if is_neg(x) else x

def sqrt_ratio_m1(u, v):
    r = (u * pow(v, 3, P)) * pow(u * pow(v, 7, P), (P - 5) // 8, P) % P
    check = v * r * r % P
    correct = check == u % P
    flipped = check == (-u) % P
    flipped_i = check == (-u * SQRT_M1) % P
    if flipped or flipped_i:
        r = SQRT_M1 * r % P
    return (correct or flipped), ct_abs(r)

def inv(x): return pow(x, P - 2, P)
# the constants, derived from their definitions with the sign conventions of the RFC numerals
SQRT_AD_MINUS_ONE = 25063068953384623474111414158702152701244531502492656460079210482610430750235
INVSQRT_A_MINUS_D = 54469307008909316920995813868745141605393597292927456921205312896311721017578
assert SQRT_AD_MINUS_ONE ** 2 % P == (-D - 1) % P
assert INVSQRT_A_MINUS_D ** 2 * (-1 - D) % P == 1
ONE_MINUS_D_SQ = (1 - D * D) % P
D_MINUS_ONE_SQ = (D - 1) ** 2 % P

def r255_map(t):
    r = SQRT_M1 * t * t % P
    u = (r + 1) * ONE_MINUS_D_SQ % P
    v = (-1 - r * D) * (r + D) % P
    was_square, s = sqrt_ratio_m1(u, v)
    s_prime = (-ct_abs(s * t % P)) % P
    s = s if was_square else s_prime
    c = (P - 1) if was_square else r
    n = (c * (r - 1) * D_MINUS_ONE_SQ - v) % P
    w0 = 2 * s * v % P
    w1 = n * SQRT_AD_MINUS_ONE % P
    w2 = (1 - s * s) % P
    w3 = (1 + s * s) % P
    return (w0 * w3 % P, w2 * w1 % P, w1 * w3 % P, w0 * w2 % P)

def on_curve(x, y): return (y * y - x * x) % P == (1 + D * x * x % P * y * y) % P

def encode(x0, y0, z0, t0):
    u1 = (z0 + y0) * (z0 - y0) % P
    u2 = x0 * y0 % P
    _, invsqrt = sqrt_ratio_m1(1, u1 * u2 * u2 % P)
    den1 = invsqrt * u1 % P
    den2 = invsqrt * u2 % P
    z_inv = den1 * den2 * t0 % P
    ix0 = x0 * SQRT_M1 % P
    iy0 = y0 * SQRT_M1 % P
    ench = den1 * INVSQRT_A_MINUS_D % P
    rotate = is_neg(t0 * z_inv % P)
    x, y, den_inv = (iy0, ix0, ench) if rotate else (x0, y0, den2)
    if is_neg(x * z_inv % P):
        y = (-y) % P
    return ct_abs(den_inv * (z0 - y) % P).to_bytes(32, "little")

def decode(b):
    s = int.from_bytes(b, "little")
    if s >= P or is_neg(s):
        return None
    ss = s * s % P
    u1 = (1 - ss) % P
    u2 = (1 + ss) % P
    u2_sqr = u2 * u2 % P
    v = (-(D * u1 * u1) - u2_sqr) % P
    was_square, invsqrt = sqrt_ratio_m1(1, v * u2_sqr % P)
    den_x = invsqrt * u2 % P
    den_y = invsqrt * den_x * v % P
    x = ct_abs(2 * s * den_x % P)
    y = u1 * den_y % P
    t = x * y % P
    if (not was_square) or is_neg(t) or y == 0:
        return None
    return (x, y, 1, t)

def ed_add(p1, p2):
    (x1, y1), (x2, y2) = p1, p2
    k = D * x1 * x2 % P * y1 * y2 % P
    return ((x1 * y2 + y1 * x2) * inv(1 + k) % P, (y1 * y2 + x1 * x2) * inv(1 - k) % P)

def affine(q): return (q[0] * inv(q[2]) % P, q[1] * inv(q[2]) % P)

fails = 0
def check(c, what):
    global fails
    if not c:
        fails += 1
        print("FAIL:", what)

# ---- validation of the Python model against RFC 9496 known answers ----
B_ENC = bytes.fromhex("e2f2ae0a6abc4e71a884a961c500515f58e30b6aa582dd8db6a65945e08d2d76")   # A.1: encoding of the generator
q = decode(B_ENC)
check(q is not None and on_curve(q[0], q[1]) and encode(*q) == B_ENC, "A.1 generator decodes / re-encodes")
check(decode(bytes(32)) == (0, 1, 1, 0) and encode(0, 1, 1, 0) == bytes(32), "identity is the all-zero string")
check(decode((P).to_bytes(32, "little")) is None, "non-canonical field element (s = p) rejected")
check(decode((1).to_bytes(32, "little")) is None, "negative field element (s = 1) rejected")
A3_IN = bytes.fromhex("5d1be09e3d0c82fc538112490e35701979d99e06ca3e2b5b54bffe8b4dc772c1"
                      "4d98b696a1bbfb5ca32c436cc61c16563790306c79eaca7705668b47dffe5bb6")
A3_OUT = bytes.fromhex("3066f82a1a747d45120d1740f14358531a8f04bbffe6a819f86dfe50f44a0a46")
def map_input(b): return (int.from_bytes(b, "little") % 2**255) % P
p1 = affine(r255_map(map_input(A3_IN[:32])))
p2 = affine(r255_map(map_input(A3_IN[32:])))
sx, sy = ed_add(p1, p2)
check(encode(sx, sy, 1, sx * sy % P) == A3_OUT, "A.3 one-way map vector 1")

# ---- axiom M5 ----
random.seed(9496)
special = [0, 1, P - 1, 2, P - 2, SQRT_M1, P - SQRT_M1, (P - 1) // 2, (P + 1) // 2, D, P - D, SQRT_AD_MINUS_ONE, INVSQRT_A_MINUS_D, 121665, 121666]
# inputs making u == 0 (r == -1) or v == 0 (r == -d, r == -1/d), when such t exist: t^2 = r / i
for r_target in [P - 1, (-D) % P, (-inv(D)) % P, 1, 0]:
    t2 = r_target * inv(SQRT_M1) % P
    ok, t = sqrt_ratio_m1(t2, 1)
    if ok:
        special += [t, (P - t) % P]
tests = special + [random.randrange(P) for _ in range(2000)]
for t in tests:
    x, y, z, tt = r255_map(t)
    check(z != 0, "M5: z != 0 for t=%d" % t)
    if z != 0:
        ax, ay = affine((x, y, z, tt))
        check(on_curve(ax, ay), "M5: on curve for t=%d" % t)
    check(x * y % P == z * tt % P, "x y == z t for t=%d" % t)
print("test_ris_axioms: %d inputs for M5 (%d special, 2000 random), %d known-answer checks; %d failure(s)" % (len(tests), len(special), 6, fails))
sys.exit(1 if fails else 0)
