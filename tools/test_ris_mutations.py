#!/usr/bin/env python3
"""Mutation (sensitivity) checks for unit RIS: each mutation edits a COPY of the repo sources under /tmp/ris/mrepo,
re-extracts with vx and runs verus; the mutated unit must FAIL, and the failing tagged clauses are reported.
Usage: tools/test_ris_mutations.py [name-substring]      (never touches /repo)
"""
import os, re, shutil, subprocess, sys, time
V = "/verif"
SRC = "/repo"
M = "/tmp/ris/mrepo"
RIS = "curve25519-dalek/src/ristretto.rs"
CM = "curve25519-dalek/src/backend/serial/curve_models/mod.rs"
K64 = "curve25519-dalek/src/backend/serial/u64/constants.rs"
MUTS = [
    # decompress: remove each of the five rejection tests
    ("decompress.drop-canonical-check", RIS, "if (!s_encoding_is_canonical | s_is_negative).into() {", "if (s_is_negative).into() {"),
    ("decompress.drop-negative-s-check", RIS, "if (!s_encoding_is_canonical | s_is_negative).into() {", "if (!s_encoding_is_canonical).into() {"),
    ("decompress.drop-was-square-check", RIS, "if (!ok | t_is_negative | y_is_zero).into() {", "if (t_is_negative | y_is_zero).into() {"),
    ("decompress.drop-negative-t-check", RIS, "if (!ok | t_is_negative | y_is_zero).into() {", "if (!ok | y_is_zero).into() {"),
    ("decompress.drop-y-zero-check", RIS, "if (!ok | t_is_negative | y_is_zero).into() {", "if (!ok | t_is_negative).into() {"),
    ("step_1.canonical-check-compares-with-itself", RIS, "s_bytes_check[..].ct_eq(repr.as_bytes())", "s_bytes_check[..].ct_eq(&s_bytes_check)"),
    ("step_2.swap-u1-u2", RIS, "let u1 = &one - &ss; //  1 + as²", "let u1 = &one + &ss; //  1 + as²"),
    ("step_2.drop-abs-x", RIS, "        x.conditional_negate(x_neg);\n", ""),
    ("step_2.y-zero-tests-x", RIS, "            y.is_zero(),", "            x.is_zero(),"),
    # compress
    ("compress.invert-rotate", RIS, "let rotate = (T * &z_inv).is_negative();", "let rotate = !(T * &z_inv).is_negative();"),
    ("compress.rotate-x-with-ix", RIS, "X.conditional_assign(&iY, rotate);", "X.conditional_assign(&iX, rotate);"),
    ("compress.drop-abs-s", RIS, "        let s_is_negative = s.is_negative();\n        s.conditional_negate(s_is_negative);\n\n        CompressedRistretto(s.as_bytes())\n    }\n\n    /// Double-and-compress", "        CompressedRistretto(s.as_bytes())\n    }\n\n    /// Double-and-compress"),
    ("compress.wrong-magic-constant", RIS, "let ristretto_magic = &constants::INVSQRT_A_MINUS_D;", "let ristretto_magic = &constants::SQRT_AD_MINUS_ONE;"),
    ("compress.drop-y-sign-fix", RIS, "        Y.conditional_negate((&X * &z_inv).is_negative());\n", ""),
    # equality
    ("ct_eq.and-instead-of-or", RIS, "X1Y2.ct_eq(&Y1X2) | X1X2.ct_eq(&Y1Y2)", "X1Y2.ct_eq(&Y1X2) & X1X2.ct_eq(&Y1Y2)"),
    # elligator
    ("elligator.wrong-constant-in-N_s", RIS, "let N_s = &(&r + &one) * one_minus_d_sq;", "let N_s = &(&r + &one) * d_minus_one_sq;"),
    ("elligator.s_prime-sign", RIS, "let s_prime_is_pos = !s_prime.is_negative();", "let s_prime_is_pos = s_prime.is_negative();"),
    ("elligator.c-select-inverted", RIS, "c.conditional_assign(&r, !Ns_D_is_sq);", "c.conditional_assign(&r, Ns_D_is_sq);"),
    ("elligator.swap-Y-T", RIS, "Y: &FieldElement::ONE - &s_sq,\n                T: &FieldElement::ONE + &s_sq,", "Y: &FieldElement::ONE + &s_sq,\n                T: &FieldElement::ONE - &s_sq,"),
    ("as_extended.X-times-Z", CM, "X: &self.X * &self.T,\n            Y: &self.Y * &self.Z,\n            Z: &self.Z * &self.T,\n            T: &self.X * &self.Y,", "X: &self.X * &self.Z,\n            Y: &self.Y * &self.Z,\n            Z: &self.Z * &self.T,\n            T: &self.X * &self.Y,"),
    # one-way map / wrappers
    ("from_uniform_bytes.second-half-is-first-half", RIS, "r_2_bytes.copy_from_slice(&bytes[32..64]);", "r_2_bytes.copy_from_slice(&bytes[0..32]);"),
    ("neg.identity-instead-of-neg", RIS, "RistrettoPoint(-&self.0)", "RistrettoPoint(self.0)"),
    ("sub.adds", RIS, "RistrettoPoint(self.0 - other.0)", "RistrettoPoint(self.0 + other.0)"),
    # a sign flip of a constant: still satisfies the defining equation x^2 == -d-1 (so unit CONST64 cannot see it), but is not the RFC numeral
    ("const.SQRT_AD_MINUS_ONE-negated", K64, "    2241493124984347,\n    425987919032274,\n    2207028919301688,\n    1220490630685848,\n    974799131293748,\n",
     "    10306688700882,\n    1825811894652973,\n    44770894383559,\n    1031309182999399,\n    1277000682391499,\n"),
    ("coset4.wrong-torsion-index", RIS, "self.0 + constants::EIGHT_TORSION[4],", "self.0 + constants::EIGHT_TORSION[3],"),
]
def run(name, rel, old, new):
    os.makedirs("/tmp/ris", exist_ok=True)
    if os.path.exists(M):
        shutil.rmtree(M)
    shutil.copytree(os.path.join(SRC, "curve25519-dalek/src"), os.path.join(M, "curve25519-dalek/src"))
    p = os.path.join(M, rel)
    s = open(p).read()
    if s.count(old) != 1:
        return name, "MUTATION-NOT-APPLICABLE (%d occurrences)" % s.count(old), 0.0
    open(p, "w").write(s.replace(old, new))
    out = "/tmp/ris/mut.rs"
    r = subprocess.run([V + "/vx/target/release/vx", M, V + "/contracts/ris.vx", out, "/tmp/ris/mut.json"], capture_output=True, text=True)
    if r.returncode != 0:
        return name, "vx exit %d (undecided): %s" % (r.returncode, (r.stderr or r.stdout).strip()[:200]), 0.0
    t0 = time.time()
    r = subprocess.run(["timeout", "900", "verus", out, "--rlimit", "100", "--triggers-mode", "silent"], capture_output=True, text=True, cwd="/tmp/ris")
    dt = time.time() - t0
    txt = r.stdout + r.stderr
    m = re.search(r"verification results:: (\d+) verified, (\d+) errors", txt)
    # map failing lines to their tag comment (verus truncates long source lines in its diagnostics)
    src = open(out).read().split("\n")
    tags = set()
    for ln in re.findall(r"--> (?:/tmp/ris/)?mut\.rs:(\d+):", txt):
        t = re.search(r"\[(C\d\d RIS[^\]]*)\]", src[int(ln) - 1])
        if t:
            tags.add(t.group(1))
    tags = sorted(tags)
    if m and int(m.group(2)) == 0 and r.returncode == 0:
        return name, "SURVIVED (verus still passes!)", dt
    other = "" if m else " [no result line: rustc/verus error] " + txt.strip()[:300]
    return name, "killed: %s error(s); failing clauses: %s%s" % (m.group(2) if m else "?", ", ".join(tags) if tags else "(untagged obligation)", other), dt
sel = sys.argv[1] if len(sys.argv) > 1 else ""
bad = 0
for mu in MUTS:
    if sel in mu[0]:
        n, res, dt = run(*mu)
        print("%-48s %s  (%.0f s)" % (n, res, dt), flush=True)
        if not res.startswith("killed"):
            bad += 1
shutil.rmtree(M, ignore_errors=True)
sys.exit(1 if bad else 0)
