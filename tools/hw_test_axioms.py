#!/usr/bin/env python3
"""Empirical test of math axiom M6 of unit HW (contracts/lib/hw_axioms.vx :: axiom_m6_elligator2_on_curve):

    for every field element r (0 <= r < p):   u = elligator2_u(r)   (RFC 9380 §6.7.1 for curve25519, u-coordinate)  satisfies
        (a)  u != p - 1                                   (u = -1 is the one exceptional point of y = (u-1)/(u+1)), and
        (b)  ed_y_decodable(rfc7748_u_to_y(u))            (y = (u-1)/(u+1) admits an x with -x^2 + y^2 = 1 + d x^2 y^2,
                                                            i.e. u is on curve25519, NOT on its twist)

i.e. exactly the negation of the `None` condition in MONT's contract of MontgomeryPoint::to_edwards
    r.is_none() <==> (mp_u(*self) == p() - 1 || !ed_y_decodable(rfc7748_u_to_y(mp_u(*self))))
at mp_u == elligator2_u(fe(r_0)) (MONT's contract of elligator_encode). If (a) or (b) failed for some r,
`EdwardsPoint::nonspec_map_to_curve` would PANIC in its `.expect(..)`.

Two independent models are evaluated and compared on every input:
  S  the Verus spec functions of contracts/lib/mont_spec.vx / edwards_spec.vx, transliterated (elligator2_x1, elligator2_gx,
     elligator2_u with `is_sq_ratio(gx, 1)`, rfc7748_u_to_y, on_curve, ed_y_decodable by an explicit witness x)
  C  the dataflow of the Rust code (montgomery.rs elligator_encode + to_edwards + edwards.rs decompress step_1, with the real
     sqrt_ratio_i candidate formula) — "to_edwards returns Some"
plus the textbook facts the pen-and-paper proof uses (2, A^2-4, A-2 non-squares; -1, -(A+2) squares).
Inputs: corner cases (0, +-1, small, near p, sqrt(-1) multiples, every r with r^2 in a list of special values, would-be roots of
1 + 2 r^2 (none exist), preimages of special x1 values) and N random r (default 6000; `hw_test_axioms.py N [seed]`; 20000 were run
when the axiom was introduced: PASS).
Exit status 0 iff no counterexample; 1 with the offending r printed otherwise.
"""
import random, sys

P = 2**255 - 19
A = 486662
D = (-121665 * pow(121666, P - 2, P)) % P
ED_D_NUMERAL = 37095705934669439343138083508754565189542113879843219016388785533085940283555
assert D == ED_D_NUMERAL
SQRT_M1 = 19681161376707505956807079304988542015446066515923890162744021073123829784752
assert SQRT_M1 * SQRT_M1 % P == P - 1


def inv(x): return pow(x, P - 2, P)          # finv: 0 -> 0
def legendre(x): return pow(x % P, (P - 1) // 2, P)   # 0, 1 or P-1
def is_square(x): return legendre(x) != P - 1          # 0 counts as a square (is_sq_ratio(0, 1) holds with x = 0)


def sqrt_mod(a):
    """a square root of a mod P (P = 5 mod 8), or None"""
    a %= P
    if a == 0:
        return 0
    c = pow(a, (P + 3) // 8, P)
    if c * c % P == a:
        return c
    c = c * SQRT_M1 % P
    if c * c % P == a:
        return c
    return None


# ---------------- model S: the Verus spec functions ----------------
def fadd(a, b): return (a + b) % P
def fsub(a, b): return (a - b) % P
def fneg(a): return (0 - a) % P
def fmul(a, b): return (a * b) % P
def fsq(a): return (a * a) % P
def finv(a): return pow(a, P - 2, P)
def fdiv(a, b): return fmul(a, finv(b))


def is_sq_ratio(u, v):
    """exists x in [0,p): fmul(v, fsq(x)) == u      (decided with an explicit witness)"""
    if v % P == 0:
        return u == 0
    t = sqrt_mod(u * inv(v))
    if t is None:
        return False
    assert fmul(v, fsq(t)) == u
    return True


def elligator2_x1(r): return fmul(P - A, finv(fadd(1, fmul(2, fsq(r)))))
def elligator2_gx(x): return fmul(x, fadd(fadd(fsq(x), fmul(A, x)), 1))
def elligator2_u(r):
    x1 = elligator2_x1(r)
    return x1 if is_sq_ratio(elligator2_gx(x1), 1) else fneg(fadd(x1, A))
def rfc7748_u_to_y(u): return fdiv(fsub(u, 1), fadd(u, 1))
def on_curve(x, y):
    return 0 <= x < P and 0 <= y < P and fsub(fsq(y), fsq(x)) == fadd(1, fmul(D, fmul(fsq(x), fsq(y))))
def ed_y_decodable(y):
    """exists x: on_curve((x, y)) — decided by solving x^2 (1 + d y^2) = y^2 - 1 and CHECKING the witness with on_curve"""
    den = fadd(1, fmul(D, fsq(y)))
    assert den != 0                      # -1/d is a non-square
    x = sqrt_mod(fmul(fsub(fsq(y), 1), finv(den)))
    if x is None:
        return False
    assert on_curve(x, y)
    return True


# ---------------- model C: the code's dataflow ----------------
def sqrt_ratio_i(u, v):
    v3 = v * v % P * v % P
    v7 = v3 * v3 % P * v % P
    r = (u * v3) % P * pow(u * v7 % P, (P - 5) // 8, P) % P
    check = v * r % P * r % P
    correct = check == u % P
    flipped = check == (-u) % P
    flipped_i = check == (-u) * SQRT_M1 % P
    if flipped or flipped_i:
        r = r * SQRT_M1 % P
    if r % 2 == 1:
        r = P - r
    return (correct or flipped), r


def code_elligator_encode(r0):
    d_1 = (1 + 2 * r0 * r0) % P
    d = (P - A) * inv(d_1) % P
    eps = d * ((d * d + A * d + 1) % P) % P
    eps_is_sq, _ = sqrt_ratio_i(eps, 1)
    atemp = 0 if eps_is_sq else A
    u = (d + atemp) % P
    if not eps_is_sq:
        u = (-u) % P
    return u


def code_to_edwards_is_some(u):
    if u == P - 1:
        return False
    y = (u - 1) * inv((u + 1) % P) % P
    yy = y * y % P
    uu = (yy - 1) % P
    vv = (yy * D + 1) % P
    ok, x = sqrt_ratio_i(uu, vv)
    return ok


# ---------------- the check ----------------
def check(r, tag):
    r %= P
    u = elligator2_u(r)
    bad = []
    if u == P - 1:
        bad.append("(a) u == p-1")
    if not ed_y_decodable(rfc7748_u_to_y(u)):
        bad.append("(b) y=(u-1)/(u+1) not decodable (u on the twist)")
    uc = code_elligator_encode(r)
    if uc != u:
        bad.append("spec model S and code model C disagree on u: %d vs %d" % (u, uc))
    if not code_to_edwards_is_some(uc):
        bad.append("code model: to_edwards returns None")
    # the reason it holds: g(u) = u^3 + A u^2 + u is a square
    if not is_square(elligator2_gx(u)):
        bad.append("g(u) is a non-square")
    if bad:
        print("COUNTEREXAMPLE [%s] r = %d (0x%064x)\n   u = %d\n   %s" % (tag, r, r, u, "; ".join(bad)))
        print("   32-byte little-endian pattern of r (res[..32] of the digest, bit 255 free): %s" % r.to_bytes(32, "little").hex())
        return False
    return True


def main():
    n = int(sys.argv[1]) if len(sys.argv) > 1 else 6000
    seed = int(sys.argv[2]) if len(sys.argv) > 2 else 20261004
    rng = random.Random(seed)
    ok = True
    # textbook facts used by the pen-and-paper / Lean proof
    facts = [
        ("2 is a non-square", legendre(2) == P - 1),
        ("-1 is a square", legendre(P - 1) == 1),
        ("-1/2 is a non-square (so 1 + 2 r^2 != 0 for every r)", legendre((P - 1) * inv(2)) == P - 1),
        ("A^2 - 4 is a non-square (so u^2 + A u + 1 != 0)", legendre(A * A - 4) == P - 1),
        ("A - 2 = 486660 is a non-square (so u = -1 is on the twist)", legendre(A - 2) == P - 1),
        ("A + 2 is a square", legendre(A + 2) == 1),
        ("-(A + 2) is a square", legendre(-(A + 2)) == 1),
        ("d = -(A-2)/(A+2)", D == (-(A - 2)) * inv(A + 2) % P),
        ("d is a non-square", legendre(D) == P - 1),
        ("g(-1) = A - 2", elligator2_gx(P - 1) == A - 2),
    ]
    for name, val in facts:
        print("fact: %-62s %s" % (name, "ok" if val else "FALSE"))
        ok &= val
    # corner cases
    corner = {}
    def add(v, tag): corner.setdefault(v % P, tag)
    for k in range(0, 2001):
        add(k, "small %d" % k); add(-k, "p-%d" % k)
    add(2**255 - 1, "2^255-1 mod p"); add(2**255 - 19, "p mod p"); add(2**254, "2^254"); add((P - 1) // 2, "(p-1)/2"); add((P + 1) // 2, "(p+1)/2")
    for k in range(1, 40):
        add(SQRT_M1 * k, "k*sqrt(-1)"); add(inv(k), "1/%d" % k); add(2**k, "2^k"); add(2**(255 - k), "2^(255-k)")
    # would-be zeros of 1 + 2 r^2: r = sqrt(-1/2)
    s = sqrt_mod((P - 1) * inv(2))
    print("sqrt(-1/2) exists: %s" % (s is not None))
    if s is not None:
        add(s, "sqrt(-1/2)"); add(-s, "-sqrt(-1/2)")
    # r with special x1 = -A/(1+2r^2):  x1 in {-1, 0, 1, -A, -A/2, A, ...}  <=>  r^2 = (-A/x1 - 1)/2
    for x1, nm in [(P - 1, "-1"), (1, "1"), (P - A, "-A"), (A, "A"), ((P - A) * inv(2) % P, "-A/2"), (P - A + 1, "1-A"), (P - A - 1, "-1-A"), (2, "2"), (P - 2, "-2")]:
        t = sqrt_mod(((P - A) * inv(x1) - 1) * inv(2))
        if t is not None:
            add(t, "x1 == %s" % nm); add(-t, "x1 == %s (neg root)" % nm)
    # r with u == target for targets near the exceptional points: solve both branches
    for target, nm in [(P - 1, "-1"), (0, "0"), (1, "1"), (P - A, "-A"), (P - A + 1, "1-A")]:
        for x1 in (target, (-target - A) % P):
            if x1 == 0:
                continue
            t = sqrt_mod(((P - A) * inv(x1) - 1) * inv(2))
            if t is not None:
                add(t, "x1 or x2 == %s" % nm); add(-t, "x1 or x2 == %s (neg root)" % nm)
    # r^2 in special set
    for v in [2, 3, P - 2, inv(2), A, P - A, A - 2, A + 2, A * A - 4]:
        t = sqrt_mod(v)
        if t is not None:
            add(t, "r^2 == special"); add(-t, "r^2 == special")
    ncorner = 0
    for v, tag in sorted(corner.items()):
        ok &= check(v, tag); ncorner += 1
    # u == -1 reachable?  (x1 == -1 or x2 == -1 = -x1 - A  i.e. x1 == 1 - A)
    hits = [v for v in corner if elligator2_x1(v) in (P - 1, (1 - A) % P)]
    print("corner inputs whose x1 or x2 equals -1: %d (the map then takes the other branch)" % len(hits))
    # random
    nsq = 0
    for i in range(n):
        r = rng.randrange(P)
        ok &= check(r, "random #%d" % i)
        nsq += is_sq_ratio(elligator2_gx(elligator2_x1(r)), 1)
    print("corner cases: %d, random: %d (x1 branch taken %d times, x2 branch %d times)" % (ncorner, n, nsq, n - nsq))
    # sign-bit sweep as in the caller: r = low 255 bits of 32 bytes reduced mod p — both values of bit 255 give the same r
    print("RESULT: %s" % ("PASS" if ok else "FAIL"))
    sys.exit(0 if ok else 1)


if __name__ == "__main__":
    main()
