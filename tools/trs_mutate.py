#!/usr/bin/env python3
"""Mutation suite for unit TRS (contracts/trs.vx: provided methods of traits.rs, Sum / Product for Scalar, Sum for EdwardsPoint).

usage: tools/trs_mutate.py [--rlimit N] [--jobs K] [--keep] [label ...]        (no label = the whole suite; K <= 4; default rlimit 30, jobs 2)

The source files the template reads are copied into a FAKE repo root /tmp/trs_mut/<label>/mrepo (same relative paths; /repo is never touched), ONE piece of
text of ONE file is replaced (the k-th occurrence), vx re-extracts from the fake root, verus re-verifies the whole generated file. Verdict per mutant:
    KILLED      verus reports >= 1 verification error (the failed obligations are listed); `KILLED(rlimit)` = every error is `rlimit exceeded`
    SURVIVED    verus verifies the mutated source (equivalent mutant, or a hole in the contract)
    UNDECIDED   vx exit != 0 (lost anchor / pinned text), or verus stops with a NON-verdict error (rustc type error, unsupported feature): nothing was decided
Label `t3p` runs the PROVIDER unit of the stub that hides the mutated code (clamp_integer: contracts/sgr.vx) instead of trs.vx.
/tmp/trs_mut is removed at the end unless --keep.
"""
import os, re, shutil, subprocess, sys, time
from concurrent.futures import ThreadPoolExecutor

ROOT = '/verif'
VX = f'{ROOT}/vx/target/release/vx'
TMP = '/tmp/trs_mut'
SC = 'curve25519-dalek/src/scalar.rs'
ED = 'curve25519-dalek/src/edwards.rs'
TR = 'curve25519-dalek/src/traits.rs'
SUM_S = 'iter.fold(Scalar::ZERO, |acc, item| acc + item.borrow())'
PRD_S = 'iter.fold(Scalar::ONE, |acc, item| acc * item.borrow())'
SUM_E = 'iter.fold(EdwardsPoint::identity(), |acc, item| acc + item.borrow())'
MAPC = '.map(|P| Some(P.borrow().clone()))'
# label -> (template, file, old, new, occurrence (1-based), what)
MUTANTS = {
    's1': ('trs', SC, SUM_S, 'iter.fold(Scalar::ONE, |acc, item| acc + item.borrow())', 1, 'Scalar::sum starts from ONE'),
    's2': ('trs', SC, PRD_S, 'iter.fold(Scalar::ZERO, |acc, item| acc * item.borrow())', 1, 'Scalar::product starts from ZERO'),
    's3': ('trs', SC, SUM_S, 'iter.fold(Scalar::ZERO, |acc, item| acc - item.borrow())', 1, 'Scalar::sum: acc - item'),
    's4': ('trs', SC, SUM_S, 'iter.fold(Scalar::ZERO, |acc, item| acc * item.borrow())', 1, 'Scalar::sum: acc * item'),
    's5': ('trs', SC, SUM_S, 'iter.skip(1).fold(Scalar::ZERO, |acc, item| acc + item.borrow())', 1, 'Scalar::sum drops the first item (iter.skip(1))'),
    's6': ('trs', SC, PRD_S, 'iter.fold(Scalar::ONE, |acc, item| acc + item.borrow())', 1, 'Scalar::product: acc + item'),
    's7': ('trs', SC, SUM_S, 'iter.fold(Scalar::ZERO, |acc, item| acc + &acc)', 1, 'Scalar::sum ignores the items (acc + &acc)'),
    's8': ('trs', SC, PRD_S, 'iter.skip(1).fold(Scalar::ONE, |acc, item| acc * item.borrow())', 1, 'Scalar::product drops the first item'),
    'e1': ('trs', ED, SUM_E, 'iter.fold(constants::ED25519_BASEPOINT_POINT, |acc, item| acc + item.borrow())', 1, 'EdwardsPoint::sum starts from the basepoint'),
    'e2': ('trs', ED, SUM_E, 'iter.fold(EdwardsPoint::identity(), |acc, item| acc - item.borrow())', 1, 'EdwardsPoint::sum: acc - item'),
    'e3': ('trs', ED, SUM_E, 'iter.skip(1).fold(EdwardsPoint::identity(), |acc, item| acc + item.borrow())', 1, 'EdwardsPoint::sum drops the first item'),
    'e4': ('trs', ED, SUM_E, 'iter.fold(EdwardsPoint::identity(), |acc, item| acc + &acc)', 1, 'EdwardsPoint::sum ignores the items (acc + &acc)'),
    't1': ('trs', TR, 'bytes: clamp_integer(bytes),', 'bytes: bytes,', 1, 'mul_base_clamped without clamping'),
    't2': ('trs', TR, 'bytes: clamp_integer(bytes),', 'bytes: clamp_integer(clamp_integer(bytes)),', 1, 'mul_base_clamped clamps twice (EQUIVALENT: clamping is idempotent on the value)'),
    't3': ('trs', TR, '        self.mul_base(&s)\n', '        let mut s = s;\n        s.bytes[31] |= 0b1000_0000;\n        self.mul_base(&s)\n', 1, 'mul_base_clamped sets bit 255 after clamping (wrong mask applied to the clamped scalar)'),
    't3p': ('sgr', SC, 'bytes[31] &= 0b0111_1111;', 'bytes[31] &= 0b1111_1111;', 1, 'clamp_integer: wrong byte mask (bit 255 kept) — the body is a STUB in TRS; run against its provider unit SGR'),
    't3q': ('trs', SC, 'bytes[31] &= 0b0111_1111;', 'bytes[31] &= 0b1111_1111;', 1, 'same mutant against TRS itself (expected SURVIVED: clamp_integer is assumed here, proved in SGR)'),
    't4': ('trs', TR, MAPC, '.map(|P| None)', 1, 'vartime_multiscalar_mul maps every point to None'),
    't4b': ('trs', TR, MAPC, '.map(|P| None)', 2, 'vartime_mixed_multiscalar_mul maps every dynamic point to None'),
    't5': ('trs', TR, '.expect("should return some point")', '.unwrap_or(Self::Point::identity())', 1, '.expect -> .unwrap_or(identity) (does not type-check in the generic trait: expected UNDECIDED)'),
    't5b': ('trs', TR, '.expect("should return some point")', '.unwrap()', 1, 'CONTROL: .expect -> .unwrap() (equivalent: must SURVIVE)'),
    't6': ('trs', TR, '            self,\n            static_scalars,\n            dynamic_scalars,\n            dynamic_points.into_iter()', '            self,\n            dynamic_scalars,\n            static_scalars,\n            dynamic_points.into_iter()', 1,
           'vartime_mixed_multiscalar_mul passes (dynamic_scalars, static_scalars) swapped'),
    't7': ('trs', TR, '            static_scalars,\n            iter::empty::<Scalar>(),', '            iter::empty::<Scalar>(),\n            static_scalars,', 1, 'precomputed vartime_multiscalar_mul passes the static scalars as DYNAMIC scalars'),
    't8': ('trs', TR, 'points.into_iter().map(|P|', 'points.into_iter().skip(1).map(|P|', 1, 'vartime_multiscalar_mul drops the first point'),
    't9': ('trs', TR, '            scalars,\n            points.into_iter()', '            core::iter::empty::<Scalar>(),\n            points.into_iter()', 1, 'vartime_multiscalar_mul ignores the scalars'),
}
FILES = {
    'trs': ['curve25519-dalek/src/scalar.rs', 'curve25519-dalek/src/edwards.rs', 'curve25519-dalek/src/traits.rs', 'curve25519-dalek/src/window.rs',
            'curve25519-dalek/src/backend/mod.rs', 'curve25519-dalek/src/backend/serial/scalar_mul/precomputed_straus.rs',
            'curve25519-dalek/src/backend/serial/curve_models/mod.rs', 'curve25519-dalek/src/macros.rs'],
    'sgr': None,   # filled from the vx log of the unmutated tree
}
NONVERDICT = re.compile(r'error(\[E\d+\])?: (mismatched types|no function or associated item|cannot find|the trait bound|.*is not supported|.*not yet supported|no method named|unresolved|type annotations needed|expected .* found)')


def files_of(tpl):
    if FILES.get(tpl):
        return FILES[tpl]
    d = f'{TMP}/_probe_{tpl}'
    os.makedirs(d, exist_ok=True)
    r = subprocess.run([VX, '/repo', f'{ROOT}/contracts/{tpl}.vx', f'{d}/x.rs', f'{d}/x.json'], capture_output=True, text=True)
    assert r.returncode == 0, r.stderr
    import json
    FILES[tpl] = [x for x in json.load(open(f'{d}/x.json'))['files'] if not x.startswith('@')]
    return FILES[tpl]


def run_verus(path, rlimit, cwd):
    t = time.time()
    r = subprocess.run(['timeout', '1200', 'verus', path, '--rlimit', str(rlimit), '--triggers-mode', 'silent', '--multiple-errors', '4'], capture_output=True, text=True, cwd=cwd)
    dt = time.time() - t
    txt = r.stdout + r.stderr
    lines = txt.split('\n')
    errs = []
    for i, l in enumerate(lines):
        if l.startswith('error') and 'aborting' not in l:
            ctx = ' | '.join(x.strip() for x in lines[i + 1:i + 9] if re.search(r'^\s*\d+ \|', x))
            errs.append(l + '  ::  ' + ctx[:240])
    res = [l for l in lines if 'verification results' in l]
    return res, errs, dt, txt, r.returncode


def mutant(label, rlimit):
    tpl, f, old, new, nth, what = MUTANTS[label]
    d = f'{TMP}/{label}'
    root = f'{d}/mrepo'
    shutil.rmtree(d, ignore_errors=True)
    for x in files_of(tpl):
        os.makedirs(os.path.dirname(f'{root}/{x}'), exist_ok=True)
        shutil.copy(f'/repo/{x}', f'{root}/{x}')
    s = open(f'{root}/{f}').read()
    parts = s.split(old)
    assert len(parts) > nth, (label, 'text occurs', len(parts) - 1, 'times')
    s = old.join(parts[:nth]) + new + old.join(parts[nth:])
    open(f'{root}/{f}', 'w').write(s)
    out = f'{d}/{tpl}_{label}.rs'
    r = subprocess.run([VX, root, f'{ROOT}/contracts/{tpl}.vx', out, out + '.json'], capture_output=True, text=True)
    if r.returncode != 0:
        last = r.stderr.strip().splitlines()[-1] if r.stderr.strip() else ''
        return f'== {label}: UNDECIDED (vx exit {r.returncode}: {last})   [{what}]'
    res, errs, dt, txt, rc = run_verus(out, rlimit, d)
    if res and ', 0 errors' in res[0] and not errs and rc == 0:
        verdict = 'SURVIVED'
    elif not res or any(NONVERDICT.search(e) for e in errs):
        verdict = 'UNDECIDED (non-verdict error)'
    elif errs and all('Resource limit' in e for e in errs):
        verdict = 'KILLED(rlimit)'
    else:
        verdict = 'KILLED'
    msg = f'== {label}: {verdict} {res} {dt:.1f}s   [{what}]'
    if not res and not errs:
        msg += '\n' + txt[-800:]
    for e in errs[:4]:
        msg += '\n      ' + e
    return msg


def main():
    a = sys.argv[1:]
    rl, jobs, keep = 30, 2, False
    labels = []
    while a:
        x = a.pop(0)
        if x == '--rlimit':
            rl = int(a.pop(0))
        elif x == '--jobs':
            jobs = min(4, int(a.pop(0)))
        elif x == '--keep':
            keep = True
        else:
            labels.append(x)
    labels = labels or list(MUTANTS)
    os.makedirs(TMP, exist_ok=True)
    for t in {MUTANTS[l][0] for l in labels}:
        files_of(t)
    with ThreadPoolExecutor(max_workers=jobs) as ex:
        for m in ex.map(lambda l: mutant(l, rl), labels):
            print(m, flush=True)
    if not keep:
        shutil.rmtree(TMP, ignore_errors=True)


if __name__ == '__main__':
    main()
