#!/usr/bin/env python3
"""Mutation and vacuity checks for unit IFMAE (contracts/ifmae.vx: the AVX-512 IFMA point layer, backend/vector/ifma/edwards.rs).
  python3 tools/ifmae_mutate.py [-j N] [name ...]   mutants: ONE textual change of ifma/edwards.rs (kind "src") in a fake repo root /tmp/ifmae_mut/<name>/mrepo
                                                    (only the files the template reads are copied, paths preserved; /repo is never touched), re-extracted
                                                    with vx against the UNCHANGED template and re-verified; kind "tpl" = a SPECIFICATION mutant: one change of a
                                                    scratch copy of the template (a precondition dropped), real sources.
                                                    killed = Verus rejects; undecided = vx refuses (lost anchor ..); SURVIVED = still verifies.
  python3 tools/ifmae_mutate.py --vacuity [name ..] on a scratch copy of the GENERATED file: the body of every verified exec fn (stubs have none) and of every proof
                                                    fn is wrapped as `{ let r = { BODY }; assert(false); r }`; every probe must be REJECTED.
  python3 tools/ifmae_mutate.py --clean             remove /tmp/ifmae_mut
Environment: RL (verus --rlimit, default 30; the unmutated unit needs < 0.7 of rlimit 100 in its largest function), REPO (default /repo)."""
import json, os, re, shutil, subprocess, sys, time
from concurrent.futures import ThreadPoolExecutor
VERIF = "/verif"
REPO = os.environ.get("REPO", "/repo")
E = "curve25519-dalek/src/backend/vector/ifma/edwards.rs"
NEEDED = [E, "curve25519-dalek/src/backend/vector/ifma/field.rs", "curve25519-dalek/src/backend/serial/u64/field.rs", "curve25519-dalek/src/edwards.rs"]
BASE = "/tmp/ifmae_mut"
RL = os.environ.get("RL", "30")
TPL = os.path.join(VERIF, "contracts/ifmae.vx")
VX = os.path.join(VERIF, "vx/target/release/vx")
M = [
    # (name, kind, old, new, nth occurrence of old)
    ("from-edwards-swap-XY", "src", "F51x4Unreduced::new(&P.X, &P.Y, &P.Z, &P.T)", "F51x4Unreduced::new(&P.Y, &P.X, &P.Z, &P.T)", 1),
    ("from-edwards-T-is-Z", "src", "F51x4Unreduced::new(&P.X, &P.Y, &P.Z, &P.T)", "F51x4Unreduced::new(&P.X, &P.Y, &P.Z, &P.Z)", 1),
    ("into-edwards-T-lane", "src", "T: tmp[3],", "T: tmp[2],", 1),
    ("into-edwards-X-lane", "src", "X: tmp[0],", "X: tmp[1],", 1),
    ("cached-k-121665", "src", "(121666, 121666, 2 * 121666, 2 * 121665)", "(121665, 121666, 2 * 121666, 2 * 121665)", 1),
    ("cached-2k-lane-C", "src", "(121666, 121666, 2 * 121666, 2 * 121665)", "(121666, 121666, 121666, 2 * 121665)", 1),
    ("cached-2d-121666", "src", "(121666, 121666, 2 * 121666, 2 * 121665)", "(121666, 121666, 2 * 121666, 2 * 121666)", 1),
    ("cached-neg-lane-C", "src", "x = x.blend(&x.negate_lazy(), Lanes::D);", "x = x.blend(&x.negate_lazy(), Lanes::C);", 1),
    ("cached-no-neg", "src", "x = x.blend(&x.negate_lazy(), Lanes::D);", "x = x.blend(&x, Lanes::D);", 1),
    ("cached-diff_sum-lanes", "src", "x = x.blend(&x.diff_sum(), Lanes::AB);", "x = x.blend(&x.diff_sum(), Lanes::AC);", 1),
    ("cached-no-diff_sum", "src", "x = x.blend(&x.diff_sum(), Lanes::AB);", "x = x.blend(&x, Lanes::AB);", 1),
    ("double-shuffle-BADC", "src", "let mut tmp0 = self.0.shuffle(Shuffle::BADC);", "let mut tmp0 = self.0.shuffle(Shuffle::ABDC);", 1),
    ("double-shuffle-ABAB", "src", "(self.0 + tmp0).shuffle(Shuffle::ABAB)", "(self.0 + tmp0).shuffle(Shuffle::DBBD)", 1),
    ("double-blend-D-to-C", "src", "tmp0 = self.0.blend(&tmp1, Lanes::D);", "tmp0 = self.0.blend(&tmp1, Lanes::C);", 1),
    ("double-S1-BBBB", "src", "let S1_S1_S1_S1 = tmp1.shuffle(Shuffle::AAAA);", "let S1_S1_S1_S1 = tmp1.shuffle(Shuffle::BBBB);", 1),
    ("double-S2-AAAA", "src", "let S2_S2_S2_S2 = tmp1.shuffle(Shuffle::BBBB);", "let S2_S2_S2_S2 = tmp1.shuffle(Shuffle::AAAA);", 1),
    ("double-S4-lane", "src", "S2_S2_S2_S2.blend(&tmp1, Lanes::D).negate_lazy()", "S2_S2_S2_S2.blend(&tmp1, Lanes::C).negate_lazy()", 1),
    ("double-no-negate", "src", "S2_S2_S2_S2.blend(&tmp1, Lanes::D).negate_lazy();", "S2_S2_S2_S2.blend(&tmp1, Lanes::D);", 1),
    ("double-2S3-lane", "src", "zero.blend(&(tmp1 + tmp1), Lanes::C)", "zero.blend(&(tmp1 + tmp1), Lanes::D)", 1),
    ("double-S3-not-doubled", "src", "zero.blend(&(tmp1 + tmp1), Lanes::C)", "zero.blend(&tmp1, Lanes::C)", 1),
    ("double-S2-AD-to-AC", "src", "zero.blend(&S2_S2_S2_S2, Lanes::AD)", "zero.blend(&S2_S2_S2_S2, Lanes::AC)", 1),
    ("double-negS-BCD-to-AD", "src", "zero.blend(&S2_S2_S2_S4, Lanes::BCD)", "zero.blend(&S2_S2_S2_S4, Lanes::AD)", 1),
    ("double-final-DBBD", "src", "&tmp2.shuffle(Shuffle::DBBD)", "&tmp2.shuffle(Shuffle::ADDA)", 1),
    ("double-final-CACA", "src", "&tmp2.shuffle(Shuffle::CACA)", "&tmp2.shuffle(Shuffle::CBCB)", 1),
    ("double-extra-add", "src", "tmp0 = tmp0 + zero.blend(&S2_S2_S2_S2, Lanes::AD);", "tmp0 = tmp0 + zero.blend(&S2_S2_S2_S2, Lanes::AD) + zero.blend(&S2_S2_S2_S2, Lanes::AD);", 1),
    ("pow2-loop-from-1", "src", "for _ in 0..k {", "for _ in 1..k {", 1),
    ("add-blend-AB-to-AC", "src", "tmp = tmp.blend(&tmp.diff_sum(), Lanes::AB);", "tmp = tmp.blend(&tmp.diff_sum(), Lanes::AC);", 1),
    ("add-no-diff_sum1", "src", "tmp = tmp.blend(&tmp.diff_sum(), Lanes::AB);", "tmp = tmp.blend(&tmp, Lanes::AB);", 1),
    ("add-mul-self", "src", "tmp = &F51x4Reduced::from(tmp) * &other.0;", "tmp = &F51x4Reduced::from(tmp) * &F51x4Reduced::from(tmp);", 1),
    ("add-swap-mul-operands", "src", "tmp = &F51x4Reduced::from(tmp) * &other.0;", "tmp = &other.0 * &F51x4Reduced::from(tmp);", 1),
    ("add-no-ABDC", "src", "tmp = tmp.shuffle(Shuffle::ABDC);", "tmp = tmp.shuffle(Shuffle::BACD);", 1),
    ("add-drop-diff_sum2", "src", "let tmp = F51x4Reduced::from(tmp.diff_sum());", "let tmp = F51x4Reduced::from(tmp);", 1),
    ("add-double-diff_sum", "src", "let tmp = F51x4Reduced::from(tmp.diff_sum());", "let tmp = F51x4Reduced::from(tmp.diff_sum().diff_sum());", 1),
    ("add-t0-ADDA", "src", "let t0 = tmp.shuffle(Shuffle::ADDA);", "let t0 = tmp.shuffle(Shuffle::DBBD);", 1),
    ("add-t1-CBCB", "src", "let t1 = tmp.shuffle(Shuffle::CBCB);", "let t1 = tmp.shuffle(Shuffle::CACA);", 1),
    ("add-final-square", "src", "ExtendedPoint(&t0 * &t1)", "ExtendedPoint(&t0 * &t0)", 1),
    ("neg-no-swap", "src", "let swapped = self.0.shuffle(Shuffle::BACD);", "let swapped = self.0.shuffle(Shuffle::ABDC);", 1),
    ("neg-lane-C", "src", "CachedPoint(swapped.blend(&(-self.0), Lanes::D))", "CachedPoint(swapped.blend(&(-self.0), Lanes::C))", 1),
    ("neg-no-neg", "src", "CachedPoint(swapped.blend(&(-self.0), Lanes::D))", "CachedPoint(swapped.blend(&self.0, Lanes::D))", 1),
    ("neg-unswapped-D", "src", "CachedPoint(swapped.blend(&(-self.0), Lanes::D))", "CachedPoint(self.0.blend(&(-self.0), Lanes::D))", 1),
    ("sub-no-neg", "src", "self + &(-other)", "self + other", 1),
    ("sub-double-neg", "src", "self + &(-other)", "self + &(-&(-other))", 1),
    ("identity-swapped", "src", "constants::EXTENDEDPOINT_IDENTITY", "ExtendedPoint(F51x4Unreduced::from(constants::CACHEDPOINT_IDENTITY.0))", 1),
    ("select-swapped", "src", "F51x4Reduced::conditional_select(&a.0, &b.0, choice)", "F51x4Reduced::conditional_select(&b.0, &a.0, choice)", 1),
    ("assign-dropped", "src", "self.0.conditional_assign(&other.0, choice);", "", 1),
    # specification mutants: the explicit headroom preconditions are NEEDED (dropping one makes a diff_sum call site fail)
    ("spec-add-without-headroom", "tpl", "        && ifma_add_headroom(*self, *rhs)     //", "        //", 1),
    ("spec-add-H1-only", "tpl", "        && ifma_add_headroom(*self, *rhs)     //", "        && xp_headroom(*self)     //", 1),
    ("spec-sub-without-headroom", "tpl", "        && ifma_sub_headroom(*self, *rhs)     //", "        //", 1),
    ("spec-to_cached-without-headroom", "tpl", "//@|        requires xp_headroom(P),     //", "//@|        requires true,     //", 1),
]


def tags_of(out, genfile):
    """failing obligations: the [Cxx ..] tag (or a short quote) of every line an `error` points at"""
    gen = open(genfile).read().split("\n") if os.path.exists(genfile) else []
    res, cur = [], None
    for l in out.split("\n"):
        if l.startswith("error"):
            cur = re.sub(r"^error(\[\w+\])?: ", "", l).split(";")[0][:60]
        m = re.search(r"--> \w+\.rs:(\d+):", l)
        if m and cur:
            n = int(m.group(1))
            src = gen[n - 1] if 0 < n <= len(gen) else ""
            t = re.findall(r"\[(C\d\d [^\]]+)\]", src)
            res.append("%s {%s}" % (cur, t[0] if t else src.strip()[:70]))
            cur = None
    seen = []
    for r in res:
        if r not in seen:
            seen.append(r)
    return seen[:3]


def run_verus(w, name="ifmae.rs", rl=None):
    t0 = time.time()
    pr = subprocess.run(["timeout", "1500", "verus", name, "--rlimit", rl or RL, "--triggers-mode", "silent"], capture_output=True, text=True, cwd=w)
    o = pr.stdout + pr.stderr
    m = re.search(r"verification results:: (\d+) verified, (\d+) errors", o)
    return o, (int(m.group(1)), int(m.group(2))) if m else None, time.time() - t0, pr.returncode


def mutant(m):
    name, kind, old, new, nth = m
    w = os.path.join(BASE, name)
    root = os.path.join(w, "mrepo")
    shutil.rmtree(w, ignore_errors=True)
    for f in NEEDED:
        os.makedirs(os.path.dirname(os.path.join(root, f)), exist_ok=True)
        shutil.copy(os.path.join(REPO, f), os.path.join(root, f))
    target = os.path.join(root, E) if kind == "src" else os.path.join(w, "ifmae.vx")
    if kind == "tpl":
        shutil.copy(TPL, target)
        if not os.path.exists(os.path.join(w, "lib")):
            os.symlink(os.path.join(VERIF, "contracts/lib"), os.path.join(w, "lib"))
    src = open(target).read()
    pos = -1
    for _ in range(nth):
        pos = src.find(old, pos + 1)
        if pos < 0:
            return "%-32s NOT APPLICABLE (pattern #%d not found)" % (name, nth)
    src = src[:pos] + new + src[pos + len(old):]
    open(target, "w").write(src)
    line = src[:pos].count("\n") + 1
    tpl = TPL if kind == "src" else target
    r = subprocess.run([VX, root, tpl, w + "/ifmae.rs", w + "/ifmae.log.json"], capture_output=True, text=True)
    desc = "%s:%d  %s  =>  %s" % (os.path.basename(target), line, old.strip()[:90], new.strip()[:110] if new.strip() else "(deleted)")
    if r.returncode != 0:
        return "%-32s UNDECIDED (vx exit %d: %s)\n      %s" % (name, r.returncode, r.stderr.strip().split("\n")[-1][:120], desc)
    o, vr, dt, rc = run_verus(w)
    if vr is None:
        return "%-32s KILLED (no summary, rc %d): %s\n      %s" % (name, rc, [l for l in o.split("\n") if l.startswith("error")][:2], desc)
    verdict = "SURVIVED" if (vr[1] == 0 and rc == 0) else "KILLED"
    return "%-32s %s  %d verified, %d errors  %.0fs | %s\n      %s" % (name, verdict, vr[0], vr[1], dt, "; ".join(tags_of(o, w + "/ifmae.rs")), desc)


def vacuity(only=None):
    w = os.path.join(BASE, "vac")
    shutil.rmtree(w, ignore_errors=True)
    os.makedirs(w)
    r = subprocess.run([VX, REPO, TPL, w + "/base.rs", w + "/base.log.json"], capture_output=True, text=True)
    assert r.returncode == 0, r.stderr
    gen = open(w + "/base.rs").read().split("\n")
    log = json.load(open(w + "/base.log.json"))
    regions = []  # (name, first line idx of region, last line idx) 0-based inclusive
    skip = set()
    for it in log["items"]:
        if it["kind"] == "fn" or (it["kind"] == "item" and it["path"].startswith("fn ")):
            if it.get("external_body"):
                skip.update(range(it["gen_lines"][0] - 1, it["gen_lines"][1]))
                continue
            regions.append((it["path"], it["gen_lines"][0] - 1, it["gen_lines"][1] - 1))
    covered = set(skip)
    for (_, a, b) in regions:
        covered.update(range(a, b + 1))
    i = 0
    while i < len(gen):
        m = re.match(r"^\s*(pub )?(broadcast )?proof fn (\w+)", gen[i])
        if m and i not in covered and not (i > 0 and "external_body" in gen[i - 1]):     # trusted axioms (M1, M3) have no verified body: not probes
            j = i
            while j < len(gen) and gen[j].rstrip() != "{" and not gen[j].rstrip().endswith("{}"):
                j += 1
            k = j
            while k < len(gen) and gen[k].rstrip() != "}":
                k += 1
            if j < len(gen) and k < len(gen) and gen[j].rstrip() == "{":
                regions.append(("proof " + m.group(3), i, k))
            i = k
        i += 1
    out = list(gen)
    probes = []
    for (name, a, b) in regions:
        if only and not any(x in name for x in only):
            continue
        o = next((n for n in range(a, b + 1) if gen[n].startswith("{") or gen[n].startswith("    {")), None)
        c = next((n for n in range(b, a, -1) if "}" in gen[n]), None)
        if o is None or c is None or c <= o:
            print("   %-60s SKIPPED (cannot locate body)" % name)
            continue
        ind = len(gen[o]) - len(gen[o].lstrip())
        h = o + 1
        last_hide = None
        while h < c and (gen[h].strip().startswith("hide(") or gen[h].strip() == "" or gen[h].strip().startswith("//")):
            if gen[h].strip().startswith("hide("):
                last_hide = h
            h += 1
        rest = gen[o][ind + 1:]
        if last_hide is None:
            out[o] = " " * ind + "{ let vx_vac_r = {" + rest
        else:
            out[o] = " " * ind + "{" + rest
            out[last_hide] = out[last_hide] + " let vx_vac_r = {"
        idx = out[c].rfind("}")
        out[c] = out[c][:idx] + "}; assert(false); /* VACUITY %s */ vx_vac_r }" % name + out[c][idx + 1:]
        probes.append((name, c))
    open(w + "/ifmae.rs", "w").write("\n".join(out))
    o, vr, dt, rc = run_verus(w, rl=os.environ.get("RL", "20"))
    hit = {}
    cur = None
    for l in o.split("\n"):
        if l.startswith("error"):
            cur = l
        m = re.search(r"--> ifmae\.rs:(\d+):", l)
        if m and cur:
            n = int(m.group(1)) - 1
            for (name, c) in probes:
                if n == c and "assertion failed" in cur:
                    hit[name] = "refuted"
            if "rlimit" in cur:
                for (name, c) in sorted(probes, key=lambda p: p[1]):
                    if c > n:
                        hit.setdefault(name, "rlimit (undecided)")
                        break
            cur = None
    print("vacuity: %d probes, %.0fs, verus: %s (rc %d)" % (len(probes), dt, vr, rc))
    bad = 0
    for (name, c) in probes:
        v = hit.get(name, "!!! NOT REFUTED (vacuous context?)")
        bad += v.startswith("!!!")
        print("   %-70s %s" % (name, v))
    print("vacuity summary: %d refuted, %d undecided, %d NOT refuted" % (sum(1 for v in hit.values() if v == "refuted"), sum(1 for v in hit.values() if v != "refuted"), bad))
    if vr is None:
        print(o[-3000:])


if __name__ == "__main__":
    args = sys.argv[1:]
    if args and args[0] == "--clean":
        shutil.rmtree(BASE, ignore_errors=True)
        sys.exit(0)
    if args and args[0] == "--vacuity":
        vacuity(args[1:])
        sys.exit(0)
    j = 4
    if args and args[0] == "-j":
        j = int(args[1])
        args = args[2:]
    todo = [m for m in M if not args or any(a in m[0] for a in args)]
    t0 = time.time()
    res = []
    with ThreadPoolExecutor(max_workers=j) as ex:
        for r in ex.map(mutant, todo):
            print(r)
            sys.stdout.flush()
            res.append(r)
    k = sum(1 for r in res if " KILLED" in r.split("\n")[0])
    u = sum(1 for r in res if " UNDECIDED" in r.split("\n")[0])
    s = sum(1 for r in res if " SURVIVED" in r.split("\n")[0])
    print("SUMMARY: %d mutants: %d killed, %d undecided, %d SURVIVED, %d other; %.0fs" % (len(res), k, u, s, len(res) - k - u - s, time.time() - t0))
