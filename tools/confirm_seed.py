#!/usr/bin/env python3
"""confirm_seed.py <prop> <worktree> <n> [<check-props>] [-- <demo shell command>]

Independent confirmation of a seeded defect produced by a sub-agent in its scratch worktree:
  (1) demo passes on the clean tree, (2) the patch applies and the baseline suite (lib + integration tests) still passes,
  (3) the demo fails with the patch.  Then the seed is filed under /verif/seeded/<prop>-<n>/ (patch.diff, demo, README, meta.json)
and tools/run_seeds.py evaluates the checks against a scratch COPY of /repo with the patch applied (never /repo itself, so
nothing else using /repo is disturbed).  DEMO_SETUP / DEMO_CMD lines are read from the seed's README.md unless given after `--`.
"""
import json, os, re, shutil, subprocess, sys
args = sys.argv[1:]
demo = None
if "--" in args:
    i = args.index("--")
    demo = " ".join(args[i + 1:])
    args = args[:i]
prop, wt, n = args[0], args[1], args[2]
checkprops = args[3].split(",") if len(args) > 3 else [prop]
sd = os.path.join(wt, "SEED_OUT", n)
if demo is None:
    rd = open(os.path.join(sd, "README.md")).read()
    ms = re.search(r"DEMO_SETUP:\s*`?(.+?)`?\s*$", rd, re.M)
    mc = re.search(r"DEMO_CMD:\s*`?(.+?)`?\s*$", rd, re.M)
    assert mc, "no DEMO_CMD in README"
    demo = ((ms.group(1).strip() + " && ") if ms and ms.group(1).strip().lower() not in ("none", "-", "") else "") + mc.group(1).strip()
env = dict(os.environ, CARGO_TARGET_DIR=os.path.join(wt, "target"), CARGO_NET_OFFLINE="true")


def sh(cmd, cwd=wt, timeout=5400):
    p = subprocess.run(cmd, shell=True, cwd=cwd, env=env, capture_output=True, text=True, timeout=timeout)
    return p.returncode, (p.stdout + p.stderr)


def clean():
    sh("git checkout -- . && git clean -fdq -e SEED_OUT -e target")


meta = {"property": prop, "seed": n, "run_checks": checkprops, "demo_cmd": demo}
clean()
rc0, out0 = sh(demo)
meta["demo_without_change"] = {"exit": rc0, "tail": out0[-600:]}
clean()
rc, out = sh("git apply SEED_OUT/%s/patch.diff" % n)
assert rc == 0, out
rcb, outb = sh("cargo test --workspace --offline --no-fail-fast --lib --tests 2>&1 | grep -E '^test result|FAILED|failed|^error' | head -40")
meta["baseline_tests_with_change"] = outb[-1500:]
base_ok = "FAILED" not in outb and "error" not in outb and all(" 0 failed" in l for l in outb.split("\n") if l.startswith("test result")) and "test result" in outb
rc1, out1 = sh(demo)
meta["demo_with_change"] = {"exit": rc1, "tail": out1[-800:]}
clean()
meta["confirmed"] = bool(rc0 == 0 and rc1 != 0 and base_ok)
sid = "%s-%s%s" % (prop, os.environ.get("SEED_SUFFIX", ""), n)
dst = "/verif/seeded/%s" % sid
os.makedirs(dst, exist_ok=True)
for f in os.listdir(sd):
    if os.path.isfile(os.path.join(sd, f)) and os.path.getsize(os.path.join(sd, f)) < 400000:
        shutil.copy(os.path.join(sd, f), dst)
meta["what_it_needs"] = "see README.md"
json.dump(meta, open(os.path.join(dst, "meta.json"), "w"), indent=1)
print("confirmed=%s (demo clean exit %d, demo with change exit %d, baseline ok %s)" % (meta["confirmed"], rc0, rc1, base_ok))
if meta["confirmed"]:
    subprocess.run([sys.executable, os.path.join(os.path.dirname(os.path.abspath(__file__)), "run_seeds.py"), sid])
else:
    print("NOT CONFIRMED — seed kept for inspection only (meta.json says confirmed=false)")
