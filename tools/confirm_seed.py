#!/usr/bin/env python3
"""confirm_seed.py <prop> <worktree> <n> <check-props> -- <demo setup+run shell command, run at worktree root>
Confirms a seeded defect independently (compiles, baseline tests pass with it, demo passes without / fails with), runs
/verif checks against /repo with the patch applied (then restores /repo), and files everything under /verif/seeded/<prop>-<n>/."""
import json, os, shutil, subprocess, sys, time
args = sys.argv[1:]
i = args.index("--")
prop, wt, n, checkprops = args[0], args[1], args[2], args[3].split(",")
demo = " ".join(args[i + 1:])
sd = os.path.join(wt, "SEED_OUT", n)
env = dict(os.environ, CARGO_TARGET_DIR=os.path.join(wt, "target"), CARGO_NET_OFFLINE="true")
def sh(cmd, cwd=wt, timeout=3600):
    p = subprocess.run(cmd, shell=True, cwd=cwd, env=env, capture_output=True, text=True, timeout=timeout)
    return p.returncode, (p.stdout + p.stderr)
def clean():
    sh("git checkout -- . && git clean -fdq -e SEED_OUT -e target")
meta = {"property": prop, "seed": n, "ran": []}
clean()
rc0, out0 = sh(demo)
meta["demo_without_change"] = {"exit": rc0, "tail": out0[-600:]}
clean()
rc, out = sh("git apply SEED_OUT/%s/patch.diff" % n)
assert rc == 0, out
rcb, outb = sh("cargo test --workspace --offline --no-fail-fast --lib --tests 2>&1 | grep -E '^test result|FAILED|failed' | head -40")
meta["baseline_tests_with_change"] = outb[-1500:]
base_ok = "FAILED" not in outb and "failed;" in outb and all(" 0 failed" in l for l in outb.split("\n") if l.startswith("test result"))
rc1, out1 = sh(demo)
meta["demo_with_change"] = {"exit": rc1, "tail": out1[-800:]}
clean()
meta["confirmed"] = bool(rc0 == 0 and rc1 != 0 and base_ok)
# run our checks against /repo with the patch applied
res = {}
rc, out = sh("git -C /repo apply %s/patch.diff" % sd, cwd="/verif")
assert rc == 0, out
try:
    for cp in checkprops:
        t0 = time.time()
        p = subprocess.run(["./check", cp], cwd="/verif", capture_output=True, text=True)
        res[cp] = {"exit": p.returncode, "wall_s": round(time.time() - t0, 1), "lines": [l for l in p.stdout.split("\n") if l.startswith(("VIOLATION", "UNDECIDED", "KNOWN", cp))]}
finally:
    subprocess.run("git -C /repo checkout -- .", shell=True)
meta["checks"] = res
meta["detected_by"] = [cp for cp, r in res.items() if r["exit"] == 1]
dst = "/verif/seeded/%s-%s" % (prop, n)
os.makedirs(dst, exist_ok=True)
for f in os.listdir(sd):
    shutil.copy(os.path.join(sd, f), dst)
meta["what_it_needs"] = "see README.md"
meta["demo_cmd"] = demo
json.dump(meta, open(os.path.join(dst, "meta.json"), "w"), indent=1)
print(json.dumps({k: meta[k] for k in ("confirmed", "detected_by")}), json.dumps(res)[:800])
