#!/usr/bin/env python3
"""tools/trs_check_copies.py — unit TRS: the TEXT COPIES of shared vocabulary are still equal to their originals (exit 1 on drift).

  * contracts/lib/trs_bpt_spec.vx  vs  contracts/lib/sm_bpt16_spec.vx   every non-comment line of the copy occurs verbatim in the original (the copy omits
                                                                         the original's `trait BasepointTable` shim: unit TRS declares the trait itself,
                                                                         WITH the provided method)
  * `sm_clamp_int` in contracts/trs.vx  vs  contracts/sm2.vx
  * the stub of constants::ED25519_BASEPOINT_POINT in contracts/trs.vx  vs  contracts/lib/smnt_shims.vx (ensures line)
  * the shim trait `BasepointTable::mul_base` precondition in contracts/trs.vx  vs  contracts/lib/sm_bpt16_spec.vx
"""
import re, sys

C = "/verif/contracts/"
bad = 0


def code_lines(path):
    return [l.rstrip() for l in open(path).read().split("\n") if l.strip() and not l.strip().startswith("//") or l.strip().startswith("//@")]


orig = set(code_lines(C + "lib/sm_bpt16_spec.vx"))
for l in code_lines(C + "lib/trs_bpt_spec.vx"):
    if l not in orig:
        print("trs_bpt_spec.vx: line not in sm_bpt16_spec.vx:", l)
        bad += 1
trs = open(C + "trs.vx").read()


def one(pattern, text, what):
    m = re.search(pattern, text, re.M)
    if not m:
        print("not found:", what)
        return None
    return re.sub(r"\s+", " ", m.group(0)).strip()


for pat, other, what in [
    (r"^pub open spec fn sm_clamp_int\(.*$", C + "sm2.vx", "sm_clamp_int"),
    (r"^\s*ensures ED25519_BASEPOINT_POINT == spec_ed25519_basepoint_point\(\).*$", C + "lib/smnt_shims.vx", "ED25519_BASEPOINT_POINT stub"),
    (r"^\s*requires self\.bt_valid\(\), scalar\.bytes\[31\] <= 127;$", C + "lib/sm_bpt16_spec.vx", "BasepointTable::mul_base precondition"),
]:
    a = one(pat, trs, what + " (trs.vx)")
    b = one(pat, open(other).read(), what + " (" + other + ")")
    if a is None or b is None or a != b:
        print("DRIFT:", what, "\n  trs.vx:", a, "\n  orig  :", b)
        bad += 1
print("trs_check_copies:", "OK" if not bad else "%d problem(s)" % bad)
sys.exit(1 if bad else 0)
