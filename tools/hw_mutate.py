#!/usr/bin/env python3
"""Mutation / vacuity suite for unit HW (contracts/hw.vx: the generic-digest wrappers of scalar.rs, ristretto.rs, edwards.rs).

usage: tools/hw_mutate.py [--rlimit N] [--jobs K] [--keep] [label ...]        (no label = the whole suite; K <= 4)

Mutants: the source files the template reads are copied into a FAKE repo root /tmp/hw_mut/<label>/mrepo (same relative paths; /repo is never
touched), ONE piece of text is replaced, vx re-extracts from the fake root, verus re-verifies the whole generated file.  Verdict per mutant:
    KILLED     verus reports >= 1 verification error (the failed obligations are listed)
    SURVIVED   verus verifies the mutated source (equivalent mutant, or a hole in the contract)
    UNDECIDED  vx exit 2 (an anchor was lost), or the mutant does not compile / trips a Verus limitation: nothing was decided
Vacuity probes (label v_*): in a scratch copy of the GENERATED file of the unmutated tree the body of each verified extracted function is
wrapped as `{ [hide(..);] let vx_r = { BODY }; assert(false); vx_r }` (the end of the body, after the tail expression; VAC_HIDES = hides added
in the scratch copy so that the probe gets a definite verdict); each must be REJECTED.
/tmp/hw_mut is removed at the end unless --keep.
"""
import json, os, re, shutil, subprocess, sys, time
from concurrent.futures import ThreadPoolExecutor

ROOT = '/verif'
VX = f'{ROOT}/vx/target/release/vx'
TPL = f'{ROOT}/contracts/hw.vx'
TMP = '/tmp/hw_mut'
FILES = ['curve25519-dalek/src/scalar.rs', 'curve25519-dalek/src/edwards.rs', 'curve25519-dalek/src/ristretto.rs', 'curve25519-dalek/src/montgomery.rs']
S, E, R = FILES[0], FILES[1], FILES[2]
S_FROM_HASH = '''        let mut output = [0u8; 64];
        output.copy_from_slice(hash.finalize().as_slice());
        Scalar::from_bytes_mod_order_wide(&output)'''
R_COPY = '        output_bytes.copy_from_slice(output.as_slice());\n'
LOW_TWICE = R_COPY + ''.join(f'        output_bytes[{32 + i}] = output_bytes[{i}];\n' for i in range(32))
# label -> (file, old, new, what)
MUTANTS = {
    'm01': (E, 'res.copy_from_slice(&h[..32]);', 'res.copy_from_slice(&h[..31]);', 'nonspec: `&h[..32]` -> `&h[..31]` (copy_from_slice length mismatch = panic)'),
    'm02': (E, 'res.copy_from_slice(&h[..32]);', 'res.copy_from_slice(&h[1..33]);', 'nonspec: `&h[..32]` -> `&h[1..33]` (wrong octets)'),
    'm03': (E, 'let sign_bit = (res[31] & 0x80) >> 7;', 'let sign_bit = (res[0] & 0x80) >> 7;', 'nonspec: sign bit taken from res[0]'),
    'm04': (E, 'let sign_bit = (res[31] & 0x80) >> 7;', 'let sign_bit = (res[31] & 0x80) >> 6;', 'nonspec: `>> 7` -> `>> 6` (sign_bit in {0, 2}: parity always 0)'),
    'm05': (E, '            .expect("Montgomery conversion to Edwards point in Elligator failed")\n            .mul_by_cofactor()',
            '            .expect("Montgomery conversion to Edwards point in Elligator failed")', 'nonspec: mul_by_cofactor dropped'),
    'm06': (E, 'let E1_opt = M1.to_edwards(sign_bit);', 'let E1_opt = M1.to_edwards(sign_bit ^ 1);', 'nonspec: `.expect` on `to_edwards(sign_bit ^ 1)`'),
    'm07': (S, S_FROM_HASH, S_FROM_HASH.replace('[0u8; 64]', '[0u8; 63]'), 'Scalar::from_hash: output buffer of 63 octets (length mismatch = panic; also a type error at the callee)'),
    'm07b': (S, S_FROM_HASH, '''        let mut output = [0u8; 64];
        output[..63].copy_from_slice(hash.finalize().as_slice());
        Scalar::from_bytes_mod_order_wide(&output)''', 'Scalar::from_hash: copy into the 63-octet prefix `output[..63]` (length mismatch = panic)'),
    'm08': (S, S_FROM_HASH, '''        let mut output = [0u8; 32];
        output.copy_from_slice(&hash.finalize().as_slice()[..32]);
        Scalar::from_bytes_mod_order(output)''', 'Scalar::from_hash: from_bytes_mod_order on the low half of the digest instead of _wide on all of it'),
    'm09': (R, R_COPY, LOW_TWICE, 'RistrettoPoint::from_hash: the low half of the digest used twice (octets 32..64 overwritten by 0..32)'),
    'm10': (S, '        hash.update(input);\n        Scalar::from_hash(hash)', '        hash.update(input);\n        hash.update(input);\n        Scalar::from_hash(hash)', 'Scalar::hash_from_bytes: hash.update called twice'),
    'm11': (R, '        hash.update(input);\n        RistrettoPoint::from_hash(hash)', '        hash.update(input);\n        hash.update(input);\n        RistrettoPoint::from_hash(hash)', 'RistrettoPoint::hash_from_bytes: hash.update called twice'),
    'm12': (E, '        hash.update(bytes);\n        let h = hash.finalize();', '        hash.update(bytes);\n        hash.update(bytes);\n        let h = hash.finalize();', 'nonspec: hash.update called twice'),
    'm13': (S, '        hash.update(input);\n        Scalar::from_hash(hash)', '        Scalar::from_hash(hash)', 'Scalar::hash_from_bytes: input never absorbed'),
    'm14': (E, "let fe = FieldElement::from_bytes(&res);", "let fe = FieldElement::from_bytes(&res);\n        let fe = &fe + &FieldElement::ONE;", 'nonspec: Elligator applied to r + 1'),
    'm15': (E, 'let E1_opt = M1.to_edwards(sign_bit);', 'let E1_opt = MontgomeryPoint(res).to_edwards(sign_bit);', 'nonspec: to_edwards on the raw digest octets (no Elligator: may be a twist point => expect can fail)'),
    'm16': (R, R_COPY, R_COPY + '        output_bytes[63] &= 127;\n', 'RistrettoPoint::from_hash: top bit of the digest cleared before the map (EQUIVALENT: from_uniform_bytes masks bit 255 of each half; expected to be KILLED only because the contract is stated on the octets)'),
    'm17': (S, 'output.copy_from_slice(hash.finalize().as_slice());', 'output.copy_from_slice(hash.finalize().as_slice()); output[63] &= 127;', 'Scalar::from_hash: top bit of the 512-bit value cleared'),
    'm18': (E, 'let M1 = crate::montgomery::elligator_encode(&fe);', 'let M1 = crate::montgomery::elligator_encode(&(&fe + &fe));', 'nonspec: Elligator applied to 2r'),
}
# hides inserted (scratch copy only) as first statements of the probed body: without them a false goal sends Z3 into the open field / curve
# vocabulary until the rlimit ("rlimit exceeded" = not proved, but not a definite verdict); with them the probe fails as `assertion failed`
VAC_HIDES = {
    'RistrettoPoint :: hash_from_bytes': 'hide(r255_one_way_map_affine); hide(ed_valid); hide(ed_affine);',
    'RistrettoPoint :: from_hash': 'hide(r255_one_way_map_affine); hide(ed_valid); hide(ed_affine);',
    'EdwardsPoint :: nonspec_map_to_curve': 'hide(fmul); hide(on_curve); hide(ed_valid); hide(ed_affine); hide(gdbl); hide(le_int32); hide(elligator2_u); hide(rfc7748_u_to_y); hide(rfc7748_decode_u); hide(hw_map_input); hide(le_int32_seq);',
}


def run_verus(path, rlimit, cwd):
    t = time.time()
    r = subprocess.run(['timeout', '900', 'verus', path, '--rlimit', str(rlimit), '--triggers-mode', 'silent', '--multiple-errors', '5'], capture_output=True, text=True, cwd=cwd)
    dt = time.time() - t
    txt = r.stdout + r.stderr
    lines = txt.split('\n')
    errs = []
    for i, l in enumerate(lines):
        if l.startswith('error') and 'aborting' not in l:
            ctx = ' | '.join(x.strip() for x in lines[i + 1:i + 9] if re.search(r'^\s*\d+ \|', x))
            errs.append(l + '  ::  ' + ctx[:300])
    res = [l for l in lines if 'verification results' in l]
    ok = bool(res) and ', 0 errors' in res[0] and not errs and r.returncode == 0
    return ok, res, errs, dt, txt


def mutant(label, rlimit):
    f, old, new, what = MUTANTS[label]
    d = f'{TMP}/{label}'
    root = f'{d}/mrepo'
    shutil.rmtree(d, ignore_errors=True)
    for x in FILES:
        os.makedirs(os.path.dirname(f'{root}/{x}'), exist_ok=True)
        shutil.copy(f'/repo/{x}', f'{root}/{x}')
    s = open(f'{root}/{f}').read()
    assert s.count(old) == 1, (label, s.count(old))
    open(f'{root}/{f}', 'w').write(s.replace(old, new))
    out = f'{d}/hw_{label}.rs'
    r = subprocess.run([VX, root, TPL, out, out + '.json'], capture_output=True, text=True)
    if r.returncode != 0:
        return f'== {label}: UNDECIDED (vx exit {r.returncode}: {r.stderr.strip().splitlines()[-1] if r.stderr.strip() else ""})   [{what}]'
    ok, res, errs, dt, txt = run_verus(out, rlimit, d)
    # a verdict needs a verification result that counts errors; rustc/type errors or Verus "not supported" are not verdicts
    verr = [e for e in errs if re.search(r'postcondition not satisfied|precondition not satisfied|assertion failed|rlimit|invariant|possible (arithmetic|bit shift)|overflow|index|failed this', e)]
    if ok:
        verdict = 'SURVIVED'
    elif res and ', 0 errors' not in res[0]:
        verdict = 'KILLED'
    elif verr:
        verdict = 'KILLED'
    else:
        verdict = 'UNDECIDED (no verification verdict: compile error / unsupported)'
    msg = f'== {label}: {verdict} {res} {dt:.1f}s   [{what}]'
    if not res and not errs:
        msg += '\n' + txt[-1200:]
    for e in errs[:5]:
        msg += '\n      ' + e
    return msg


def vacuity_all(rlimit):
    """one scratch file per verified extracted fn (so that each probe gets its own verdict)"""
    d = f'{TMP}/vac'
    shutil.rmtree(d, ignore_errors=True)
    os.makedirs(d)
    gen = f'{d}/hw.rs'
    r = subprocess.run([VX, '/repo', TPL, gen, gen + '.json'], capture_output=True, text=True)
    assert r.returncode == 0, r.stderr
    log = json.load(open(gen + '.json'))
    lines = open(gen).read().split('\n')
    probes = []
    for it in log['items']:
        if it['kind'] != 'fn' or it['external_body']:
            continue
        a, b = it['gen_lines']          # 1-based inclusive
        # body `{` = first column-0 brace in the range (R7-spec is spliced before it); closing brace = last line of the range
        open_i = next((i for i in range(a - 1, b) if lines[i].startswith('{')), None)
        if open_i is None:
            continue
        close_i = max(i for i in range(a - 1, b) if lines[i].strip() == '}')
        probes.append((it['path'], it['file'], open_i, close_i))
    assert len(probes) == 5, [p[0] for p in probes]
    out = []

    def one(k):
        path, file, oi, ci = probes[k]
        ls = list(lines)
        hid = VAC_HIDES.get(path, '')
        ls[oi] = '{ ' + hid + ' let vx_r = {' + ls[oi][1:]
        ls[ci] = ls[ci].replace('}', '}; assert(false); vx_r }', 1)
        p = f'{d}/hw_v{k}.rs'
        open(p, 'w').write('\n'.join(ls))
        ok, res, errs, dt, txt = run_verus(p, rlimit, d)
        only_false = [e for e in errs if 'assertion failed' in e and 'assert(false)' in e]
        other = [e for e in errs if e not in only_false]
        verdict = 'ACCEPTED (VACUOUS!)' if ok else ('REJECTED' if only_false and not other else f'REJECTED? (other errors: {len(other)})')
        m = f'== v{k} {file} :: {path}: {verdict} {res} {dt:.1f}s'
        for e in other[:3]:
            m += '\n      ' + e
        return m
    with ThreadPoolExecutor(max_workers=4) as ex:
        for m in ex.map(one, range(len(probes))):
            out.append(m)
    return '\n'.join(out)


def main():
    args = sys.argv[1:]
    rlimit, jobs, keep = 100, 4, False
    while args and args[0].startswith('--'):
        if args[0] == '--rlimit': rlimit = int(args[1]); args = args[2:]
        elif args[0] == '--jobs': jobs = min(4, int(args[1])); args = args[2:]
        elif args[0] == '--keep': keep = True; args = args[1:]
        else: sys.exit(__doc__)
    labels = args or (list(MUTANTS) + ['vacuity'])
    os.makedirs(TMP, exist_ok=True)
    with ThreadPoolExecutor(max_workers=jobs) as ex:
        futs = [(l, ex.submit(mutant, l, rlimit)) for l in labels if l in MUTANTS]
        for l, f in futs:
            print(f.result(), flush=True)
    if 'vacuity' in labels:
        print(vacuity_all(rlimit), flush=True)
    if not keep:
        shutil.rmtree(TMP, ignore_errors=True)


if __name__ == '__main__':
    main()
