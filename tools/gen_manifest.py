#!/usr/bin/env python3
"""Writes /verif/MANIFEST.json from vlib/units.py + tools/claims.json (keeps it schema-valid at all times)."""
import json, os, sys
V=os.path.dirname(os.path.dirname(os.path.abspath(__file__)))
sys.path.insert(0,V)
from vlib import units as U
claims=json.load(open(os.path.join(V,"tools","claims.json")))
props=[json.loads(l) for l in open(os.path.join(V,"properties.jsonl"))]
checks=[]; na=[]
for p in props:
    pid=p["id"]
    c=claims.get(pid)
    served=[n for n,u in U.UNITS.items() if pid in u["props"]]
    if c and c.get("claim") and served:
        checks.append({
            "property_id":pid,
            "quick_cmd":"./check %s --tier quick"%pid,
            "thorough_cmd":"./check %s --tier thorough"%pid,
            "evidence_file":"/verif/evidence/%s.json"%pid,
            "replay_cmd_template":"./check %s --replay {path}"%pid,
            "engine":"verus+kani",
            "level_claimed":{"category":c.get("category","proof"),"text":c["text"],"design_ref":c.get("design_ref","DESIGN.md §5 "+pid)},
            "level_note":c["note"],
            "technique":c.get("technique","contract-based deductive verification (Verus on mechanically extracted real functions; Kani function harnesses)"),
        })
    else:
        na.append({"property_id":pid,"reason":(c or {}).get("na_reason","no check delivered yet")})
m={"version":1,
   "setup_cmd":"cd /verif/vx && cargo build --release --offline 2>&1 | tail -2",
   "hooks":{"guard":"cfg(kani)","enable":"cargo kani (sets --cfg kani); the Verus path needs no hook: functions are re-extracted from /repo by /verif/vx on every run",
            "baseline_off_cmd":"cd /repo && cargo test --workspace --no-fail-fast --offline","source_commits":claims.get("_hook_commits",[]),"add_only":True},
   "engines":[{"name":"verus","path":"/usr/local/bin/verus","serves_properties":sorted(set(p for u in U.UNITS.values() if u["engine"]=="verus" for p in u["props"])),"kind_free_text":"deductive verifier (Z3); contracts in /verif/contracts/*.vx spliced onto functions extracted from /repo by /verif/vx"},
              {"name":"kani","path":"/root/.cargo/bin/kani","serves_properties":sorted(set(p for u in U.UNITS.values() if u["engine"]=="kani" for p in u["props"])),"kind_free_text":"CBMC-based; complete loop-free/fixed-unwinding harnesses on the real crates, counterexamples, labelled bounded stand-ins"}],
   "checks":checks,"not_applicable":na,
   "notes":"See DESIGN.md. Exit 2 from a check means undecided (extraction lost an anchor / tool limit), never an alarm."}
json.dump(m,open(os.path.join(V,"MANIFEST.json"),"w"),indent=1)
print("checks:",[c["property_id"] for c in checks],"na:",[n["property_id"] for n in na])
