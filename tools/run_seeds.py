#!/usr/bin/env python3
"""run_seeds.py [seed-id ...]  — kill matrix of the seeded defects in /verif/seeded/*/.

For every seeded change: a scratch copy of /repo's working tree is made OUTSIDE /repo and /verif (so that nothing else
using /repo is disturbed), the patch is applied there, the checks named in meta.json["run_checks"] (default: the seeded
property) are run with --repo <copy>, and the outcome is written back to meta.json["checks"] / ["detected_by"] and to
/verif/seeded/KILL_MATRIX.md. The scratch copy is removed afterwards.
"""
import json, os, shutil, subprocess, sys, time
V = os.path.dirname(os.path.dirname(os.path.abspath(__file__)))
SD = os.path.join(V, "seeded")
want = sys.argv[1:]
rows = []
for sid in sorted(os.listdir(SD)):
    d = os.path.join(SD, sid)
    mp = os.path.join(d, "meta.json")
    if not os.path.isfile(mp):
        continue
    meta = json.load(open(mp))
    if want and sid not in want:
        rows.append((sid, meta))
        continue
    scratch = "/tmp/seedrepo_%s" % sid
    if os.path.exists(scratch):
        shutil.rmtree(scratch)
    os.makedirs(scratch)
    subprocess.run("cd /repo && tar --exclude=./target --exclude=./.git -cf - . | tar -xf - -C %s" % scratch, shell=True, check=True)
    subprocess.run("git init -q && git add -A && git commit -qm base", shell=True, cwd=scratch, check=True, capture_output=True)
    r = subprocess.run(["git", "apply", os.path.join(d, "patch.diff")], cwd=scratch, capture_output=True, text=True)
    if r.returncode != 0:
        meta["checks"] = {"_error": "patch does not apply: " + r.stderr[-300:]}
    else:
        res = {}
        for cp in meta.get("run_checks", [meta["property"]]):
            t0 = time.time()
            p = subprocess.run([os.path.join(V, "check"), cp, "--repo", scratch], cwd=V, capture_output=True, text=True)
            res[cp] = {"exit": p.returncode, "wall_s": round(time.time() - t0, 1),
                       "lines": [l[:400] for l in p.stdout.split("\n") if l.startswith(("VIOLATION", "UNDECIDED", "KNOWN", cp))][:8]}
        meta["checks"] = res
        meta["detected_by"] = [cp for cp, x in res.items() if x["exit"] == 1]
    shutil.rmtree(scratch)
    json.dump(meta, open(mp, "w"), indent=1)
    rows.append((sid, meta))
    print(sid, meta.get("detected_by"), {k: v.get("exit") for k, v in meta.get("checks", {}).items() if isinstance(v, dict)})
with open(os.path.join(SD, "KILL_MATRIX.md"), "w") as f:
    f.write("# Seeded defects vs. checks (written by tools/run_seeds.py)\n\n| seed | property | confirmed | detected by | first reported obligation | note |\n|---|---|---|---|---|---|\n")
    for sid, m in rows:
        first = ""
        for cp, x in m.get("checks", {}).items():
            if isinstance(x, dict):
                for l in x.get("lines", []):
                    if l.startswith("VIOLATION"):
                        first = l.split("replay=")[-1].split("/")[-1][:90]
                        break
            if first:
                break
        f.write("| %s | %s | %s | %s | %s | %s |\n" % (sid, m.get("property"), m.get("confirmed"), ",".join(m.get("detected_by", [])) or "—", first, m.get("note", "")))
