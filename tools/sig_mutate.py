#!/usr/bin/env python3
"""Mutation checks for unit SIG: the REAL sources are copied to /tmp/sigm/mrepo, one occurrence is changed, vx re-extracts,
verus runs on the whole file; reports the failing obligations (tags). Usage: python3 tools/sig_mutate.py [label ...]"""
import os, re, shutil, subprocess, sys, time, json
V = "/verif"; M = "/tmp/sigm/mrepo"
FILES = ["ed25519-dalek/src/hazmat.rs", "ed25519-dalek/src/signing.rs", "ed25519-dalek/src/verifying.rs", "ed25519-dalek/src/signature.rs",
         "ed25519-dalek/src/context.rs", "ed25519-dalek/src/errors.rs", "ed25519-dalek/src/constants.rs",
         "curve25519-dalek/src/scalar.rs", "curve25519-dalek/src/edwards.rs"]
MUT = [
 ("m01 verify_strict: drop is_small_order of R", "ed25519-dalek/src/verifying.rs", "if signature_R.is_small_order() || self.point.is_small_order() {", "if self.point.is_small_order() {", 1),
 ("m02 verify_strict: drop is_small_order of A", "ed25519-dalek/src/verifying.rs", "if signature_R.is_small_order() || self.point.is_small_order() {", "if signature_R.is_small_order() {", 1),
 ("m03 check_scalar: accept non-canonical S (reduce instead of reject)", "ed25519-dalek/src/signature.rs", "None => Err(InternalError::ScalarFormat.into()),", "None => Ok(Scalar::from_bytes_mod_order(bytes)),", 1),
 ("m04 compute_challenge: dom2 flag 1 -> 0", "ed25519-dalek/src/verifying.rs", "h.update([1]); // Ed25519ph", "h.update([0]); // Ed25519ph", 1),
 ("m05 raw_sign_prehashed: dom2 flag 1 -> 0 (first hash)", "ed25519-dalek/src/signing.rs", ".chain_update([1]) // Ed25519ph", ".chain_update([0]) // Ed25519ph", 1),
 ("m06 raw_sign_prehashed: drop the ctx length check", "ed25519-dalek/src/signing.rs", "if ctx.len() > 255 {", "if ctx.len() > 256 {", 1),
 ("m07 from_keypair_bytes: drop the comparison", "ed25519-dalek/src/signing.rs", "if signing_key.verifying_key() != verifying_key {", "if false {", 1),
 ("m08 raw_verify_prehashed: ctx length check 255 -> 256", "ed25519-dalek/src/verifying.rs", "if ctx.len() > 255 {", "if ctx.len() > 256 {", 1),
 ("m09 verify_prehashed_strict: ctx length check 255 -> 256", "ed25519-dalek/src/verifying.rs", "if ctx.len() > 255 {", "if ctx.len() > 256 {", 2),
 ("m10 compute_challenge: one letter of the dom2 label", "ed25519-dalek/src/verifying.rs", 'h.update(b"SigEd25519 no Ed25519 collisions");', 'h.update(b"SigEd25519 no Ed25519 collisionz");', 1),
 ("m11 raw_sign: S = k*a + k", "ed25519-dalek/src/signing.rs", "let s: Scalar = (k * self.scalar) + r;", "let s: Scalar = (k * self.scalar) + k;", 1),
 ("m12 ExpandedSecretKey::from_bytes: no clamping", "ed25519-dalek/src/hazmat.rs", "Scalar::from_bytes_mod_order(clamp_integer(scalar_bytes))", "Scalar::from_bytes_mod_order(scalar_bytes)", 1),
 ("m13 recompute_R: A instead of -A", "ed25519-dalek/src/verifying.rs", "let minus_A: EdwardsPoint = -self.point;", "let minus_A: EdwardsPoint = self.point;", 1),
 ("m14 Context::new: <= -> <", "ed25519-dalek/src/context.rs", "if value.len() <= Self::MAX_LENGTH {", "if value.len() < Self::MAX_LENGTH {", 1),
 ("m15 check_scalar (legacy cfg): mask 224 -> 192", "ed25519-dalek/src/signature.rs", "if bytes[31] & 224 != 0 {", "if bytes[31] & 192 != 0 {", 1),
 ("m16 raw_sign: second hash omits the public key", "ed25519-dalek/src/signing.rs", "h.update(verifying_key.as_bytes());\n", "", 1),
 ("m17 raw_verify: compare against the key instead of R", "ed25519-dalek/src/verifying.rs", "if expected_R == signature.R {", "if expected_R == self.compressed {", 1),
 ("m18 ExpandedSecretKey::from_bytes: prefix taken from the lower half", "ed25519-dalek/src/hazmat.rs", "hash_prefix.copy_from_slice(&bytes[32..64]);", "hash_prefix.copy_from_slice(&bytes[00..32]);", 1),
 ("m19 VerifyingKey::from_bytes: stores the bytes but a fixed point (identity of decompress dropped)", "ed25519-dalek/src/verifying.rs", "Ok(VerifyingKey { compressed, point })", "Ok(VerifyingKey { compressed: CompressedEdwardsY([0u8; 32]), point })", 1),
 ("m20 raw_sign_prehashed: ctx_len octet omitted in the second hash", "ed25519-dalek/src/signing.rs", "            .chain_update([ctx_len])\n            .chain_update(ctx)\n            .chain_update(R.as_bytes())", "            .chain_update(ctx)\n            .chain_update(R.as_bytes())", 1),
]
def nth_replace(s, old, new, n):
    i = -1
    for _ in range(n):
        i = s.find(old, i + 1)
        if i < 0: return None
    return s[:i] + new + s[i + len(old):]
TAG = re.compile(r"\[(C\d\d) ([A-Za-z0-9_.\-]+)\]")
sel = sys.argv[1:]
for (label, f, old, new, n) in MUT:
    if sel and not any(label.startswith(x) for x in sel): continue
    shutil.rmtree("/tmp/sigm", ignore_errors=True)
    for g in FILES:
        os.makedirs(os.path.dirname(M + "/" + g), exist_ok=True)
        shutil.copy("/repo/" + g, M + "/" + g)
    s = open(M + "/" + f).read(); s2 = nth_replace(s, old, new, n)
    if s2 is None: print(label, "-> PATTERN NOT FOUND"); continue
    open(M + "/" + f, "w").write(s2)
    t0 = time.time()
    p = subprocess.run([V + "/vx/target/release/vx", M, V + "/contracts/sig.vx", "/tmp/sigm/sig.rs", "/tmp/sigm/sig.json"], capture_output=True, text=True)
    if p.returncode != 0:
        print(label, "-> vx UNDECIDED:", p.stderr.strip().split("\n")[-1]); continue
    p = subprocess.run(["verus", "sig.rs", "--rlimit", os.environ.get("SIG_RLIMIT", "100"), "--triggers-mode", "silent", "--multiple-errors", "20"], capture_output=True, text=True, cwd="/tmp/sigm", timeout=1800)
    gen = open("/tmp/sigm/sig.rs").read().split("\n")
    lines = p.stderr.split("\n"); fails = []
    for i, l in enumerate(lines):
        if l.startswith("error") and "aborting" not in l:
            loc = None
            for j in range(i + 1, min(i + 12, len(lines))):
                m = re.match(r"\s*--> sig.rs:(\d+):", lines[j])
                if m: loc = int(m.group(1)); break
            txt = gen[loc - 1] if loc else ""
            tags = ["[%s %s]" % t for t in TAG.findall(txt)]
            fails.append((l[7:60], tags[0] if tags else ("line %s: %s" % (loc, txt.strip()[:70]))))
    res = re.findall(r"verification results:: (.*)", p.stderr + p.stdout)
    print("%s -> %s  (%.0f s)" % (label, res[0] if res else "NO RESULT " + p.stderr[-300:], time.time() - t0))
    for m, t in fails[:8]: print("      %s  %s" % (m, t))
shutil.rmtree("/tmp/sigm", ignore_errors=True)
