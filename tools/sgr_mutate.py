#!/usr/bin/env python3
"""mutation checks for unit SGR: mutate the REAL source (copy under /tmp/sgr/mrepo), re-extract with vx, run verus on the affected fn."""
import os,subprocess,sys,time,os,re
SRC='/repo/curve25519-dalek/src/scalar.rs'
src=open(SRC).read()
M=[
 ('r16_plus7','Scalar::as_radix_16',"let carry = (output[i] + 8) >> 4;","let carry = (output[i] + 7) >> 4;"),
 ('r16_shl3','Scalar::as_radix_16',"output[i] -= carry << 4;","output[i] -= carry << 3;"),
 ('r16_tophalf','Scalar::as_radix_16',"(x >> 4) & 15","(x >> 4) & 7"),
 ('r16_carry_into_i','Scalar::as_radix_16',"output[i + 1] += carry;","output[i + 1] += carry + carry;"),
 ('naf_half_to_width','Scalar::non_adjacent_form',"if window < width / 2 {","if window < width {"),
 ('naf_le_equiv','Scalar::non_adjacent_form',"if window < width / 2 {","if window <= width / 2 {"),
 ('naf_no_straddle','Scalar::non_adjacent_form',"let bit_buf: u64 = if bit_idx < 64 - w {\n                // This window's bits are contained in a single u64\n","let bit_buf: u64 = if bit_idx < 64 {\n                // This window's bits are contained in a single u64\n"),
 ('naf_boundary_le_equiv','Scalar::non_adjacent_form',"let bit_buf: u64 = if bit_idx < 64 - w {\n                // This window's bits are contained in a single u64\n","let bit_buf: u64 = if bit_idx <= 64 - w {\n                // This window's bits are contained in a single u64\n"),
 ('naf_boundary_plus1','Scalar::non_adjacent_form',"let bit_buf: u64 = if bit_idx < 64 - w {\n                // This window's bits are contained in a single u64\n","let bit_buf: u64 = if bit_idx < 65 - w + 1 {\n                // This window's bits are contained in a single u64\n"),
 ('naf_shl63','Scalar::non_adjacent_form',"(x_u64[u64_idx] >> bit_idx) | (x_u64[1 + u64_idx] << (64 - bit_idx))","(x_u64[u64_idx] >> bit_idx) | (x_u64[1 + u64_idx] << (63 - bit_idx))"),
 ('naf_carry_lost','Scalar::non_adjacent_form',"                carry = 1;\n                naf[pos] = (window as i8)","                carry = 0;\n                naf[pos] = (window as i8)"),
 ('naf_even_drops_carry','Scalar::non_adjacent_form',"                pos += 1;\n                continue;","                pos += 1;\n                carry = 0;\n                continue;"),
 ('naf_step_w_minus_1','Scalar::non_adjacent_form',"            pos += w;\n        }\n\n        naf","            pos += w - 1;\n        }\n\n        naf"),
 ('r2w_w8_fold','Scalar::as_radix_2w',"8 => digits[digits_count] += carry as i8,","8 => digits[digits_count - 1] += carry as i8,"),
 ('r2w_recenter_minus1','Scalar::as_radix_2w',"carry = (coef + (radix / 2)) >> w;","carry = (coef + (radix / 2) - 1) >> w;"),
 ('r2w_last_word','Scalar::as_radix_2w',"if bit_idx < 64 - w || u64_idx == 3 {","if bit_idx < 64 - w {"),
 ('r2w_count','Scalar::as_radix_2w',"let digits_count = (256 + w - 1) / w;","let digits_count = 256 / w;"),
 ('r2w_digit_shift','Scalar::as_radix_2w',"digits[i] = ((coef as i64) - (carry << w) as i64) as i8;","digits[i] = ((coef as i64) - (carry << (w - 1)) as i64) as i8;"),
 ('hint_w8','Scalar::to_radix_2w_size_hint',"8 => (256 + w - 1) / w + 1_usize,","8 => (256 + w - 1) / w,"),
 ('clamp_low','clamp_integer',"bytes[0] &= 0b1111_1000;","bytes[0] &= 0b1111_1100;"),
 ('clamp_bit254','clamp_integer',"bytes[31] |= 0b0100_0000;","bytes[31] |= 0b0010_0000;"),
 ('from_bits_mask','Scalar::from_bits',"s.bytes[31] &= 0b0111_1111;","s.bytes[31] &= 0b1111_1111;"),
 ('select_swapped','Scalar::conditional_select',"u8::conditional_select(&a.bytes[i], &b.bytes[i], choice)","u8::conditional_select(&b.bytes[i], &a.bytes[i], choice)"),
]
for d in ('/tmp/sgr/mrepo/curve25519-dalek/src','/verif/.work/sgr/mut','/verif/.work/sgr/vac'): os.makedirs(d,exist_ok=True)
only=sys.argv[1:]
for name,fn,a,b in M:
    if only and name not in only: continue
    assert src.count(a)==1,(name,src.count(a))
    open('/tmp/sgr/mrepo/curve25519-dalek/src/scalar.rs','w').write(src.replace(a,b))
    out='/verif/.work/sgr/mut/%s.rs'%name
    r=subprocess.run(['/verif/vx/target/release/vx','/tmp/sgr/mrepo','/verif/contracts/sgr.vx',out,out+'.json'],capture_output=True,text=True)
    if r.returncode!=0:
        print(name,'vx exit',r.returncode,(r.stdout+r.stderr)[-300:]); continue
    t0=time.time()
    r=subprocess.run(['timeout','600','verus',out,'--rlimit','100','--triggers-mode','silent','--multiple-errors','6'],capture_output=True,text=True)
    dt=time.time()-t0
    o=r.stdout+r.stderr
    res=[l for l in o.splitlines() if 'verification results' in l]
    # collect tags / error kinds
    errs=[]
    lines=o.splitlines()
    for i,l in enumerate(lines):
        if l.startswith('error') and 'aborting' not in l:
            tag=''
            for k in range(i+1,min(i+8,len(lines))):
                m=re.search(r'\[C\d+ [^\]]+\]',lines[k])
                if m: tag=m.group(0); break
                m2=re.match(r'\s*\d+ \|\s*(.*)',lines[k])
                if m2 and not tag: tag=m2.group(1).strip()[:70]
            errs.append(l[:60]+' :: '+tag)
    print('%-24s %-34s %5.1fs %s'%(name,fn,dt,res[0] if res else 'NO RESULT'))
    for e in errs[:6]: print('      ',e)
