#!/usr/bin/env python3
"""smnt_vacuity.py [generated smnt.rs] [scratch dir]

Vacuity check for unit SMNT: on SCRATCH COPIES of the generated file (default /verif/.work/smnt/smnt.rs; scratch default /tmp/smnt_mut/vac)
`assert(false)` (or a sign assertion) is inserted at chosen places of the verified bodies; Verus must REJECT every one of them.
One inserted statement per function and run (a failed assertion is assumed afterwards, so a second one in the same function would pass
vacuously); the runs are independent and executed 4 at a time with --rlimit 20.

Places (generated-file text; each must occur exactly once per function it is applied to):
  end      before the tail expression of: serial mul, vector mul, Mul<&RistrettoPoint> for &Scalar, EdwardsPoint::mul_base, mul_base_clamped,
           RistrettoPoint::mul_base, the two generated macro variants, conditional_negate (model at CachedPoint)
  loopend  after `i -= 1;` of the main loop (serial + vector)
  scan     after the leading-zero scan loop, i.e. before `let table_A` (serial + vector)
  break    inside `if i == 0 {` before `break;` of the main loop (serial + vector)
  signs    `assert(ai <= 0); assert(ai >= 0); assert(bi <= 0); assert(bi >= 0);` before the first `match` of the main loop (serial + vector):
           all four must fail (no NAF-digit sign is excluded by the context)
Exit 0 iff every inserted statement is reported as an error."""
import os, re, subprocess, sys, concurrent.futures

GEN = sys.argv[1] if len(sys.argv) > 1 else "/verif/.work/smnt/smnt.rs"
OUT = sys.argv[2] if len(sys.argv) > 2 else "/tmp/smnt_mut/vac"
src = open(GEN).read()
MARK = "/*VAC*/"


def fn_spans(text):
    """(name, start, end) of the bodies we care about, found by their unique headers"""
    heads = {
        "serial.mul": "pub fn mul(a: &Scalar, A: &EdwardsPoint, b: &Scalar) -> (res: EdwardsPoint)",
        "vector.mul": "    pub fn mul(a: &Scalar, A: &EdwardsPoint, b: &Scalar) -> (res: EdwardsPoint)",
        "Scalar*&Ristretto": "fn mul(self, point: &'b RistrettoPoint) -> (r: RistrettoPoint)",
        "EdwardsPoint::mul_base": "pub fn mul_base(scalar: &Scalar) -> (r: Self)",
        "EdwardsPoint::mul_base_clamped": "pub fn mul_base_clamped(bytes: [u8; 32]) -> (r: Self)",
        "RistrettoPoint::mul_base": "pub fn mul_base(scalar: &Scalar) -> (r: Self)",
        "variant &Scalar*EdwardsPoint": "fn mul(self, rhs: EdwardsPoint) -> (r: EdwardsPoint)",
        "variant &Scalar*RistrettoPoint": "fn mul(self, rhs: RistrettoPoint) -> (r: RistrettoPoint)",
        "CachedPoint::conditional_negate": "impl ConditionallyNegatableM for CachedPoint {",
    }
    spans = {}
    for name, h in heads.items():
        occ = [m.start() for m in re.finditer(re.escape(h), text)]
        if name == "serial.mul":
            occ = [o for o in occ if text[o - 1] == "\n"]
        elif name == "vector.mul":
            occ = [o for o in occ if text[o - 1] == "\n"]
        if name == "RistrettoPoint::mul_base":
            occ = occ[1:]
        elif name == "EdwardsPoint::mul_base":
            occ = occ[:1]
        assert len(occ) == 1, (name, len(occ))
        s = occ[0]
        if name.startswith("CachedPoint"):
            s = text.index("fn conditional_negate", s)
        # body = first `{` at line start after the header (contracts contain no line-initial `{`), balanced
        b = text.index("\n{", s) + 1 if not name.startswith(("variant", "CachedPoint")) else text.index("{", text.index(")", s))
        if name.startswith("variant"):
            b = text.index("\n    {", s) + 5
        d, i = 0, b
        while True:
            c = text[i]
            if c == "/" and text[i + 1] == "/":
                i = text.index("\n", i)
                continue
            d += (c == "{") - (c == "}")
            if d == 0:
                break
            i += 1
        spans[name] = (b, i)
    return spans


SP = fn_spans(src)


def insert_end(text, name):
    b, e = SP[name]
    body = text[b:e]
    # tail expression = last non-empty, non-comment line(s) before the closing brace: wrap it
    lines = body.rstrip().split("\n")
    k = len(lines) - 1
    while lines[k].strip() == "" or lines[k].strip().startswith("//"):
        k -= 1
    tail = lines[k]
    if tail.strip() == "}":      # tail is a block `{ expr }` (cfg'd block of mul_base): go inside
        j = k - 1
        while lines[j].strip() == "":
            j -= 1
        lines[j] = "let vx_vac = " + lines[j].split("//")[0].strip() + "; assert(false); " + MARK + " vx_vac"
    elif tail.strip().endswith(";"):     # unit-returning body
        lines[k] = tail + " assert(false); " + MARK
    else:
        lines[k] = "let vx_vac = " + tail.split("//")[0].strip() + "; assert(false); " + MARK + " vx_vac"
    return text[:b] + "\n".join(lines) + "\n" + text[e:]


def insert_at(text, name, pat, stmt, after=True, nth=1):
    b, e = SP[name]
    body = text[b:e]
    occ = [m for m in re.finditer(pat, body)]
    assert len(occ) >= nth, (name, pat, len(occ))
    m = occ[nth - 1]
    pos = m.end() if after else m.start()
    return text[:b] + body[:pos] + " " + stmt + " " + MARK + " " + body[pos:] + text[e:]


RUNS = []
# run "end": all nine bodies at once (one statement per function). Apply from the last span to the first so offsets stay valid.
t = src
for name in sorted(SP, key=lambda n: -SP[n][0]):
    t = insert_end(t, name)
RUNS.append(("end", t, 9))
for label, pat, after, nth in (("loopend", r"\n\s*i -= 1;", True, 1), ("scan", r"\n\s*let table_A", False, 1), ("break", r"if i == 0 \{", True, 1)):
    t = src
    for name in ("vector.mul", "serial.mul"):
        t = insert_at(t, name, pat, "assert(false);", after, nth)
    RUNS.append((label, t, 2))
t = src
for name in ("vector.mul", "serial.mul"):
    # ghost names ai / bi are introduced by the template before the first `match`; the sign asserts go right before that match
    t = insert_at(t, name, r"\n\s*match a_naf\[i\]", "assert(ai <= 0); assert(ai >= 0); assert(bi <= 0); assert(bi >= 0);", False, 1)
RUNS.append(("signs", t, 8))


def run(job):
    label, text, expect = job
    d = os.path.join(OUT, label)
    os.makedirs(d, exist_ok=True)
    f = os.path.join(d, "smnt.rs")
    open(f, "w").write(text)
    marked = [i + 1 for i, l in enumerate(text.split("\n")) if MARK in l]
    p = subprocess.run(["timeout", "900", "verus", "smnt.rs", "--rlimit", "20", "--triggers-mode", "silent", "--multiple-errors", "50"],
                       cwd=d, capture_output=True, text=True)
    err = p.stdout + p.stderr
    hit = set()
    lines = text.split("\n")
    head = {}     # marked line -> line of the enclosing `fn` header (an `rlimit exceeded` is reported there: also a rejection)
    for ml in marked:
        k = ml - 1
        while not re.search(r"\bfn \w+", lines[k]):
            k -= 1
        head[k + 1] = ml
    for m in re.finditer(r"error: ([^\n]*)\n\s*--> smnt\.rs:(\d+):", err):
        ln = int(m.group(2))
        if ln in marked:
            hit.add(ln)
        elif ln in head and "rlimit" in m.group(1).lower():
            hit.add(head[ln])
    # a sign run has 4 asserts on one line: count the distinct column hits instead
    n_err = len(re.findall(r"^error", err, re.M))
    m = re.search(r"verification results:: (\d+) verified, (\d+) errors", err)
    return label, expect, marked, hit, n_err, (m.group(0) if m else err[-300:])


ok = True
with concurrent.futures.ThreadPoolExecutor(max_workers=4) as ex:
    for label, expect, marked, hit, n_err, summ in ex.map(run, RUNS):
        if label == "signs":
            good = len(hit) == len(marked) and n_err - 1 >= expect     # `error: aborting` line counted once
        else:
            good = len(hit) == len(marked) == expect
        ok &= good
        print("%-8s inserted on %d line(s), rejected on %d, %d error reports  [%s]  %s" % (label, len(marked), len(hit), n_err, summ, "OK" if good else "** NOT REJECTED **"))
print("VACUITY:", "all inserted statements rejected" if ok else "SOME STATEMENT WAS ACCEPTED")
sys.exit(0 if ok else 1)
