#!/usr/bin/env python3
# Mutation sanity check for unit VMSM (AGENT_GUIDE "Mutation sanity check").
# usage: tools/msm_mutate.py <label> <repo-relative file> <old text> <new text> [nth occurrence] [verus args...]
# Copies the source files of the unit into a scratch root (.work/vmsm/mrepo_<label>), replaces ONE occurrence of <old> by <new>, runs vx on
# the scratch root and then verus on the WHOLE generated file, and prints the failed obligations. /repo is never touched.
import sys, os, shutil, subprocess, time, re
label, rel, old, new = sys.argv[1:5]
nth = int(sys.argv[5]) if len(sys.argv) > 5 and sys.argv[5].isdigit() else 1
extra = sys.argv[6:] if (len(sys.argv) > 5 and sys.argv[5].isdigit()) else sys.argv[5:]
unit = os.environ.get('VMSM_UNIT', "vmsm")
root = f'/verif/.work/vmsm/mrepo_{label}'
os.makedirs('/verif/.work/vmsm/mut', exist_ok=True)
files = ['curve25519-dalek/src/edwards.rs', 'curve25519-dalek/src/window.rs', 'curve25519-dalek/src/scalar.rs', 'curve25519-dalek/src/traits.rs',
         'curve25519-dalek/src/backend/mod.rs', 'curve25519-dalek/src/backend/vector/avx2/edwards.rs',
         'curve25519-dalek/src/backend/serial/scalar_mul/precomputed_straus.rs', 'curve25519-dalek/src/backend/serial/scalar_mul/straus.rs',
         'curve25519-dalek/src/backend/serial/scalar_mul/pippenger.rs', 'curve25519-dalek/src/backend/serial/curve_models/mod.rs',
         'curve25519-dalek/src/backend/vector/scalar_mul/straus.rs', 'curve25519-dalek/src/backend/vector/scalar_mul/pippenger.rs',
         'curve25519-dalek/src/backend/vector/scalar_mul/precomputed_straus.rs']
for f in files:
    os.makedirs(os.path.dirname(f'{root}/{f}'), exist_ok=True)
    shutil.copy(f'/repo/{f}', f'{root}/{f}')
s = open(f'{root}/{rel}').read()
idx = -1
for _ in range(nth):
    idx = s.index(old, idx + 1)
s = s[:idx] + new + s[idx + len(old):]
open(f'{root}/{rel}', 'w').write(s)
out = f'/verif/.work/vmsm/mut/mut_{label}.rs'
r = subprocess.run(['/verif/vx/target/release/vx', root, f'/verif/contracts/{unit}.vx', out, out + '.json'], capture_output=True, text=True)
shutil.rmtree(root, ignore_errors=True)
if r.returncode != 0:
    print(f'== {label}: vx exit {r.returncode} (undecided-extraction)', r.stderr.strip().split('\n')[-1]); sys.exit(0)
t = time.time()
base = [] if '--rlimit' in extra else ['--rlimit', '100']
r = subprocess.run(['timeout', '900', 'verus', out] + base + ['--triggers-mode', 'silent'] + extra, capture_output=True, text=True, cwd='/verif/.work/vmsm/mut')
dt = time.time() - t
txt = r.stdout + r.stderr
lines = txt.split('\n')
errs = []
for i, l in enumerate(lines):
    if l.startswith('error') and 'aborting' not in l:
        ctx = ' | '.join(x.strip() for x in lines[i+1:i+8] if re.search(r'^\s*\d+ \|', x))
        errs.append(l + '  ::  ' + ctx[:230])
res = [l for l in lines if 'verification results' in l]
print(f'== {label}: {res} {dt:.1f}s')
if not res: print(txt[-1500:])
for e in errs[:6]: print('   ', e)
