#!/usr/bin/env python3
"""Mutation and vacuity checks for unit IFMAF (contracts/ifmaf.vx: AVX-512 IFMA field arithmetic, ifma/field.rs).
  python3 tools/ifmaf_mutate.py [-j N] [name ...]   mutants: one small (mostly single-token) change of ifma/field.rs in a fake repo root
                                                    /tmp/ifmaf_mut/<name>/mrepo (only the files the template reads are copied, paths preserved; /repo is
                                                    never touched), re-extracted with vx against the UNCHANGED template and re-verified.
                                                    killed = Verus rejects; undecided = vx refuses (lost anchor ..); SURVIVED = still verifies.
  python3 tools/ifmaf_mutate.py --vacuity [name ..] on a scratch copy of the GENERATED file (not the template): the body of every extracted exec fn and of
                                                    every proof fn is wrapped as `{ let r = { BODY }; assert(false); r }`; every probe must be REJECTED.
  python3 tools/ifmaf_mutate.py --clean             remove /tmp/ifmaf_mut
Environment: RL (verus --rlimit, default 20; the unmutated unit needs < 2), REPO (default /repo)."""
import json, os, re, shutil, subprocess, sys, time
from concurrent.futures import ThreadPoolExecutor
VERIF = "/verif"
REPO = os.environ.get("REPO", "/repo")
F = "curve25519-dalek/src/backend/vector/ifma/field.rs"
U = "curve25519-dalek/src/backend/serial/u64/field.rs"
NEEDED = [F, U]
BASE = "/tmp/ifmaf_mut"
RL = os.environ.get("RL", "20")
TPL = os.path.join(VERIF, "contracts/ifmaf.vx")
VX = os.path.join(VERIF, "vx/target/release/vx")
M = [
    # (name, old, new, nth occurrence of old in ifma/field.rs)
    ("madd52lo-calls-hi", "_mm256_madd52lo_epu64(z.into(), x.into(), y.into()).into()", "_mm256_madd52hi_epu64(z.into(), x.into(), y.into()).into()", 1),
    ("madd52hi-operands-rotated", "_mm256_madd52hi_epu64(z.into(), x.into(), y.into()).into()", "_mm256_madd52hi_epu64(x.into(), z.into(), y.into()).into()", 1),
    ("shuffle-BADC-imm", "Shuffle::BADC => perm(x.into(), 0b10_11_00_01).into(),", "Shuffle::BADC => perm(x.into(), 0b10_11_01_00).into(),", 1),
    ("shuffle-DBBD-imm", "Shuffle::DBBD => perm(x.into(), 0b11_01_01_11).into(),", "Shuffle::DBBD => perm(x.into(), 0b11_01_01_10).into(),", 1),
    ("shuffle-CACA-imm", "Shuffle::CACA => perm(x.into(), 0b00_10_00_10).into(),", "Shuffle::CACA => perm(x.into(), 0b00_10_10_00).into(),", 1),
    ("blend-D-selects-C", "Lanes::D => blend(x.into(), y.into(), 0b11_00_00_00).into(),", "Lanes::D => blend(x.into(), y.into(), 0b00_11_00_00).into(),", 1),
    ("blend-AC-imm", "Lanes::AC => blend(x.into(), y.into(), 0b00_11_00_11).into(),", "Lanes::AC => blend(x.into(), y.into(), 0b00_11_11_00).into(),", 1),
    ("blend-BCD-half-lane", "Lanes::BCD => blend(x.into(), y.into(), 0b11_11_11_00).into(),", "Lanes::BCD => blend(x.into(), y.into(), 0b11_11_10_00).into(),", 1),
    ("blend-operands-swapped", "Lanes::AB => blend(x.into(), y.into(), 0b00_00_11_11).into(),", "Lanes::AB => blend(y.into(), x.into(), 0b00_00_11_11).into(),", 1),
    ("ZERO-is-one", "F51x4Unreduced([u64x4::splat_const::<0>(); 5])", "F51x4Unreduced([u64x4::splat_const::<1>(); 5])", 1),
    ("new-lane-order", "u64x4::new(x0.0[2], x1.0[2], x2.0[2], x3.0[2]),", "u64x4::new(x1.0[2], x0.0[2], x2.0[2], x3.0[2]),", 1),
    ("new-wrong-limb", "u64x4::new(x0.0[3], x1.0[3], x2.0[3], x3.0[3]),", "u64x4::new(x0.0[3], x1.0[3], x2.0[2], x3.0[3]),", 1),
    ("split-extract-lane", "x[2].extract::<1>(),", "x[2].extract::<0>(),", 1),
    ("split-wrong-vector", "x[3].extract::<2>(),", "x[4].extract::<2>(),", 1),
    ("diff_sum-shuffle", "let tmp1 = self.shuffle(Shuffle::BADC);", "let tmp1 = self.shuffle(Shuffle::ABDC);", 1),
    ("diff_sum-negate-wrong-lanes", "let tmp2 = self.blend(&self.negate_lazy(), Lanes::AC);", "let tmp2 = self.blend(&self.negate_lazy(), Lanes::AD);", 1),
    ("negate_lazy-lo-const", "let lo = u64x4::splat(36028797018963664u64);", "let lo = u64x4::splat(36028797018963665u64);", 1),
    ("negate_lazy-hi-const", "let hi = u64x4::splat(36028797018963952u64);", "let hi = u64x4::splat(36028797018963951u64);", 1),
    ("negate_lazy-hi-8p", "let hi = u64x4::splat(36028797018963952u64);", "let hi = u64x4::splat(18014398509481976u64);", 1),
    ("negate_lazy-lo-for-limb1", "hi - self.0[1],", "lo - self.0[1],", 1),
    ("negate_lazy-wrong-vector", "hi - self.0[3],", "hi - self.0[2],", 1),
    ("neg-drops-negation", "F51x4Unreduced::from(self).negate_lazy().into()", "F51x4Unreduced::from(self).into()", 1),
    ("select-wrong-vector", "a.0[3] ^ (mask_vec & (a.0[3] ^ b.0[3])),", "a.0[3] ^ (mask_vec & (a.0[3] ^ b.0[2])),", 1),
    ("select-mask-not-negated", "let mask = (-(choice.unwrap_u8() as i64)) as u64;", "let mask = ((choice.unwrap_u8() as i64)) as u64;", 1),
    ("assign-wrong-vector", "self.0[1] ^= mask_vec & (self.0[1] ^ other.0[1]);", "self.0[1] ^= mask_vec & (self.0[1] ^ other.0[2]);", 1),
    ("assign-mask-not-negated", "let mask = (-(choice.unwrap_u8() as i64)) as u64;", "let mask = ((choice.unwrap_u8() as i64)) as u64;", 2),
    ("reduce-mask-52", "let mask = u64x4::splat((1 << 51) - 1);", "let mask = u64x4::splat((1 << 52) - 1);", 1),
    ("reduce-mask-minus-2", "let mask = u64x4::splat((1 << 51) - 1);", "let mask = u64x4::splat((1 << 51) - 2);", 1),
    ("reduce-shr-52", "let c3 = x.0[3].shr::<51>();", "let c3 = x.0[3].shr::<52>();", 1),
    ("reduce-19to18", "let r19 = u64x4::splat(19);", "let r19 = u64x4::splat(18);", 2),
    ("reduce-wrong-carry", "(x.0[2] & mask) + c1,", "(x.0[2] & mask) + c2,", 1),
    ("reduce-carry-from-wrong-limb", "let c4 = x.0[4].shr::<51>();", "let c4 = x.0[3].shr::<51>();", 1),
    ("reduce-fold-uses-hi", "madd52lo(x.0[0] & mask, c4, r19),", "madd52hi(x.0[0] & mask, c4, r19),", 1),
    ("reduce-limb-unmasked", "(x.0[4] & mask) + c3,", "(x.0[4]) + c3,", 1),
    ("add-wrong-vector", "self.0[2] + rhs.0[2],", "self.0[2] + rhs.0[1],", 1),
    ("smul-lo-hi-swapped", "z4_2 = madd52hi(z4_2, y, x[3]);", "z4_2 = madd52lo(z4_2, y, x[3]);", 1),
    ("smul-wrong-limb", "z3_1 = madd52lo(z3_1, y, x[3]);", "z3_1 = madd52lo(z3_1, y, x[2]);", 1),
    ("smul-fold-not-doubled", "z0_1 = madd52lo(z0_1, z5_2 + z5_2, r19);", "z0_1 = madd52lo(z0_1, z5_2, r19);", 1),
    ("smul-19to18", "let r19 = u64x4::splat(19);", "let r19 = u64x4::splat(18);", 3),
    ("smul-result-not-doubled", "z2_1 + z2_2 + z2_2,", "z2_1 + z2_2,", 2),
    ("smul-scalar-order", "scalars.1 as u64,", "scalars.0 as u64,", 1),
    ("smul-fold-into-wrong-limb", "z0_1 = madd52lo(z0_1, z5_2 + z5_2, r19);", "z1_1 = madd52lo(z1_1, z5_2 + z5_2, r19);", 1),
    ("mul-lo-hi-swapped", "z5_2 = madd52hi(z5_2, x[2], y[2]);", "z5_2 = madd52lo(z5_2, x[2], y[2]);", 1),
    ("mul-wrong-index-y", "z4_1 = madd52lo(z4_1, x[3], y[1]);", "z4_1 = madd52lo(z4_1, x[3], y[2]);", 1),
    ("mul-wrong-index-x", "z3_2 = madd52hi(z3_2, x[0], y[2]);", "z3_2 = madd52hi(z3_2, x[1], y[2]);", 1),
    ("mul-wrong-accumulator", "z6_1 = madd52lo(z6_1, x[4], y[2]);", "z6_1 = madd52lo(z5_1, x[4], y[2]);", 1),
    ("mul-z9-not-doubled", "let z9 = z9_2 + z9_2;", "let z9 = z9_2;", 1),
    ("mul-z8-not-doubled", "let z8 = z8_1 + z8_2 + z8_2;", "let z8 = z8_1 + z8_2;", 1),
    ("mul-19to18", "let r19 = u64x4::splat(19);", "let r19 = u64x4::splat(18);", 4),
    ("mul-shr-51", "t1 = madd52lo(t1, r19, z9.shr::<52>());", "t1 = madd52lo(t1, r19, z9.shr::<51>());", 1),
    ("mul-fold-wrong-source", "z1_2 = madd52lo(z1_2, r19, z5.shr::<52>());", "z1_2 = madd52lo(z1_2, r19, z6.shr::<52>());", 1),
    ("mul-fold-lo-hi-swapped", "z4_2 = madd52hi(z4_2, r19, z8);", "z4_2 = madd52lo(z4_2, r19, z8);", 1),
    ("mul-fold-wrong-coefficient", "z0_1 = madd52lo(z0_1, r19, z5);", "z0_1 = madd52lo(z0_1, r19, z6);", 1),
    ("mul-second-fold-dropped", "z0_2 = madd52lo(z0_2, r19, t0 + t1);", "z0_2 = madd52lo(z0_2, r19, t0);", 2),
    ("mul-result-not-doubled", "z4_1 + z4_2 + z4_2,", "z4_1 + z4_2,", 3),
    ("sq-shl2-to-1", "let mut z2_1 = z2_4.shl::<2>();", "let mut z2_1 = z2_4.shl::<1>();", 1),
    ("sq-shl1-to-2", "z5_1 += z5_2.shl::<1>();", "z5_1 += z5_2.shl::<2>();", 1),
    ("sq-z9-not-doubled", "z9_1 += z9_2.shl::<1>();", "z9_1 += z9_2;", 1),
    ("sq-wrong-operand", "z3_2 = madd52lo(z3_2, x[0], x[3]);", "z3_2 = madd52lo(z3_2, x[0], x[2]);", 1),
    ("sq-lo-hi-swapped", "z1_2 = madd52hi(z1_2, x[0], x[0]);", "z1_2 = madd52lo(z1_2, x[0], x[0]);", 1),
    ("sq-cross-term-into-coeff1", "z2_2 = madd52lo(z2_2, x[0], x[2]);", "z2_1 = madd52lo(z2_1, x[0], x[2]);", 1),
    ("sq-19to18", "let r19 = u64x4::splat(19);", "let r19 = u64x4::splat(18);", 1),
    ("sq-fold-wrong-source", "z2_2 = madd52lo(z2_2, r19, z6_1.shr::<52>());", "z2_2 = madd52lo(z2_2, r19, z7_1.shr::<52>());", 1),
    ("sq-shr-51", "z4_2 = madd52lo(z4_2, r19, z8_1.shr::<52>());", "z4_2 = madd52lo(z4_2, r19, z8_1.shr::<51>());", 1),
    ("sq-result-not-doubled", "z1_1 + z1_2 + z1_2,", "z1_1 + z1_2,", 1),
]


def tags_of(out, genfile):
    """failing obligations: the [Cxx ..] tag (or a short quote) of every line an `error` points at"""
    gen = open(genfile).read().split("\n") if os.path.exists(genfile) else []
    res, cur = [], None
    for l in out.split("\n"):
        if l.startswith("error"):
            cur = re.sub(r"^error(\[\w+\])?: ", "", l).split(";")[0][:60]
        m = re.search(r"--> \w+\.rs:(\d+):", l)
        if m and cur:
            n = int(m.group(1))
            src = gen[n - 1] if 0 < n <= len(gen) else ""
            t = re.findall(r"\[(C\d\d [^\]]+)\]", src)
            res.append("%s {%s}" % (cur, t[0] if t else src.strip()[:60]))
            cur = None
    seen = []
    for r in res:
        if r not in seen:
            seen.append(r)
    return seen[:3]


def run_verus(w, name="ifmaf.rs"):
    t0 = time.time()
    pr = subprocess.run(["timeout", "1500", "verus", name, "--rlimit", RL, "--triggers-mode", "silent"], capture_output=True, text=True, cwd=w)
    o = pr.stdout + pr.stderr
    m = re.search(r"verification results:: (\d+) verified, (\d+) errors", o)
    return o, (int(m.group(1)), int(m.group(2))) if m else None, time.time() - t0, pr.returncode


def mutant(m):
    name, old, new, nth = m
    w = os.path.join(BASE, name)
    root = os.path.join(w, "mrepo")
    shutil.rmtree(w, ignore_errors=True)
    for f in NEEDED:
        os.makedirs(os.path.dirname(os.path.join(root, f)), exist_ok=True)
        shutil.copy(os.path.join(REPO, f), os.path.join(root, f))
    src = open(os.path.join(root, F)).read()
    pos = -1
    for _ in range(nth):
        pos = src.find(old, pos + 1)
        if pos < 0:
            return "%-30s NOT APPLICABLE (pattern #%d not found)" % (name, nth)
    src = src[:pos] + new + src[pos + len(old):]
    open(os.path.join(root, F), "w").write(src)
    line = src[:pos].count("\n") + 1
    r = subprocess.run([VX, root, TPL, w + "/ifmaf.rs", w + "/ifmaf.log.json"], capture_output=True, text=True)
    desc = "%s:%d  %s  =>  %s" % (os.path.basename(F), line, old.strip()[:70], new.strip()[:70])
    if r.returncode != 0:
        return "%-30s UNDECIDED (vx exit %d: %s)\n      %s" % (name, r.returncode, r.stderr.strip().split("\n")[-1][:120], desc)
    o, vr, dt, rc = run_verus(w)
    if vr is None:
        return "%-30s KILLED? no summary (rc %d): %s\n      %s" % (name, rc, [l for l in o.split("\n") if l.startswith("error")][:2], desc)
    verdict = "SURVIVED" if (vr[1] == 0 and rc == 0) else "KILLED"
    return "%-30s %s  %d verified, %d errors  %.0fs | %s\n      %s" % (name, verdict, vr[0], vr[1], dt, "; ".join(tags_of(o, w + "/ifmaf.rs")), desc)


def vacuity(only=None):
    w = os.path.join(BASE, "vac")
    shutil.rmtree(w, ignore_errors=True)
    os.makedirs(w)
    r = subprocess.run([VX, REPO, TPL, w + "/base.rs", w + "/base.log.json"], capture_output=True, text=True)
    assert r.returncode == 0, r.stderr
    gen = open(w + "/base.rs").read().split("\n")
    log = json.load(open(w + "/base.log.json"))
    regions = []  # (name, first line idx of region, last line idx) 0-based inclusive
    for it in log["items"]:
        if it["kind"] == "fn" or (it["kind"] == "item" and it["path"].startswith("fn ")):
            regions.append((it["path"], it["gen_lines"][0] - 1, it["gen_lines"][1] - 1))
    # proof fns (lemmas of the included libs and of the template): `proof fn name(` ... a line `{` ... a line `}`
    covered = set()
    for (_, a, b) in regions:
        covered.update(range(a, b + 1))
    i = 0
    while i < len(gen):
        m = re.match(r"^\s*(pub )?(broadcast )?proof fn (\w+)", gen[i])
        if m and i not in covered:
            j = i
            while j < len(gen) and gen[j].rstrip() != "{" and not gen[j].rstrip().endswith("{}"):
                j += 1
            k = j
            while k < len(gen) and gen[k].rstrip() != "}":
                k += 1
            if j < len(gen) and k < len(gen) and gen[j].rstrip() == "{":
                regions.append(("proof " + m.group(3), i, k))
            i = k
        i += 1
    out = list(gen)
    probes = []
    for (name, a, b) in regions:
        if only and not any(x in name for x in only):
            continue
        # body open: first line in the region that starts with `{` at column 0; body close: last line of the region containing `}`
        o = next((n for n in range(a, b + 1) if gen[n].startswith("{")), None)
        c = next((n for n in range(b, a, -1) if "}" in gen[n]), None)
        if o is None or c is None or c <= o:
            print("   %-60s SKIPPED (cannot locate body)" % name)
            continue
        # keep leading hide(..) statements first (Verus requires them at the beginning of the fn body)
        h = o + 1
        last_hide = None
        while h < c and (gen[h].strip().startswith("hide(") or gen[h].strip() == "" or gen[h].strip().startswith("//")):
            if gen[h].strip().startswith("hide("):
                last_hide = h
            h += 1
        rest = gen[o][1:]
        if last_hide is None:
            out[o] = "{ let vx_vac_r = {" + rest
        else:
            out[o] = "{" + rest
            out[last_hide] = out[last_hide] + " let vx_vac_r = {"
        idx = out[c].rfind("}")
        out[c] = out[c][:idx] + "}; assert(false); /* VACUITY %s */ vx_vac_r }" % name + out[c][idx + 1:]
        probes.append((name, c))
    open(w + "/ifmaf.rs", "w").write("\n".join(out))
    o, vr, dt, rc = run_verus(w)
    hit = {}
    cur = None
    for l in o.split("\n"):
        if l.startswith("error"):
            cur = l
        m = re.search(r"--> ifmaf\.rs:(\d+):", l)
        if m and cur:
            n = int(m.group(1)) - 1
            for (name, c) in probes:
                if n == c and "assertion failed" in cur:
                    hit[name] = "refuted"
            if "rlimit" in cur:
                for (name, c) in sorted(probes, key=lambda p: p[1]):
                    if c > n:
                        hit.setdefault(name, "rlimit (undecided)")
                        break
            cur = None
    print("vacuity: %d probes, %.0fs, verus: %s (rc %d)" % (len(probes), dt, vr, rc))
    bad = 0
    for (name, c) in probes:
        v = hit.get(name, "!!! NOT REFUTED (vacuous context?)")
        bad += v.startswith("!!!")
        print("   %-70s %s" % (name, v))
    print("vacuity summary: %d refuted, %d undecided, %d NOT refuted" % (sum(1 for v in hit.values() if v == "refuted"), sum(1 for v in hit.values() if v != "refuted"), bad))
    if vr is None:
        print(o[-3000:])


if __name__ == "__main__":
    args = sys.argv[1:]
    if args and args[0] == "--clean":
        shutil.rmtree(BASE, ignore_errors=True)
        sys.exit(0)
    if args and args[0] == "--vacuity":
        vacuity(args[1:])
        sys.exit(0)
    j = 4
    if args and args[0] == "-j":
        j = int(args[1])
        args = args[2:]
    todo = [m for m in M if not args or any(a in m[0] for a in args)]
    t0 = time.time()
    res = []
    with ThreadPoolExecutor(max_workers=j) as ex:
        for r in ex.map(mutant, todo):
            print(r)
            sys.stdout.flush()
            res.append(r)
    k = sum(1 for r in res if " KILLED" in r.split("\n")[0])
    u = sum(1 for r in res if " UNDECIDED" in r.split("\n")[0])
    s = sum(1 for r in res if " SURVIVED" in r.split("\n")[0])
    print("SUMMARY: %d mutants: %d killed, %d undecided, %d SURVIVED, %d other; %.0fs" % (len(res), k, u, s, len(res) - k - u - s, time.time() - t0))
