#!/usr/bin/env python3
"""mutation sanity checks for unit F32: each entry = (name, old, new, nth). Copies field.rs into a fake repo root with one change,
re-extracts with vx and expects verus to FAIL; prints the failing obligations (tag comments on the reported lines)."""
import subprocess, sys, time, re, os, json
SRC="/repo/curve25519-dalek/src/backend/serial/u32/field.rs"
MR="/tmp/f32_mut/mrepo"; DST=MR+"/curve25519-dalek/src/backend/serial/u32/field.rs"; os.makedirs(os.path.dirname(DST),exist_ok=True)
W="/tmp/f32_mut/work"; os.makedirs(W,exist_ok=True)
M=[
 ("mul-19to18", "let y9_19 = 19 * y[9];", "let y9_19 = 18 * y[9];", 1),
 ("mul-drop-x2", "let x1_2 = 2 * x[1];", "let x1_2 = 1 * x[1];", 1),
 ("mul-z3-nofold", "m(x[3],  y[0]) + m(x[4], y9_19)", "m(x[3],  y[0]) + m(x[4], y[9])", 1),
 ("reduce-19to18", "z[0] += 19 * (z[9] >> 25);", "z[0] += 18 * (z[9] >> 25);", 1),
 ("carry-shift26to25", "z[i + 1] += z[i] >> 26;", "z[i + 1] += z[i] >> 25;", 1),
 ("reduce-mask25", "const LOW_25_BITS: u64 = (1 << 25) - 1;", "const LOW_25_BITS: u64 = (1 << 24) - 1;", 1),
 ("sub-16p-const", "((self.0[0] + (0x3ffffed << 4)) - b[0]) as u64", "((self.0[0] + (0x3ffffec << 4)) - b[0]) as u64", 1),
 ("negate-shift", "((0x1ffffff << 4) - self.0[1]) as u64", "((0x1ffffff << 3) - self.0[1]) as u64", 1),
 ("sq-drop-x2-oddodd", "m(x1_2,  x3_2) + m(x[2],  x[2])", "m(x1_2,  x[3]) + m(x[2],  x[2])", 1),
 ("sq-z9-drop-x2", "m(x4_2,  x[5])", "m(x[4],  x[5])", 1),
 ("sq-19to18", "let x7_19 = 19 * x[7];", "let x7_19 = 18 * x[7];", 1),
 ("from_bytes-shift", "h[3] =  load3(&data[10..]) << 3;", "h[3] =  load3(&data[10..]) << 2;", 1),
 ("from_bytes-mask23", "const LOW_23_BITS: u64 = (1 << 23) - 1;", "const LOW_23_BITS: u64 = (1 << 24) - 1;", 1),
 ("from_bytes-offset", "h[6] =  load3(&data[20..]) << 7;", "h[6] =  load3(&data[21..]) << 7;", 1),
 ("as_bytes-q19to18", "let mut q: u32 = (h[0] + 19) >> 26;", "let mut q: u32 = (h[0] + 18) >> 26;", 1),
 ("as_bytes-19q", "h[0] += 19 * q;", "h[0] += 18 * q;", 1),
 ("as_bytes-byte12", "s[12] = ((h[3] >> 19) | (h[4] << 6)) as u8;", "s[12] = ((h[3] >> 19) | (h[4] << 5)) as u8;", 1),
 ("as_bytes-qshift", "q = (h[5] + q) >> 25;", "q = (h[5] + q) >> 26;", 1),
 ("pow2k-range", "for _ in 1..k {", "for _ in 0..k {", 1),
 ("square2-nodouble", "*coeff += *coeff;", "*coeff += 0;", 1),
 ("MINUS_ONE", "0x3ffffec, 0x1ffffff, 0x3ffffff,", "0x3ffffed, 0x1ffffff, 0x3ffffff,", 1),
 ("select-swapped", "u32::conditional_select(&a.0[3], &b.0[3], choice)", "u32::conditional_select(&b.0[3], &a.0[3], choice)", 1),
 ("add_assign-range", "for i in 0..10 {\n            self.0[i] += _rhs.0[i];", "for i in 0..9 {\n            self.0[i] += _rhs.0[i];", 1),
]
only=sys.argv[1:]
src=open(SRC).read()
for (name,old,new,nth) in M:
    if only and name not in only: continue
    assert src.count(old)>=nth, (name, src.count(old))
    parts=src.split(old); mut=old.join(parts[:nth])+new+old.join(parts[nth:])
    assert mut!=src
    open(DST,"w").write(mut)
    t0=time.time()
    r=subprocess.run(["/verif/vx/target/release/vx",MR,"/verif/contracts/f32.vx",W+"/f32.rs",W+"/f32.json"],capture_output=True,text=True)
    if r.returncode!=0:
        print("%-22s vx exit %d (undecided): %s"%(name,r.returncode,(r.stderr or r.stdout).strip()[:200])); continue
    p=subprocess.run(["timeout","600","verus","f32.rs","--rlimit","100","--triggers-mode","silent"],capture_output=True,text=True,cwd=W)
    dt=time.time()-t0
    out=p.stdout+p.stderr
    gen=open(W+"/f32.rs").read().split("\n")
    fails=[]
    lines=out.split("\n")
    for i,l in enumerate(lines):
        if l.startswith("error") and "aborting" not in l:
            loc=""
            # collect every location line of this diagnostic
            j=i+1; tags=[]; fn=""
            while j<len(lines) and not lines[j].startswith("error") and not lines[j].startswith("note: function body") and not lines[j].startswith("verification results"):
                m=re.search(r"--> f32\.rs:(\d+):",lines[j]) or re.search(r"::: f32\.rs:(\d+):",lines[j])
                if m:
                    g=gen[int(m.group(1))-1]
                    t=re.search(r"\[C\d+ [^\]]+\]",g)
                    tags.append(t.group(0) if t else g.strip()[:70])
                j+=1
            fails.append("%s {%s}"%(l[7:60].strip()," | ".join(tags)))
    res=re.search(r"verification results:: (\d+) verified, (\d+) errors",out)
    print("%-22s %s  %.0fs\n      %s"%(name, res.group(0)[22:] if res else "NO RESULT", dt, "\n      ".join(fails) if fails else "!!! NOT DETECTED"))
    sys.stdout.flush()
