#!/usr/bin/env python3
"""Emits the ghost-exponent hints for `UnpackedScalar::montgomery_invert` (curve25519-dalek/src/scalar.rs) into
contracts/lib/sg_invert_chain.inc.  The addition chain is READ from the source (so the numerals need not be typed), but every hint is
*checked* by Verus against the re-extracted code on each run: a changed squaring count / operand in the source makes the recorded
exponent wrong and the corresponding `lemma_sg_sqmul` precondition / assertion fail.   usage: python3 tools/gen_sg_chain.py [repo-root]"""
import os, re, sys
repo = sys.argv[1] if len(sys.argv) > 1 else "/repo"
src = open(os.path.join(repo, "curve25519-dalek/src/scalar.rs")).read()
L = 2**252 + 27742317777372353535851937790883648493
m = re.search(r"pub fn montgomery_invert\(&self\) -> UnpackedScalar \{(.*?)\n    \}\n", src, re.S)
body = m.group(1)
def lit(n): return ("%d" % n) if n < 2**63 else '(spec_literal_int("%d") as nat)' % n
def val(v): return "s52_int(%s.0)" % v
out = []
w = out.append
e = {}
nsm = 0
for line in body.split("\n"):
    s = " ".join(line.split())
    if s.startswith("//") or not s: continue
    a = re.fullmatch(r"let (_\d+) = \*self;", s)
    if a:
        v = a.group(1); e[v] = 1
        w("//@ after let %s =" % v)
        w("//@|        let ghost x = sg_from_mont(s52_int(self.0));")
        w("//@|        proof { lemma_s52_int_bound(self.0); lemma_sg_from_mont_range(s52_int(self.0)); lemma_lpow_1_reduced(x); assert(sg_from_mont(%s) == lpow(x, 1)); }" % val(v))
        continue
    a = re.fullmatch(r"let (_\d+) = (_\d+)\.montgomery_square\(\);", s)
    if a:
        v, u = a.groups(); e[v] = 2 * e[u]
        w("//@ before let %s =" % v)
        w("//@|        proof { if %s < ell() { lemma_sg_prod_ok(%s, %s); } }" % (val(u), val(u), val(u)))
        w("//@ after let %s =" % v)
        w("//@|        proof { lemma_sg_mmul_intro(%s, %s, %s); lemma_sg_mul_step(x, %s, %s, %s, %s, %s); assert(sg_from_mont(%s) == lpow(x, %s)); }   // [C02 SG.montgomery_invert.chain]"
          % (val(v), val(u), val(u), val(u), lit(e[u]), val(u), lit(e[u]), val(v), val(v), lit(e[v])))
        continue
    a = re.fullmatch(r"let (mut y|_\d+) = UnpackedScalar::montgomery_mul\(&(_\d+), &(_\d+)\);", s)
    if a:
        v, p, q = a.groups(); head = v; v = "y" if v == "mut y" else v; e[v] = e[p] + e[q]
        w("//@ before let %s =" % head)
        w("//@|        proof { lemma_sg_prod_ok(%s, %s); }" % (val(p), val(q)))
        w("//@ after let %s =" % head)
        w("//@|        proof { lemma_sg_mmul_intro(%s, %s, %s); lemma_sg_mul_step(x, %s, %s, %s, %s, %s); assert(sg_from_mont(%s) == lpow(x, %s)); }   // [C02 SG.montgomery_invert.chain]"
          % (val(v), val(p), val(q), val(p), lit(e[p]), val(q), lit(e[q]), val(v), val(v), lit(e[v])))
        continue
    a = re.fullmatch(r"square_multiply\(&mut y, ([0-9+ ]+), &(_\d+)\);", s)
    if a:
        k = eval(a.group(1)); q = a.group(2); nsm += 1
        e0 = e["y"]; e["y"] = e0 * 2**k + e[q]
        w("//@ before square_multiply #%d" % nsm)
        w("//@|        let ghost yp = s52_int(y.0);")
        w("//@ after square_multiply #%d" % nsm)
        w("//@|        proof { assert(%s == %s * lpow2(%d) + %s) by (compute); lemma_sg_sqmul(x, yp, %s, %d, %s, %s, s52_int(y.0), %s); assert(sg_from_mont(s52_int(y.0)) == lpow(x, %s)); }   // [C02 SG.montgomery_invert.chain]"
          % (lit(e["y"]), lit(e0), k, lit(e[q]), lit(e0), k, val(q), lit(e[q]), lit(e["y"]), lit(e["y"])))
        continue
    if s.startswith("#[inline]") or s.startswith("fn square_multiply") or s.startswith("for _ in") or s.startswith("*y =") or s in ("}", "y"): continue
    raise SystemExit("unrecognised line in montgomery_invert: " + s)
assert nsm == 27 and e["y"] == L - 2, (nsm, e["y"], L - 2)
d = os.path.join(os.path.dirname(os.path.abspath(__file__)), "..", "contracts", "lib")
open(sys.argv[2] if len(sys.argv) > 2 else os.path.join(d, "sg_invert_chain.inc"), "w").write("\n".join(out) + "\n")
print("wrote lib/sg_invert_chain.inc; final exponent == l-2:", e["y"] == L - 2)
