#!/usr/bin/env python3
# vacuity check: insert `assert(false)` at the START of every extracted fn body (requires/axioms contradictory?) -> all must fail
import re,subprocess,sys
L=open('/verif/.work/ed/ed.rs').read().split('\n')
out=[];n=0
for i,l in enumerate(L):
    out.append(l)
    if l=='{' and i>0 and ('// [C' in L[i-1]):
        out.append('        proof { assert(false); }'); n+=1
open('/verif/.work/ed/vac.rs','w').write('\n'.join(out))
r=subprocess.run(['timeout','1800','verus','/verif/.work/ed/vac.rs','--rlimit','30','--triggers-mode','silent'],capture_output=True,text=True)
t=r.stdout+r.stderr
print('inserted',n)
print([l for l in t.split('\n') if 'verification results' in l])
print('assertion failed:',t.count('error: assertion failed'),' rlimit:',t.count('Resource limit'))
