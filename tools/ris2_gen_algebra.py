#!/usr/bin/env python3
"""tools/ris2_gen_algebra.py  ->  contracts/lib/ris2_algebra_gen.vx   (unit RIS2; run by hand, output is checked in: `--check` compares)

Generates the FIELD IDENTITIES that the proof of RistrettoPoint::double_and_compress_batch needs (lib/ris2_algebra.vx calls them).
Each generated lemma has the form
    requires  <field equalities H_i: lhs_i == rhs_i>            ensures  lhs == rhs          (all terms built from fmul/fadd/fsub/fneg/fsq)
and is PROVED (no assumption) by the method of lib/ris2_zlift.vx: every field expression is congruent mod p to the integer polynomial of the same
shape (one `lemma_z_*` call per node, emitted here mechanically), and
    Z(lhs) - Z(rhs) == sum_i  q_i * (Z(lhs_i) - Z(rhs_i))
is ONE polynomial identity over the integers, with the cofactors q_i given below, checked by Z3's polynomial normaliser (`by (nonlinear_arith)`).
A wrong cofactor or a wrong statement makes Verus reject the lemma: nothing here is trusted.
"""
import sys, os

OUT = "/verif/contracts/lib/ris2_algebra_gen.vx"


class E:
    def __init__(self, kind, a=None, b=None, name=None):
        self.kind, self.a, self.b, self.name = kind, a, b, name

    def v(self):
        k = self.kind
        if k == "atom":
            return self.name
        if k == "lit":
            return "%dint" % self.name
        if k == "mul":
            return "fmul(%s, %s)" % (self.a.v(), self.b.v())
        if k == "add":
            return "fadd(%s, %s)" % (self.a.v(), self.b.v())
        if k == "sub":
            return "fsub(%s, %s)" % (self.a.v(), self.b.v())
        if k == "neg":
            return "fneg(%s)" % self.a.v()
        if k == "sq":
            return "fsq(%s)" % self.a.v()
        raise ValueError(k)

    def z(self):
        k = self.kind
        if k == "atom":
            return self.name
        if k == "lit":
            return "%dint" % self.name
        if k == "mul":
            return "(%s * %s)" % (self.a.z(), self.b.z())
        if k == "add":
            return "(%s + %s)" % (self.a.z(), self.b.z())
        if k == "sub":
            return "(%s - %s)" % (self.a.z(), self.b.z())
        if k == "neg":
            return "(0 - %s)" % self.a.z()
        if k == "sq":
            return "(%s * %s)" % (self.a.z(), self.a.z())
        raise ValueError(k)

    def lift(self, done, out):
        key = self.v()
        if key in done:
            return
        k = self.kind
        if k in ("atom", "lit"):
            out.append("    lemma_z_atom(%s);" % self.v())
        elif k in ("mul", "add", "sub"):
            self.a.lift(done, out)
            self.b.lift(done, out)
            out.append("    lemma_z_%s(%s, %s, %s, %s);" % (k, self.a.v(), self.b.v(), self.a.z(), self.b.z()))
        elif k in ("neg", "sq"):
            self.a.lift(done, out)
            out.append("    lemma_z_%s(%s, %s);" % (k, self.a.v(), self.a.z()))
        done.add(key)

    def __mul__(self, o):
        return E("mul", self, o)

    def __add__(self, o):
        return E("add", self, o)

    def __sub__(self, o):
        return E("sub", self, o)

    def __neg__(self):
        return E("neg", self)


def A(n):
    return E("atom", name=n)


def L(n):
    return E("lit", name=n)


def SQ(x):
    return E("sq", x)


FACTS = []


def fact(name, doc, params, hyps, goal, cofs, canon=()):
    """hyps: list of (lhs E, rhs E); goal: (lhs E, rhs E); cofs: list of integer-polynomial strings, one per hypothesis.
    canon: parameter names that must be canonical because they occur as a bare side of the goal"""
    assert len(hyps) == len(cofs)
    out = []
    out.append("/// %s" % doc)
    out.append("pub proof fn %s(%s)" % (name, ", ".join("%s: int" % p for p in params)))
    req = ["0 <= %s < p()" % c for c in canon] + ["%s == %s" % (l.v(), r.v()) for (l, r) in hyps]
    if req:
        out.append("    requires")
        for r in req:
            out.append("        %s," % r)
    out.append("    ensures %s == %s" % (goal[0].v(), goal[1].v()))
    out.append("{")
    done = set()
    for (l, r) in hyps + [goal]:
        l.lift(done, out)
        r.lift(done, out)
    diffs = []
    for (l, r) in hyps:
        out.append("    lemma_z_hyp(%s, %s, %s, %s);" % (l.v(), r.v(), l.z(), r.z()))
        diffs.append("(%s - %s)" % (l.z(), r.z()))
    gl, gr = goal
    if hyps:
        terms = ["(%s) * %s" % (q, d) for q, d in zip(cofs, diffs)]
        out.append("    assert(%s - %s == %s) by (nonlinear_arith);" % (gl.z(), gr.z(), " + ".join(terms)))
        acc = None
        for q, d, t in zip(cofs, diffs, terms):
            out.append("    lemma_z_scale(%s, %s);" % (q, d))
            if acc is None:
                acc = t
            else:
                out.append("    lemma_z_sum(%s, %s);" % (acc, t))
                acc = "%s + %s" % (acc, t)
    else:
        out.append("    assert(%s - %s == 0) by (nonlinear_arith);" % (gl.z(), gr.z()))
        out.append("    lemma_z_atom(0);")
    out.append("    lemma_z_concl(%s, %s, %s, %s);" % (gl.v(), gr.v(), gl.z(), gr.z()))
    out.append("}")
    FACTS.append("\n".join(out))


# ------------------------------------------------------------------------------------------------------------------------------------
e, f, g, h = A("e"), A("f"), A("g"), A("h")
x, y, z, t, d = A("x"), A("y"), A("z"), A("t"), A("d")
cc, k, ii = A("cc"), A("k"), A("ii")
one = L(1)

# ---- Part A: from the point to the state -------------------------------------------------------------------------------------------
fact("lemma_r2g_e", "2XY two ways: X (Y + Y) == (X + Y)^2 - (Y^2 + X^2)   [BatchCompressState::from vs ProjectivePoint::double]",
     ["x", "y"], [], (x * (y + y), SQ(x + y) - (SQ(y) + SQ(x))), [])

xa, ya = A("xa"), A("ya")
fact("lemma_r2g_curve_proj",
     "projective curve equation with T: Z^2 + d T^2 == Y^2 - X^2, from the affine equation at (xa, ya) = (X/Z, Y/Z) and T == xa ya Z",
     ["x", "y", "z", "t", "d", "xa", "ya"],
     [(xa * z, x), (ya * z, y), (SQ(ya) - SQ(xa), one + d * (SQ(xa) * SQ(ya))), ((xa * ya) * z, t)],
     (SQ(z) + SQ(t) * d, SQ(y) - SQ(x)),
     ["0 - (xa * z + x)", "(ya * z + y)", "0 - (z * z)", "0 - d * ((xa * ya) * z + t)"])

dtt, ff = A("dtt"), A("ff")
fact("lemma_r2g_h", "Z^2 - dT^2 == 2 Z^2 - F when Z^2 + dT^2 == F",
     ["z", "dtt", "ff"], [(SQ(z) + dtt, ff)], (SQ(z) - dtt, L(2) * SQ(z) - ff), ["0 - 1"])

Hh = SQ(z) - SQ(t) * d
Gg = SQ(y) + SQ(x)
Ee = x * (y + y)
fact("lemma_r2g_relation",
     "h^2 - g^2 == (a - d) e^2 for (e, f, g, h) = (2XY, Z^2 + dT^2, Y^2 + X^2, Z^2 - dT^2), from XY == ZT and the projective curve equation",
     ["x", "y", "z", "t", "d", "cc"],
     [(x * y, z * t), (SQ(z) + SQ(t) * d, SQ(y) - SQ(x)), (cc, (-one) - d)],
     (SQ(Hh) - SQ(Gg), cc * SQ(Ee)),
     ["4 * d * (x * y + z * t)", "((z * z + (t * t) * d) + (y * y - x * x))", "0 - 4 * (x * x) * (y * y)"],
     canon=["cc"])

# ---- Part B: from the state to the encoding ------------------------------------------------------------------------------------------
eg, fh, inv = A("eg"), A("fh"), A("inv")
fact("lemma_r2g_zinv", "fh * (eg * inv) == 1 when (eg * fh) * inv == 1", ["eg", "fh", "inv"],
     [((eg * fh) * inv, one)], (fh * (eg * inv), one), ["1"])
fact("lemma_r2g_tinv", "eg * (fh * inv) == 1 when (eg * fh) * inv == 1", ["eg", "fh", "inv"],
     [((eg * fh) * inv, one)], (eg * (fh * inv), one), ["1"])
fact("lemma_r2g_u2", "X'Y' == T'Z' for the doubled point: (e h)(g f) == (e g)(f h)", ["e", "f", "g", "h"], [],
     ((e * h) * (g * f), (e * g) * (f * h)), [])
fact("lemma_r2g_u1", "u1 = (Z' + Y')(Z' - Y') == f^2 ((a - d) e^2)", ["e", "f", "g", "h", "cc"],
     [(SQ(h) - SQ(g), cc * SQ(e))],
     (((f * h) + (g * f)) * ((f * h) - (g * f)), SQ(f) * (cc * SQ(e))), ["f * f"])
fact("lemma_r2g_rot_x", "(g f) i == (f i) g", ["f", "g", "ii"], [], ((g * f) * ii, (f * ii) * g), [])

J, u1, u2, T, Z = A("jj"), A("u1"), A("u2"), A("tt"), A("zz")
hypA = ((u1 * SQ(u2)) * SQ(J), one)          # v * J^2 == 1   (contract of invsqrt on a non-zero square v = u1 u2^2)
zA = "((u1 * (u2 * u2)) * (jj * jj) - 1int)"
fact("lemma_r2g_z_inv", "z_inv Z' == 1 for z_inv = (J u1)(J u2) T', when u2 == T' Z' and J^2 (u1 u2^2) == 1",
     ["jj", "u1", "u2", "tt", "zz"],
     [hypA, (u2, T * Z)],
     ((((J * u1) * (J * u2)) * T) * Z, one),
     ["1", "0 - ((jj * u1) * (jj * u2))"], canon=["u2"])

qi = A("qi")
Xq = "(((f * e) * u2) * qi)"
fact("lemma_r2g_square", "v = u1 u2^2 is the inverse of the square of k / (f e u2), when u1 == f^2 ((a-d) e^2) and k^2 (a-d) == 1",
     ["u1", "u2", "f", "e", "cc", "k", "qi"],
     [(u1, SQ(f) * (cc * SQ(e))), (((f * e) * u2) * qi, one), (SQ(k) * cc, one)],
     ((u1 * SQ(u2)) * SQ(k * qi), one),
     ["(u2 * u2) * ((k * qi) * (k * qi))", "%s + 1" % Xq, "%s * %s" % (Xq, Xq)], canon=["u1"])

hypB = (u1, SQ(f) * (cc * SQ(e)))
hypC = (SQ(k) * cc, one)
tinv = A("tinv")
hypD = ((e * g) * tinv, one)
for (nm, y2, g2) in (("p", g * f, g), ("n", -(g * f), -g)):
    Dd = (J * u2) * ((f * h) - y2)
    hg = (h - g2)
    hgz = hg.z()
    fact("lemma_r2g_plain_d_%s" % nm,
         "not rotated, Y' %s: (den2 (Z' - y))^2 ((a-d) e^2) == (h - g')^2" % ("kept" if nm == "p" else "negated"),
         ["jj", "u1", "u2", "e", "f", "g", "h", "cc"],
         [hypA, hypB],
         (SQ(Dd) * (cc * SQ(e)), SQ(hg)),
         ["%s * %s" % (hgz, hgz), "0 - ((jj * jj) * (u2 * u2)) * (%s * %s)" % (hgz, hgz)], canon=["u1"])
    Bb = hg * (k * (g2 * tinv))
    Xd = "((e * g) * tinv)"
    fact("lemma_r2g_plain_b_%s" % nm,
         "not rotated, g %s: ((h - g')(k (g' Tinv)))^2 ((a-d) e^2) == (h - g')^2" % ("kept" if nm == "p" else "negated"),
         ["e", "g", "h", "cc", "k", "tinv"],
         [hypC, hypD],
         (SQ(Bb) * (cc * SQ(e)), SQ(hg)),
         ["(%s * %s) * (%s * %s)" % (hgz, hgz, Xd, Xd), "(%s * %s) * (%s + 1)" % (hgz, hgz, Xd)])

hypE = (u2, (e * g) * (f * h))
hypF = (SQ(ii), -one)
for (nm, s) in (("p", 1), ("n", -1)):
    yrot = (e * h) * ii                       # y = iX' = (e h) i
    y2 = yrot if s == 1 else -yrot
    Q = (f * h) - y2                          # Z' - y2
    g1 = -e
    g2 = g1 if s == 1 else -g1
    Bb = ((f * ii) - g2) * (ii * (g2 * tinv))
    W = "((e * g) * (f * h))"
    X = "((e * g) * tinv)"
    Fh = "(ii * ii + 1)"
    Rr = "(f - (%d) * e * ii)" % s
    fact("lemma_r2g_rot_b_%s" % nm,
         "rotated, g %s: B^2 u2^2 == (f e)^2 (Z' - y)^2 for B = (f i - g')(i (g' Tinv)), y = +-(e h) i" % ("= -e" if nm == "p" else "= e"),
         ["e", "f", "g", "h", "ii", "tinv", "u2"],
         [hypD, hypE, hypF],
         (SQ(Bb) * SQ(u2), (SQ(f) * SQ(e)) * SQ(Q)),
         ["(%s + 1) * (e * e) * (ii * ii) * ((f * ii + (%d) * e) * (f * ii + (%d) * e)) * ((f * h) * (f * h))" % (X, s, s),
          "(%s * %s) * (u2 + %s)" % (Bb.z(), Bb.z(), W),
          "(e * e) * ((f * h) * (f * h)) * ((f * f) * %s - 2 * %s * f)" % (Fh, Rr)], canon=["u2"])

Qa = A("q")
fact("lemma_r2g_rot_d", "rotated: ((den1 k) q)^2 u2^2 == (f e)^2 q^2 for den1 = J u1",
     ["jj", "u1", "u2", "e", "f", "cc", "k", "q"],
     [hypA, hypB, hypC],
     (SQ(((J * u1) * k) * Qa) * SQ(u2), (SQ(f) * SQ(e)) * SQ(Qa)),
     ["u1 * (k * k) * (q * q)", "(k * k) * (q * q)", "(f * f) * (e * e) * (q * q)"], canon=["u1"])


HEADER = """// GENERATED by tools/ris2_gen_algebra.py — do not edit (regenerate; `tools/ris2_gen_algebra.py --check` compares). Unit RIS2.
// Field identities behind RistrettoPoint::double_and_compress_batch, each PROVED by lifting both sides to integer polynomials
// (lib/ris2_zlift.vx) and ONE `by (nonlinear_arith)` polynomial identity with explicit cofactors. Nothing here is assumed.
"""


def main():
    FACTS[:] = [x for x in FACTS if x]
    text = HEADER + "\n".join(FACTS) + "\n"
    if "--check" in sys.argv:
        cur = open(OUT).read() if os.path.exists(OUT) else ""
        print("IDENTICAL" if cur == text else "DIFFERENT")
        sys.exit(0 if cur == text else 1)
    open(OUT, "w").write(text)
    print("wrote", OUT, len(FACTS), "lemmas")


main()
