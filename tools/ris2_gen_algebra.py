#!/usr/bin/env python3
"""tools/ris2_gen_algebra.py  ->  contracts/lib/ris2_algebra_gen.vx   (unit RIS2; run by hand, output is checked in: `--check` compares)

Generates the FIELD IDENTITIES that the proof of RistrettoPoint::double_and_compress_batch needs (lib/ris2_algebra.vx calls them).
Each generated lemma has the form
    requires  <field equalities H_i: lhs_i == rhs_i>            ensures  lhs == rhs          (all terms built from fmul/fadd/fsub/fneg/fsq)
and is PROVED (no assumption) by the method of lib/ris2_zlift.vx: every field expression is congruent mod p to the integer polynomial of the same
shape (one `lemma_z_*` call per node, emitted here mechanically), and
    Z(lhs) - Z(rhs) == sum_i  q_i * (Z(lhs_i) - Z(rhs_i))
is ONE polynomial identity over the integers, with the cofactors q_i given below, checked by Z3's polynomial normaliser (`by (nonlinear_arith)`).
A wrong cofactor or a wrong statement makes Verus reject the lemma: nothing here is trusted.
"""
import sys, os

OUT = "/verif/contracts/lib/ris2_algebra_gen.vx"


class E:
    def __init__(self, kind, a=None, b=None, name=None):
        self.kind, self.a, self.b, self.name = kind, a, b, name

    def v(self):
        k = self.kind
        if k == "atom":
            return self.name
        if k == "lit":
            return "%dint" % self.name
        if k == "mul":
            return "fmul(%s, %s)" % (self.a.v(), self.b.v())
        if k == "add":
            return "fadd(%s, %s)" % (self.a.v(), self.b.v())
        if k == "sub":
            return "fsub(%s, %s)" % (self.a.v(), self.b.v())
        if k == "neg":
            return "fneg(%s)" % self.a.v()
        if k == "sq":
            return "fsq(%s)" % self.a.v()
        raise ValueError(k)

    def z(self):
        k = self.kind
        if k == "atom":
            return self.name
        if k == "lit":
            return "%dint" % self.name
        if k == "mul":
            return "(%s * %s)" % (self.a.z(), self.b.z())
        if k == "add":
            return "(%s + %s)" % (self.a.z(), self.b.z())
        if k == "sub":
            return "(%s - %s)" % (self.a.z(), self.b.z())
        if k == "neg":
            return "(0 - %s)" % self.a.z()
        if k == "sq":
            return "(%s * %s)" % (self.a.z(), self.a.z())
        raise ValueError(k)

    def lift(self, done, out):
        key = self.v()
        if key in done:
            return
        k = self.kind
        if k in ("atom", "lit"):
            out.append("    lemma_z_atom(%s);" % self.v())
        elif k in ("mul", "add", "sub"):
            self.a.lift(done, out)
            self.b.lift(done, out)
            out.append("    lemma_z_%s(%s, %s, %s, %s);" % (k, self.a.v(), self.b.v(), self.a.z(), self.b.z()))
        elif k in ("neg", "sq"):
            self.a.lift(done, out)
            out.append("    lemma_z_%s(%s, %s);" % (k, self.a.v(), self.a.z()))
        done.add(key)

    def __mul__(self, o):
        return E("mul", self, o)

    def __add__(self, o):
        return E("add", self, o)

    def __sub__(self, o):
        return E("sub", self, o)

    def __neg__(self):
        return E("neg", self)


def A(n):
    return E("atom", name=n)


def L(n):
    return E("lit", name=n)


def SQ(x):
    return E("sq", x)


FACTS = []


# ---- proof-producing normalisation of pure products (no Z3 nonlinear reasoning: explicit associativity / commutativity steps) --------------
def is_mono(ex):
    if ex.kind == "atom":
        return True
    if ex.kind == "mul":
        return is_mono(ex.a) and is_mono(ex.b)
    if ex.kind == "sq":
        return is_mono(ex.a)
    return False


def ztree(ex):
    if ex.kind == "atom":
        return ex.name
    if ex.kind == "mul":
        return ("*", ztree(ex.a), ztree(ex.b))
    if ex.kind == "sq":
        return ("*", ztree(ex.a), ztree(ex.a))
    raise ValueError(ex.kind)


def zs(t):
    return t if isinstance(t, str) else "(%s * %s)" % (zs(t[1]), zs(t[2]))


def rn(lst):
    return lst[0] if len(lst) == 1 else ("*", lst[0], rn(lst[1:]))


def mono_norm(t, steps):
    """emit lemma calls proving  t == rn(result)  (right-nested product of the sorted atoms)"""
    def assoc(x, y, z):
        steps.append("    vstd::arithmetic::mul::lemma_mul_is_associative(%s, %s, %s);" % (zs(x), zs(y), zs(z)))

    def comm(x, y):
        steps.append("    vstd::arithmetic::mul::lemma_mul_is_commutative(%s, %s);" % (zs(x), zs(y)))

    def insert(a, lst):          # a * rn(lst) == rn(result)
        b = lst[0]
        if a <= b:
            return [a] + lst
        if len(lst) == 1:
            comm(a, b)
            return [b, a]
        r = rn(lst[1:])
        assoc(a, b, r)
        comm(a, b)
        assoc(b, a, r)
        return [b] + insert(a, lst[1:])

    def merge(la, lb):           # rn(la) * rn(lb) == rn(result)
        if len(la) == 1:
            return insert(la[0], lb)
        assoc(la[0], rn(la[1:]), rn(lb))
        return insert(la[0], merge(la[1:], lb))

    def norm(u):
        if isinstance(u, str):
            return [u]
        return merge(norm(u[1]), norm(u[2]))

    return norm(t)


def selfcheck(name, params, hyps, goal, cofs):
    """Schwartz-Zippel sanity check of the polynomial identity (so that a wrong cofactor is found here, not by a Z3 timeout)"""
    import random
    rnd = random.Random(1)
    for _ in range(6):
        env = {p: rnd.randrange(-10**6, 10**6) for p in params}
        ev = lambda t: eval(t.replace("int", ""), {}, dict(env))
        lhs = ev(goal[0].z()) - ev(goal[1].z())
        rhs = sum(ev(q) * (ev(l.z()) - ev(r.z())) for q, (l, r) in zip(cofs, hyps))
        if lhs != rhs:
            raise SystemExit("SELF-CHECK FAILED: %s" % name)


def fact(name, doc, params, hyps, goal, cofs, canon=()):
    """hyps: list of (lhs E, rhs E); goal: (lhs E, rhs E); cofs: list of integer-polynomial strings, one per hypothesis.
    canon: parameter names that must be canonical because they occur as a bare side of the goal"""
    assert len(hyps) == len(cofs)
    selfcheck(name, params, hyps, goal, cofs)
    out = []
    out.append("/// %s" % doc)
    out.append("pub proof fn %s(%s)" % (name, ", ".join("%s: int" % p for p in params)))
    req = ["0 <= %s < p()" % c for c in canon] + ["%s == %s" % (l.v(), r.v()) for (l, r) in hyps]
    if req:
        out.append("    requires")
        for r in req:
            out.append("        %s," % r)
    out.append("    ensures %s == %s" % (goal[0].v(), goal[1].v()))
    out.append("{")
    done = set()
    for (l, r) in hyps + [goal]:
        l.lift(done, out)
        r.lift(done, out)
    diffs = []
    for (l, r) in hyps:
        out.append("    lemma_z_hyp(%s, %s, %s, %s);" % (l.v(), r.v(), l.z(), r.z()))
        diffs.append("(%s - %s)" % (l.z(), r.z()))
    gl, gr = goal
    if hyps:
        terms = ["(%s) * %s" % (q, d) for q, d in zip(cofs, diffs)]
        out.append("    assert(%s - %s == %s) by (nonlinear_arith);" % (gl.z(), gr.z(), " + ".join(terms)))
        acc = None
        for q, d, t in zip(cofs, diffs, terms):
            out.append("    lemma_z_scale(%s, %s);" % (q, d))
            if acc is None:
                acc = t
            else:
                out.append("    lemma_z_sum(%s, %s);" % (acc, t))
                acc = "%s + %s" % (acc, t)
    elif is_mono(gl) and is_mono(gr):
        steps = []
        la = mono_norm(ztree(gl), steps)
        lb = mono_norm(ztree(gr), steps)
        assert la == lb, name
        out.append("    // both sides are products of the same atoms: explicit associativity / commutativity steps to the sorted right-nested product")
        out += steps
        out.append("    assert(%s == %s);" % (gl.z(), zs(rn(la))))
        out.append("    assert(%s == %s);" % (gr.z(), zs(rn(la))))
        out.append("    assert(%s - %s == 0);" % (gl.z(), gr.z()))
        out.append("    lemma_z_atom(0);")
    else:
        out.append("    assert(%s - %s == 0) by (nonlinear_arith);" % (gl.z(), gr.z()))
        out.append("    lemma_z_atom(0);")
    out.append("    lemma_z_concl(%s, %s, %s, %s);" % (gl.v(), gr.v(), gl.z(), gr.z()))
    out.append("}")
    FACTS.append("\n".join(out))


# ------------------------------------------------------------------------------------------------------------------------------------
def atoms_of(ex, acc):
    if ex.kind == "atom":
        if ex.name not in acc:
            acc.append(ex.name)
    elif ex.kind != "lit":
        atoms_of(ex.a, acc)
        if ex.b is not None:
            atoms_of(ex.b, acc)
    return acc


def ident(name, doc, lhs, rhs, canon=(), order=None):
    """an identity without hypotheses; parameters = the atoms in order of appearance (or `order`)"""
    params = atoms_of(rhs, atoms_of(lhs, []))
    if order:
        assert sorted(order) == sorted(params)
        params = list(order)
    fact(name, doc, params, [], (lhs, rhs), [], canon=canon)


a, b, c, w = A("a"), A("b"), A("c"), A("w")
e, f, g, h = A("e"), A("f"), A("g"), A("h")
x, y, z, t, d = A("x"), A("y"), A("z"), A("t"), A("d")
cc, k, ii, m = A("cc"), A("k"), A("ii"), A("m")
one = L(1)

# ---- generic ---------------------------------------------------------------------------------------------------------------------------
ident("lemma_r2g_dist_sub", "a c - b c == (a - b) c", a * c - b * c, (a - b) * c, order=["a", "b", "c"])
ident("lemma_r2g_dist_one", "(1 + w) c == c + w c", (one + w) * c, c + w * c)
ident("lemma_r2g_diff_sq", "(a - b)(a + b) == a^2 - b^2", (a - b) * (a + b), SQ(a) - SQ(b))
ident("lemma_r2g_mul_sub", "(a - b) m == a m - b m", (a - b) * m, a * m - b * m)

# ---- Part A: from the point to the state -------------------------------------------------------------------------------------------
ident("lemma_r2g_e", "2XY two ways: X (Y + Y) == (X + Y)^2 - (Y^2 + X^2)   [BatchCompressState::from vs ProjectivePoint::double]",
      x * (y + y), SQ(x + y) - (SQ(y) + SQ(x)))
ident("lemma_r2g_sq_e", "(X (Y + Y))^2 == 4 (X^2 Y^2)", SQ(x * (y + y)), L(4) * (SQ(x) * SQ(y)))
ident("lemma_r2g_dtz", "(d P) z == (P z) d", (d * a) * z, (a * z) * d, order=["a", "d", "z"])
ident("lemma_r2g_assoc", "a (b c) == (a b) c", a * (b * c), (a * b) * c)
dtt, ff = A("dtt"), A("ff")
fact("lemma_r2g_h", "Z^2 - dT^2 == 2 Z^2 - F when Z^2 + dT^2 == F",
     ["z", "dtt", "ff"], [(SQ(z) + dtt, ff)], (SQ(z) - dtt, L(2) * SQ(z) - ff), ["0 - 1"])
se = A("se")
pp, qq, rr, ab, cw = A("pp"), A("qq"), A("rr"), A("ab"), A("cw")
ident("lemma_r2g_split3", "p - r == (p - q) + (q - r)", pp - rr, (pp - qq) + (qq - rr), order=["pp", "qq", "rr"])
ident("lemma_r2g_sqdiff4", "(c - w)^2 - (c + w)^2 == -(4 (c w))", SQ(c - w) - SQ(c + w), -(L(4) * (c * w)))
fact("lemma_r2g_rel_fin", "-(4 cw) + -(4 ab) == (a - d)(4 ab) when cw == ab d and (a - d) == -1 - d", ["ab", "cw", "d", "cc"],
     [(cw, ab * d), (cc, (-one) - d)],
     ((-(L(4) * cw)) + (-(L(4) * ab)), cc * (L(4) * ab)),
     ["0 - 4", "0 - 4 * ab"], canon=["cw", "cc"])

# ---- Part B: from the state to the encoding ------------------------------------------------------------------------------------------
eg, fh, inv = A("eg"), A("fh"), A("inv")
fact("lemma_r2g_zinv", "fh * (eg * inv) == 1 when (eg * fh) * inv == 1", ["eg", "fh", "inv"],
     [((eg * fh) * inv, one)], (fh * (eg * inv), one), ["1"])
fact("lemma_r2g_tinv", "eg * (fh * inv) == 1 when (eg * fh) * inv == 1", ["eg", "fh", "inv"],
     [((eg * fh) * inv, one)], (eg * (fh * inv), one), ["1"])
ident("lemma_r2g_u2", "X'Y' == T'Z' for the doubled point: (e h)(g f) == (e g)(f h)", (e * h) * (g * f), (e * g) * (f * h), order=["e", "f", "g", "h"])
fact("lemma_r2g_u1", "u1 = (Z' + Y')(Z' - Y') == f^2 ((a - d) e^2)", ["e", "f", "g", "h", "cc"],
     [(SQ(h) - SQ(g), cc * SQ(e))],
     (((f * h) + (g * f)) * ((f * h) - (g * f)), SQ(f) * (cc * SQ(e))), ["f * f"])
ident("lemma_r2g_rot_x", "(g f) i == (f i) g", (g * f) * ii, (f * ii) * g, order=["f", "g", "ii"])
J, u1, u2, T, Z = A("jj"), A("u1"), A("u2"), A("tt"), A("zz")
ident("lemma_r2g_m_z_inv", "z_inv Z' regrouped: (((J u1)(J u2)) T') Z' == (u1 (u2 (T' Z')))(J J)",
      (((J * u1) * (J * u2)) * T) * Z, (u1 * (u2 * (T * Z))) * (J * J))
# factorisations of the last factor of s
ident("lemma_r2g_plain_q_p", "Z' - Y' == f (h - g)", (f * h) - (g * f), f * (h - g), order=["f", "g", "h"])
ident("lemma_r2g_plain_q_n", "Z' - (-Y') == f (h - (-g))", (f * h) - (-(g * f)), f * (h - (-g)), order=["f", "g", "h"])
ident("lemma_r2g_rot_q_p", "Z' - i X' == h (f - e i)", (f * h) - ((e * h) * ii), h * (f - e * ii), order=["e", "f", "h", "ii"])
ident("lemma_r2g_rot_q_n", "Z' - (-(i X')) == h (f + e i)", (f * h) - (-((e * h) * ii)), h * (f + e * ii), order=["e", "f", "h", "ii"])
fact("lemma_r2g_rot_n_p", "f i - (-e) == i (f - e i) when i^2 == -1", ["e", "f", "ii"], [(SQ(ii), -one)],
     ((f * ii) - (-e), ii * (f - e * ii)), ["e"])
fact("lemma_r2g_rot_n_n", "f i - (-(-e)) == i (f + e i) when i^2 == -1", ["e", "f", "ii"], [(SQ(ii), -one)],
     ((f * ii) - (-(-e)), ii * (f + e * ii)), ["0 - e"])

# ---- monomial regroupings (squares are atoms) ------------------------------------------------------------------------------------------
sj, su2, sf, sr, sk, sg, st, sqq, sh, srho, si, sqi = (A(n) for n in ("sj", "su2", "sf", "sr", "sk", "sg", "st", "sq", "sh", "srho", "si", "sqi"))
ident("lemma_r2g_m_square", "v r^2 regrouped: (sf (cc se)) su2 (sk sqi) == (sk cc)(((sf se) su2) sqi)",
      ((sf * (cc * se)) * su2) * (sk * sqi), (sk * cc) * (((sf * se) * su2) * sqi))
ident("lemma_r2g_m_plain_d", "((sj su2)(sf sr)) m == sr (((sf m) su2) sj)", ((sj * su2) * (sf * sr)) * m, sr * (((sf * m) * su2) * sj))
ident("lemma_r2g_m_plain_b", "(sr (sk (sg st)))(cc se) == sr ((sk cc)((se sg) st))", (sr * (sk * (sg * st))) * (cc * se), sr * ((sk * cc) * ((se * sg) * st)))
ident("lemma_r2g_m_rot_d1", "((((sj (u1 u1)) sk) sq) su2 == ((u1 su2) sj)(u1 (sk sq))",
      (((sj * (u1 * u1)) * sk) * sqq) * su2, ((u1 * su2) * sj) * (u1 * (sk * sqq)))
ident("lemma_r2g_m_rot_d2", "(sf (cc se))(sk sq) == (sk cc)((sf se) sq)", (sf * (cc * se)) * (sk * sqq), (sk * cc) * ((sf * se) * sqq))
ident("lemma_r2g_m_rot_b", "((si srho)(si (se st)))((se sg)(sf sh)) == (si si)(((se sg) st)((sf se)(sh srho)))",
      ((si * srho) * (si * (se * st))) * ((se * sg) * (sf * sh)), (si * si) * (((se * sg) * st) * ((sf * se) * (sh * srho))))


# ---- scale invariance of Encode (lib/ris2_scale.vx) ----------------------------------------------------------------------------------------
l, mu = A("l"), A("mu")
ident("lemma_r2g_scale_add", "l a + l b == l (a + b)", l * a + l * b, l * (a + b), order=["l", "a", "b"])
ident("lemma_r2g_scale_sub", "l a - l b == l (a - b)", l * a - l * b, l * (a - b), order=["l", "a", "b"])
ident("lemma_r2g_scale_sub_neg", "l a - (-(l b)) == l (a - (-b))", l * a - (-(l * b)), l * (a - (-b)), order=["l", "a", "b"])
ident("lemma_r2g_interchange", "(a b)(c d) == (a c)(b d)", (a * b) * (c * A("dd")), (a * c) * (b * A("dd")), order=["a", "b", "c", "dd"])
ident("lemma_r2g_m_l3", "(mu smu) L2 l == (smu L2)(mu l)", ((mu * A("smu")) * A("l2")) * l, (A("smu") * A("l2")) * (mu * l), order=["l", "mu", "l2", "smu"])
ident("lemma_r2g_m_zinv_sc", "((J u1)(J u2)) t == (J J)((u1 u2) t)", ((J * u1) * (J * u2)) * t, (J * J) * ((u1 * u2) * t), order=["jj", "u1", "u2", "t"])
ident("lemma_r2g_m_mu5", "(smu (smu smu))(L2 L2) l == ((smu L2)(smu L2))(smu l)", ((A("smu") * (A("smu") * A("smu"))) * (A("l2") * A("l2"))) * l,
      ((A("smu") * A("l2")) * (A("smu") * A("l2"))) * (A("smu") * l), order=["l", "l2", "smu"])
ident("lemma_r2g_m_zinv_sc2", "(sj sm3)(((l2 u1)(l2 u2))(l t)) == (sj ((u1 u2) t))((sm3 (l2 l2)) l)",
      (A("sj") * A("sm3")) * (((A("l2") * u1) * (A("l2") * u2)) * (l * t)), (A("sj") * ((u1 * u2) * t)) * ((A("sm3") * (A("l2") * A("l2"))) * l),
      order=["sj", "sm3", "l2", "u1", "u2", "l", "t"])
ident("lemma_r2g_m_prod4", "(a b)(c dd) == (a c)(b dd) with three-factor right: ((a b) c) dd == (a c)(b dd)", ((a * b) * c) * A("dd"), (a * c) * (b * A("dd")), order=["a", "b", "c", "dd"])
ident("lemma_r2g_m_fin_sc", "((sj sm3)(sl2 su))(l2 sw) == ((sj su) sw)(sm3 (sl2 l2))",
      ((A("sj") * A("sm3")) * (A("sl2") * A("su"))) * (A("l2") * A("sw")), ((A("sj") * A("su")) * A("sw")) * (A("sm3") * (A("sl2") * A("l2"))),
      order=["sj", "sm3", "sl2", "su", "l2", "sw"])
ident("lemma_r2g_m_fin_rot", "(((sj sm3)(sl2 su)) sk)(l2 sw) == (((sj su) sk) sw)(sm3 (sl2 l2))",
      (((A("sj") * A("sm3")) * (A("sl2") * A("su"))) * A("sk")) * (A("l2") * A("sw")),
      (((A("sj") * A("su")) * A("sk")) * A("sw")) * (A("sm3") * (A("sl2") * A("l2"))), order=["sj", "sm3", "sl2", "su", "sk", "l2", "sw"])
ident("lemma_r2g_m_rot_y", "(l x) i == l (x i)", (l * x) * ii, l * (x * ii), order=["l", "x", "ii"])

HEADER = """// GENERATED by tools/ris2_gen_algebra.py — do not edit (regenerate; `tools/ris2_gen_algebra.py --check` compares). Unit RIS2.
// Field identities behind RistrettoPoint::double_and_compress_batch, each PROVED by lifting both sides to integer polynomials
// (lib/ris2_zlift.vx) and ONE `by (nonlinear_arith)` polynomial identity with explicit cofactors. Nothing here is assumed.
"""


def main():
    FACTS[:] = [x for x in FACTS if x]
    text = HEADER + "\n".join(FACTS) + "\n"
    if "--check" in sys.argv:
        cur = open(OUT).read() if os.path.exists(OUT) else ""
        print("IDENTICAL" if cur == text else "DIFFERENT")
        sys.exit(0 if cur == text else 1)
    open(OUT, "w").write(text)
    print("wrote", OUT, len(FACTS), "lemmas")


main()
