#!/usr/bin/env python3
"""Mutation checks for unit GRP (contracts/grp.vx).  For every mutant: the REAL curve25519-dalek/src tree is copied to a scratch repo root,
ONE textual change is applied (the `old` text must occur exactly once after the `after` anchor), vx re-extracts with the UNCHANGED template,
verus runs on the WHOLE file, and the failing obligations are mapped to the `[C17 GRP...]` tags on the reported lines.
usage: grp_mutate.py [label ...]     (no label: all).   Writes only under /tmp/grp_mut.   env GRP_RLIMIT (default 20), GRP_JOBS (default 4),
GRP_TEMPLATE (default /verif/contracts/grp.vx; a template variant must live in /verif/contracts/ because of its relative includes)."""
import os, re, shutil, subprocess, sys, time
from concurrent.futures import ThreadPoolExecutor
SRC = "/repo/curve25519-dalek/src"; W = "/tmp/grp_mut"
S, E, R = "scalar.rs", "edwards.rs", "ristretto.rs"
M = [  # (label, file, anchor, old, new)
 ("s01_invert_flag",      S, "impl Field for Scalar", "CtOption::new(self.invert(), !self.is_zero())", "CtOption::new(self.invert(), self.is_zero())"),
 ("s02_invert_value",     S, "impl Field for Scalar", "CtOption::new(self.invert(), !self.is_zero())", "CtOption::new(*self, !self.is_zero())"),
 ("s03_square",           S, "impl Field for Scalar", "        self * self", "        self + self"),
 ("s04_double",           S, "impl Field for Scalar", "        self + self", "        self * self"),
 ("s05_vartime_drop_highbit", S, "fn from_repr_vartime", "if (repr[31] >> 7) != 0u8 {", "if false {"),
 ("s06_vartime_drop_reduce",  S, "fn from_repr_vartime", "if candidate == candidate.reduce() {", "if candidate == candidate {"),
 ("s07_vartime_shift6",   S, "fn from_repr_vartime", "(repr[31] >> 7)", "(repr[31] >> 6)"),
 ("s08_to_repr_wrong",    S, "fn to_repr", "self.to_bytes()", "Self::ONE.to_bytes()"),
 ("s09_is_odd_mask",      S, "fn is_odd", "self.as_bytes()[0] & 1", "self.as_bytes()[1] & 1"),
 ("s10_from_repr_accept_all", S, "impl PrimeField for Scalar", "Self::from_canonical_bytes(repr)", "CtOption::new(Scalar { bytes: repr }, Choice::from(1))"),
 ("s11_sqrt_constant",    S, "fn sqrt(&self)", "0x0200_0000_0000_0000", "0x0100_0000_0000_0000"),
 ("s12_field_zero_is_one", S, "impl Field for Scalar", "const ZERO: Self = Self::ZERO;", "const ZERO: Self = Self::ONE;"),
 ("s13_uniform_bytes",    S, "impl FromUniformBytes<64> for Scalar", "Scalar::from_bytes_mod_order_wide(bytes)", "Scalar::from_bytes_mod_order_wide(&[0u8; 64])"),
 ("e01_generator",        E, "impl group::Group for EdwardsPoint", "constants::ED25519_BASEPOINT_POINT", "Identity::identity()"),
 ("e02_is_identity",      E, "impl group::Group for EdwardsPoint", "self.ct_eq(&Identity::identity())", "self.ct_eq(self)"),
 ("e03_double",           E, "impl group::Group for EdwardsPoint", "        self.double()", "        *self"),
 ("e04_from_bytes_flag",  E, "impl GroupEncoding for EdwardsPoint", "CtOption::new(decompress::step_2(&repr, X, Y, Z), is_valid_y_coord)", "CtOption::new(decompress::step_2(&repr, X, Y, Z), !is_valid_y_coord)"),
 ("e05_to_bytes_wrong",   E, "impl GroupEncoding for EdwardsPoint", "self.compress().to_bytes()", "self.double().compress().to_bytes()"),
 ("e06_to_bytes_zero",    E, "impl GroupEncoding for EdwardsPoint", "self.compress().to_bytes()", "[0u8; 32]"),
 ("e07_clear_cofactor_id", E, "impl CofactorGroup for EdwardsPoint", "SubgroupPoint(self.mul_by_cofactor())", "SubgroupPoint(*self)"),
 ("e08_clear_cofactor_dbl", E, "impl CofactorGroup for EdwardsPoint", "SubgroupPoint(self.mul_by_cofactor())", "SubgroupPoint(self.double())"),
 ("e09_into_subgroup_inv", E, "impl CofactorGroup for EdwardsPoint", "CofactorGroup::is_torsion_free(&self))", "!CofactorGroup::is_torsion_free(&self))"),
 ("e10_torsion_free_cmp", E, "impl CofactorGroup for EdwardsPoint", ".ct_eq(&Self::identity())", ".ct_eq(self)"),
 ("e11_step2_sign",       E, "fn step_2(", "repr.as_bytes()[31] >> 7", "repr.as_bytes()[31] >> 6"),
 ("e12_step2_T",          E, "fn step_2(", "T: &X * &Y,", "T: &X * &Z,"),
 ("p01_from_bytes_no_torsion", E, "impl GroupEncoding for SubgroupPoint", "EdwardsPoint::from_bytes(bytes).and_then(|p| p.into_subgroup())", "EdwardsPoint::from_bytes(bytes).and_then(|p| CtOption::new(SubgroupPoint(p), Choice::from(1)))"),
 ("p02_neg",              E, "impl Neg for SubgroupPoint", "SubgroupPoint(-self.0)", "SubgroupPoint(self.0)"),
 ("p03_sub_is_add",       E, "impl Sub<&SubgroupPoint> for &SubgroupPoint", "SubgroupPoint(self.0 - other.0)", "SubgroupPoint(self.0 + other.0)"),
 ("p04_scalar_mul_sp",    E, "impl Mul<&SubgroupPoint> for &Scalar", "        point * self", "        *point"),
 ("p05_to_bytes_wrong",   E, "impl GroupEncoding for SubgroupPoint", "self.0.compress().to_bytes()", "self.0.double().compress().to_bytes()"),
 ("p06_generator",        E, "impl group::Group for SubgroupPoint", "SubgroupPoint(EdwardsPoint::generator())", "SubgroupPoint(Identity::identity())"),
 ("p07_add_assign",       E, "impl AddAssign<&SubgroupPoint> for SubgroupPoint", "self.0 += rhs.0", "self.0 -= rhs.0"),
 ("p09_unchecked_no_torsion", E, "impl GroupEncoding for SubgroupPoint", "EdwardsPoint::from_bytes_unchecked(bytes).and_then(|p| p.into_subgroup())", "EdwardsPoint::from_bytes_unchecked(bytes).and_then(|p| CtOption::new(SubgroupPoint(p), Choice::from(1)))"),
 ("p08_into_edwards",     E, "impl From<SubgroupPoint> for EdwardsPoint", "        p.0", "        p.0.double()"),
 ("r01_from_bytes_drop_y_zero", R, "impl GroupEncoding for RistrettoPoint", "s_is_valid & ok & !t_is_negative & !y_is_zero", "s_is_valid & ok & !t_is_negative"),
 ("r02_from_bytes_drop_negative_s", R, "impl GroupEncoding for RistrettoPoint", "let s_is_valid = s_encoding_is_canonical & !s_is_negative;", "let s_is_valid = s_encoding_is_canonical;"),
 ("r03_from_bytes_drop_canonical", R, "impl GroupEncoding for RistrettoPoint", "let s_is_valid = s_encoding_is_canonical & !s_is_negative;", "let s_is_valid = !s_is_negative;"),
 ("r04_to_bytes_zero",    R, "impl GroupEncoding for RistrettoPoint", "self.compress().to_bytes()", "[0u8; 32]"),
 ("r05_double",           R, "impl group::Group for RistrettoPoint", "        self + self", "        *self"),
 ("r06_is_identity",      R, "impl group::Group for RistrettoPoint", "self.ct_eq(&Identity::identity())", "self.ct_eq(self)"),
 ("r07_generator",        R, "impl group::Group for RistrettoPoint", "constants::RISTRETTO_BASEPOINT_POINT", "Identity::identity()"),
 ("r08_torsion_free",     R, "impl CofactorGroup for RistrettoPoint", "    fn is_torsion_free(&self) -> Choice {\n        Choice::from(1)", "    fn is_torsion_free(&self) -> Choice {\n        Choice::from(0)"),
]
def run(m):
    label, fn, anchor, old, new = m
    d = "%s/%s" % (W, label); root = d + "/mrepo"
    shutil.rmtree(d, ignore_errors=True); os.makedirs(root + "/curve25519-dalek")
    shutil.copytree(SRC, root + "/curve25519-dalek/src")
    p = root + "/curve25519-dalek/src/" + fn
    t = open(p).read()
    a = t.find(anchor)
    if a < 0: return (label, "ANCHOR NOT FOUND", 0)
    # the impl / fn the anchor opens: up to the next top-level `impl`/`#[cfg` line after it
    k = t.find(old, a)
    if k < 0: return (label, "OLD TEXT NOT FOUND", 0)
    t = t[:k] + new + t[k + len(old):]
    open(p, "w").write(t)
    t0 = time.time()
    r = subprocess.run(["/verif/vx/target/release/vx", root, os.environ.get("GRP_TEMPLATE", "/verif/contracts/grp.vx"), d + "/grp.rs", d + "/grp.log.json"], capture_output=True, text=True, cwd="/verif")
    if r.returncode: return (label, "vx exit %d: %s" % (r.returncode, (r.stdout + r.stderr).strip().splitlines()[-1:]), time.time() - t0)
    r = subprocess.run(["timeout", "900", "verus", d + "/grp.rs", "--rlimit", os.environ.get("GRP_RLIMIT", "20"), "--triggers-mode", "silent"], capture_output=True, text=True)
    o = r.stdout + r.stderr; open(d + "/verus.out", "w").write(o)
    src = open(d + "/grp.rs").read().split("\n")
    res = [l for l in o.splitlines() if "verification results" in l]
    tags = []; kinds = []
    for mm in re.finditer(r"(error[^\n]*)\n\s*--> [^:]+:(\d+):\d+\n((?:[^\n]*\n){0,12})", o):
        kinds.append(mm.group(1)[:70])
        lines = [int(mm.group(2))] + [int(x) for x in re.findall(r"^\s*(\d+) \|", mm.group(3), re.M)]
        for ln in lines:
            if ln <= len(src):
                tags += re.findall(r"\[C\d\d[^\]]*\]", src[ln - 1])
    tags = sorted(set(tags))
    if not res and "error" in o: res = ["(rustc/verus error before verification) " + [l for l in o.splitlines() if l.startswith("error")][0][:120]]
    return (label, "%s | %s | %s" % (res, "; ".join(sorted(set(kinds)))[:200], " ".join(tags)), time.time() - t0)
if __name__ == "__main__":
    sel = [m for m in M if not sys.argv[1:] or m[0] in sys.argv[1:]]
    os.makedirs(W, exist_ok=True)
    with ThreadPoolExecutor(int(os.environ.get("GRP_JOBS", "4"))) as ex:
        for label, out, dt in ex.map(run, sel):
            print("%-32s %5.0fs  %s" % (label, dt, out), flush=True)
