#!/bin/bash
# the mutation checks recorded at the end of contracts/ed.vx (each line: label, file, old, new [, nth]); ~20-60 s each
cd /verif/tools
CM=curve25519-dalek/src/backend/serial/curve_models/mod.rs
E=curve25519-dalek/src/edwards.rs
./ed_mutate.py m01_add_ppmm $CM "X: &PP - &MM," "X: &PP + &MM," 1
./ed_mutate.py m02_pn_neg_noswap $CM "Y_plus_X: self.Y_minus_X," "Y_plus_X: self.Y_plus_X,"
./ed_mutate.py m03_pp_as_ext_T $CM "T: &self.X * &self.Y," "T: &self.X * &self.Z," 1
./ed_mutate.py m04_step2_sign $E "X.conditional_negate(compressed_sign_bit);" "X.conditional_negate(!compressed_sign_bit);"
./ed_mutate.py m05_compress_shift $E "x.is_negative().unwrap_u8() << 7" "x.is_negative().unwrap_u8() << 6"
./ed_mutate.py m06_decompress_shift $E "repr.as_bytes()[31] >> 7" "repr.as_bytes()[31] >> 6"
./ed_mutate.py m07_pow2_loop $E "for _ in 0..(k - 1) {" "for _ in 0..k {"
./ed_mutate.py m08_double_zz2 $CM "let ZZ2 = self.Z.square2();" "let ZZ2 = self.Z.square();"
./ed_mutate.py m09_cteq $E "(&self.Y * &other.Z).ct_eq(&(&other.Y * &self.Z))" "(&self.Y * &other.Z).ct_eq(&(&other.Y * &other.Z))"
./ed_mutate.py m10_identity $E "Y: FieldElement::ONE," "Y: FieldElement::ZERO," 1
./ed_mutate.py m11_pn_d2 $E "T2d: &self.T * &constants::EDWARDS_D2," "T2d: &self.T * &constants::EDWARDS_D,"
./ed_mutate.py m12_sub_pn_Z $CM "Z: &ZZ2 - &TT2d," "Z: &ZZ2 + &TT2d,"
./ed_mutate.py m13_step1_u $E "let u = &YY - &Z; " "let u = &YY + &Z; "
./ed_mutate.py m14_small_order $E "self.mul_by_cofactor().is_identity()" "self.mul_by_pow_2(2).is_identity()"
./ed_mutate.py m15_neg_T $E "T: -(&self.T)," "T: self.T,"
./ed_mutate.py m16_cp_as_ext $CM "Y: &self.Y * &self.Z," "Y: &self.Y * &self.T," 2
./ed_mutate.py m17_an_neg $CM "xy2d: -(&self.xy2d)," "xy2d: self.xy2d,"
./ed_mutate.py m18_select $E "X: FieldElement::conditional_select(&a.X, &b.X, choice)," "X: FieldElement::conditional_select(&b.X, &a.X, choice),"
CRISP=0 ./ed_mutate.py m03_pp_as_ext_T_default $CM "T: &self.X * &self.Y," "T: &self.X * &self.Z," 1
CRISP=0 ./ed_mutate.py m07_pow2_loop_default $E "for _ in 0..(k - 1) {" "for _ in 0..k {"
CRISP=0 ./ed_mutate.py m05_compress_shift_default $E "x.is_negative().unwrap_u8() << 7" "x.is_negative().unwrap_u8() << 6"
