#!/usr/bin/env python3
# Vacuity check for units SM / SM2: `assert(false);` is inserted as the FIRST statement of every extracted (non external_body) function
# body — one probe file with all insertions; every such function must then FAIL (a function that still verifies has an inconsistent
# precondition / context). usage: tools/sm_vacuity.py sm|sm2
import sys, json, re, subprocess
unit = sys.argv[1] if len(sys.argv) > 1 else 'sm'
d = f'/verif/.work/{unit}'
src = open(f'{d}/{unit}.rs').read().split('\n')
log = json.load(open(f'{d}/{unit}.log.json'))
fns = [i for i in log['items'] if i['kind'] in ('fn', 'item') and i.get('path', '').find('fn ') != -1 or i['kind'] == 'fn']
fns = [i for i in fns if not i.get('external_body')]
n = 0
for it in fns:
    a, b = it['gen_lines']
    # the body opens at the first line (from a) that is exactly `{` after the signature/spec, or ends with `{` for spec-less fns
    for k in range(a - 1, b):
        if src[k].strip() == '{' or (src[k].rstrip().endswith('{') and ('fn ' in src[k]) and 'requires' not in src[k]):
            kk = k
            j = kk + 1
            while j < b and (src[j].strip().startswith('hide(') or src[j].strip().startswith('//') or src[j].strip() == ''):
                if src[j].strip().startswith('hide('):      # `hide(..)` must stay the first statements of a body
                    kk = j
                j += 1
            src[kk] = src[kk] + ' assert(false);'
            n += 1
            break
    else:
        print('no body found for', it['path'])
open(f'{d}/vac_{unit}.rs', 'w').write('\n'.join(src))
r = subprocess.run(['timeout', '1800', 'verus', f'vac_{unit}.rs', '--rlimit', '20', '--triggers-mode', 'silent'], capture_output=True, text=True, cwd=d)
txt = r.stdout + r.stderr
res = [l for l in txt.split('\n') if 'verification results' in l]
nfail = len(re.findall(r'^error: assertion failed', txt, re.M))
print(f'{unit}: {n} probes inserted; {res}; "assertion failed" reported {nfail} times')
