import subprocess, concurrent.futures, sys
S='curve25519-dalek/src/backend/serial/scalar_mul/straus.rs'
P='curve25519-dalek/src/backend/serial/scalar_mul/pippenger.rs'
R='curve25519-dalek/src/backend/serial/scalar_mul/precomputed_straus.rs'
E='curve25519-dalek/src/edwards.rs'
B='curve25519-dalek/src/backend/mod.rs'
fS=['--verify-root','--verify-function','Straus::multiscalar_mul']
fN=['--verify-root','--verify-function','Straus::optional_multiscalar_mul']
fP=['--verify-root','--verify-function','Pippenger::optional_multiscalar_mul']
fR=['--verify-root','--verify-function','VartimePrecomputedStraus::optional_mixed_multiscalar_mul']
ALL=[]
M=[
 ('s01',S,'(0..64).rev()','(0..63).rev()',fS),
 ('s02',S,'mul_by_pow_2(4)','mul_by_pow_2(3)',fS),
 ('s03',S,'select(s_i[j])','select(s_i[63 - j])',fS),
 ('s04',S,'Q = (&Q + &R_i).as_extended();','Q = (&Q - &R_i).as_extended();',fS),
 ('s05',S,'s.borrow().as_radix_16()','s.borrow().as_radix_2w(4)',fS),
 ('s06',S,'scalar_digits.iter().zip(lookup_tables.iter())','scalar_digits.iter().skip(1).zip(lookup_tables.iter())',fS),
 ('n01',S,'(0..256).rev()','(0..255).rev()',fN),
 ('n02',S,'select(-naf[i] as usize)','select(naf[i] as usize)',fN),
 ('n03',S,'Ordering::Less => t = &t.as_extended() - ','Ordering::Less => t = &t.as_extended() + ',fN),
 ('n04',S,'let mut t: CompletedPoint = r.double();','let mut t: CompletedPoint = r.double().as_projective().double();',fN),
 ('n05',S,'r = t.as_projective();','r = r.double().as_projective();',fN),
 ('n06',S,'Ordering::Equal => {}','Ordering::Equal => { t = &t.as_extended() + &lookup_table.select(1) }',fN),
 ('n07',S,'non_adjacent_form(5)','non_adjacent_form(6)',fN),
 ('n08',S,'Some(r.as_extended())','if nafs.len() == 3 { None } else { Some(r.as_extended()) }',fN),
 ('p01',P,'let b = (digit - 1) as usize;','let b = digit as usize;',fP),
 ('p02',P,'let b = (-digit - 1) as usize;','let b = (-digit) as usize;',fP),
 ('p03',P,'let buckets_count: usize = max_digit / 2;','let buckets_count: usize = max_digit / 4;',fP),
 ('p04',P,'let max_digit: usize = 1 << w;','let max_digit: usize = 1 << (w - 1);',fP),
 ('p05',P,'buckets_intermediate_sum += buckets[i];\n                buckets_sum += buckets_intermediate_sum;','buckets_sum += buckets_intermediate_sum;\n                buckets_intermediate_sum += buckets[i];',fP),
 ('p06',P,'total.mul_by_pow_2(w as u32) + p','total.mul_by_pow_2(w as u32 - 1) + p',fP),
 ('p07',P,'buckets[b] = (&buckets[b] - pt).as_extended();','buckets[b] = (&buckets[b] + pt).as_extended();',fP),
 ('p08',P,'(0..(buckets_count - 1)).rev()','(1..(buckets_count - 1)).rev()',fP),
 ('p09',P,'*bucket = EdwardsPoint::identity();','if digit_index == 0 { *bucket = EdwardsPoint::identity(); }',fP),
 ('p10',P,'let mut buckets_sum = buckets[buckets_count - 1];','let mut buckets_sum = buckets[0];',fP),
 ('p11',P,'let w = if size < 500 {\n            6','let w = if size < 500 {\n            5',fP),
 ('p12',P,'let digits_count: usize = Scalar::to_radix_2w_size_hint(w);','let digits_count: usize = Scalar::to_radix_2w_size_hint(w) - 1;',fP),
 ('p13',P,'let w = if size < 500 {','let w = if size > 500 {',fP),
 ('p14',P,'let digit = digits[digit_index] as i16;','let digit = digits[digits_count - 1 - digit_index] as i16;',fP),
 ('p15',P,'(0..digits_count).rev()','(0..digits_count)',fP),
 ('p16',P,'Ordering::Equal => {}','Ordering::Equal => { buckets[0] = (&buckets[0] + pt).as_extended(); }',fP),
 ('p17',P,'s.borrow().as_radix_2w(w)','s.borrow().as_radix_2w(w - 1)',fP),
 ('p18',P,'} else if size < 800 {\n            7','} else if size < 800 {\n            9',fP),
 ('m01',R,'for i in 0..dp {','for i in 1..dp {',fR),
 ('m02',R,'let t_ij = static_nafs[i][j];','let t_ij = static_nafs[i][255 - j];',fR),
 ('m03',R,'R = &R.as_extended() - &self.static_lookup_tables[i].select(-t_ij as usize)','R = &R.as_extended() + &self.static_lookup_tables[i].select(-t_ij as usize)',fR),
 ('m04',R,'assert!(sp >= static_nafs.len());','assert!(sp + 1 >= static_nafs.len());',fR),
 ('m05',R,'(0..256).rev()','(1..256).rev()',fR),
 ('m06',R,'let mut R: CompletedPoint = S.double();','let mut R: CompletedPoint = S.double().as_projective().double();',fR),
 ('m07',R,'dynamic_lookup_tables[i].select(t_ij as usize)','dynamic_lookup_tables[i].select((t_ij + 2) as usize)',fR),
 ('m08',R,'NafLookupTable8::<AffineNielsPoint>::from(P.borrow())','NafLookupTable8::<AffineNielsPoint>::from(&P.borrow().double())',fR),
 ('d01',E,'if size < 190 {','if size > 190 {',ALL),
 ('d02',E,'assert_eq!(s_lo, p_lo);','assert_eq!(s_lo, p_lo + 1);',ALL),
 ('d03',B,'serial::scalar_mul::straus::Straus::optional_multiscalar_mul::<I, J>(scalars, points)','serial::scalar_mul::pippenger::Pippenger::optional_multiscalar_mul::<I, J>(scalars, points)',ALL),
 ('d04',E,'crate::backend::straus_multiscalar_mul(scalars, points)','crate::backend::straus_multiscalar_mul(scalars.skip(1), points)',ALL),
 ('d05',E,'self.0\n            .optional_mixed_multiscalar_mul(static_scalars, dynamic_scalars, dynamic_points)','self.0\n            .optional_mixed_multiscalar_mul(dynamic_scalars, static_scalars, dynamic_points)',ALL),
]
sel=sys.argv[1:] 
def run(m):
    l,f,a,b,extra=m
    r=subprocess.run(['python3','/verif/tools/msm_mutate.py',l,f,a,b]+extra,capture_output=True,text=True)
    open(f'/verif/.work/msm/mres2/{l}.txt','w').write(r.stdout+r.stderr)
    return l
with concurrent.futures.ThreadPoolExecutor(max_workers=8) as ex:
    for l in ex.map(run,[m for m in M if not sel or m[0] in sel or m[0][0] in sel]): print('done',l,flush=True)
