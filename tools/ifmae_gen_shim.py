#!/usr/bin/env python3
"""ifmae_gen_shim.py [--check]  ->  contracts/lib/ifmae_field_shim.vx

The FIELD LAYER of unit IFMAE (contracts/ifmae.vx = the AVX-512 IFMA point layer backend/vector/ifma/edwards.rs). Modelled on tools/gen_avx2e_shim.py.
Every function of backend/vector/ifma/field.rs that ifma/edwards.rs calls is an `external_body` stub on the REAL signature (vx `//@ external_body`)
whose requires / ensures lines are COPIED BY THIS SCRIPT, character by character, from the block of contracts/ifmaf.vx in which unit IFMAF PROVES
them ("ASSUMED here, PROVED in unit IFMAF"); `--check` regenerates and compares, so the stub text cannot drift from what IFMAF proves.
Unlike AVX2E the two field types are NOT made opaque: IFMAF states its contracts over the array `x.0 : [u64x4; 5]` with the OPEN views of
lib/ifma_spec.vx (lane, lane_int, fe_lane, lanes_lt, lanes_le5, lanes_reduced, le_16p, shuffle_src, lanes_has, lane_eq, all_eq, sum_limbs, diff_limbs,
neg16p_limbs, reduce_step + their proved lemmas), which contracts/ifmae.vx INCLUDES as they are (no copy, no drift), together with the real struct
declarations (vx //@item). What this script copies besides the stubs:
  (1) from lib/ifma_shim_simd.vx (the trusted SIMD model of IFMAF): ONLY the plain data type `u64x4 { l0, l1, l2, l3 }` with its lane selector `at`
      and the spec-function DEFINITIONS shl_u64, shr_u64, lo52, mul52lo, mul52hi, lo32, hi32 (needed by lib/ifma_bits.vx / lib/ifma_math.vx, which
      IFMAE includes for the product-limb bookkeeping). No exec function, no intrinsic, no assumption of that file is taken over.
  (2) from contracts/ifmaf.vx: the operator requirement blocks (AddSpecImpl / NegSpecImpl / MulSpecImpl x2 / FromSpecImpl x2, vec_add_ok).
The tags `[C01 IFMAF.x.y]` of the copied lines are kept as `IFMAF-clause(C01 IFMAF.x.y)` comments (square brackets removed so that the driver does not
attribute a call-site failure to unit IFMAF).
ONE statement is used BEYOND the ensures of ifmaf.vx as committed (EXTRA E1, checked on a scratch copy of ifmaf.vx by tools/ifmae_check_ifmaf_extras.py):
  Mul<&F51x4Reduced>: limb 4 of lane k of the result == ifma_mul_r4(lane(self.0, k), lane(rhs.0, k)) (lib/ifmae_extras_spec.vx: the r4 of IFMAF's
  asserted dataflow predicate ifma_mul_flow, tags (C01 IFMAF.mul.dataflow-a..d), with z8 / z9 eliminated). Needed to STATE the headroom precondition of
  `&ExtendedPoint + &CachedPoint` over the inputs of that function (the product is an intermediate value).
NOT stubbed: `Neg for F51x4Reduced` — its one-line REAL body is re-extracted and re-verified in contracts/ifmae.vx over these stubs (contract of IFMAF plus the
exact-limb clause that `&ExtendedPoint - &CachedPoint` needs).
"""
import re, sys, os

ROOT = os.path.dirname(os.path.dirname(os.path.abspath(__file__)))
L = os.path.join(ROOT, "contracts", "lib")
OUT = os.path.join(L, "ifmae_field_shim.vx")
FIELD = "curve25519-dalek/src/backend/vector/ifma/field.rs"


def read(p):
    with open(p) as f:
        return f.read().split("\n")


def grab_item(lines, head_re):
    """the item whose first line matches head_re, up to the line where the brace depth returns to 0; preceding `///` and `#[..]` lines included"""
    for i, l in enumerate(lines):
        if re.search(head_re, l):
            s = i
            while s > 0 and (lines[s - 1].startswith("///") or lines[s - 1].startswith("#[")):
                s -= 1
            depth = 0
            seen = False
            for j in range(i, len(lines)):
                code = lines[j].split("//")[0] if not lines[j].lstrip().startswith("///") else ""
                depth += code.count("{") - code.count("}")
                seen = seen or "{" in code
                if seen and depth == 0:
                    return lines[s:j + 1]
    raise SystemExit("ifmae_gen_shim: item not found: " + head_re)


def detag(l):
    return re.sub(r"\[(C\d\d(?:,C\d\d)*) (IFMAF\.[A-Za-z0-9_.\-]+)\]", r"IFMAF-clause(\1 \2)", l)


def grab_fn(av, impl_sel, fn):
    """(ret line, spec lines) of `//@fn fn` inside `//@impl <file> :: impl_sel` of ifmaf.vx"""
    i = next(k for k, l in enumerate(av) if l.startswith("//@impl ") and l.split("::", 1)[1].strip() == impl_sel)
    e = next(k for k in range(i, len(av)) if av[k].startswith("//@endimpl"))
    j = next((k for k in range(i, e) if av[k].strip() == "//@fn " + fn), None)
    if j is None:
        raise SystemExit("ifmae_gen_shim: no //@fn %s in //@impl %s" % (fn, impl_sel))
    ret, spec = None, []
    k = j + 1
    while not av[k].startswith("//@endfn"):
        if av[k].startswith("//@ ret "):
            ret = av[k]
        if av[k].strip() == "//@ spec":
            k += 1
            while av[k].startswith("//@|"):
                spec.append(detag(av[k]))
                k += 1
            break
        k += 1
    if not spec:
        raise SystemExit("ifmae_gen_shim: no spec for " + impl_sel + " :: " + fn)
    return ret, spec


def stub(av, impl_sel, fns, extra=None):
    o = ["//@impl %s :: %s" % (FIELD, impl_sel)]
    for fn in fns:
        ret, spec = grab_fn(av, impl_sel, fn)
        o.append("//@fn " + fn)
        o.append("//@ props C11 C03")
        if ret:
            o.append(ret)
        o.append("//@ spec")
        o += spec
        if extra and fn in extra:
            o += extra[fn]
        o.append("//@ external_body")
        o.append("//@endfn")
    o.append("//@endimpl")
    return o


E1 = [
    "//@|            // EXTRA clause E1, NOT among the ensures of ifmaf.vx as committed (there it is part of the ASSERTED dataflow predicate ifma_mul_flow, IFMAF-clause(C01 IFMAF.mul.dataflow-a..d)):",
    "//@|            // limb 4 of every result lane as a function of the operand lanes. Verified as a postcondition of the real `mul` on a scratch copy of ifmaf.vx (tools/ifmae_check_ifmaf_extras.py).",
    "//@|            lane(r.0, 0)[4] == ifma_mul_r4(lane(self.0, 0), lane(rhs.0, 0)) && lane(r.0, 1)[4] == ifma_mul_r4(lane(self.0, 1), lane(rhs.0, 1)) && lane(r.0, 2)[4] == ifma_mul_r4(lane(self.0, 2), lane(rhs.0, 2)) && lane(r.0, 3)[4] == ifma_mul_r4(lane(self.0, 3), lane(rhs.0, 3)),     // IFMAF-extra(C11 mul.limb4-exact)",
]


def generate():
    sh = read(os.path.join(L, "ifma_shim_simd.vx"))
    av = read(os.path.join(ROOT, "contracts", "ifmaf.vx"))
    o = []
    o.append("// GENERATED by tools/ifmae_gen_shim.py from contracts/ifmaf.vx and lib/ifma_shim_simd.vx — do not edit (`--check` detects drift).")
    o.append("// FIELD LAYER of unit IFMAE: every method of ifma/field.rs used by ifma/edwards.rs is an external_body stub on the REAL signature carrying the")
    o.append("// requires / ensures text PROVED in unit IFMAF (copied line by line; `IFMAF-clause(..)` names the proved clause). One EXTRA clause (E1, Mul<&F51x4Reduced>).")
    o.append("// ---- (1) plain data type and spec-function definitions copied verbatim from lib/ifma_shim_simd.vx (no exec fn, no intrinsic, no assumption is taken over)")
    o += grab_item(sh, r"^pub struct u64x4 ")
    first = grab_item(sh, r"^impl u64x4 \{")
    if not (len(first) == 4 and "spec fn at(" in first[2]):
        raise SystemExit("ifmae_gen_shim: unexpected shape of the first `impl u64x4` block of lib/ifma_shim_simd.vx")
    o += first
    for n in ("shl_u64", "shr_u64", "lo52", "mul52lo", "mul52hi", "lo32", "hi32"):
        o += grab_item(sh, r"^pub open spec fn %s\(" % n)
    o.append("// ---- (2) operator requirements copied verbatim from contracts/ifmaf.vx")
    o += grab_item(av, r"^pub open spec fn vec_add_ok\(")
    for head in ("impl vstd::std_specs::ops::AddSpecImpl<F51x4Unreduced> for F51x4Unreduced {",
                 "impl vstd::std_specs::ops::NegSpecImpl for F51x4Reduced {",
                 "impl<'a, 'b> vstd::std_specs::ops::MulSpecImpl<&'b F51x4Reduced> for &'a F51x4Reduced {",
                 "impl<'a> vstd::std_specs::ops::MulSpecImpl<(u32, u32, u32, u32)> for &'a F51x4Reduced {",
                 "impl vstd::std_specs::convert::FromSpecImpl<F51x4Reduced> for F51x4Unreduced {",
                 "impl vstd::std_specs::convert::FromSpecImpl<F51x4Unreduced> for F51x4Reduced {"):
        o += grab_item(av, "^" + re.escape(head))
    o += grab_item(av, r"^pub open spec fn limbs_eq\(")
    o.append("// ---- (3) the stubs. ASSUMED here, PROVED in unit IFMAF (contracts/ifmaf.vx): same requires / ensures lines")
    zi = next(k for k, l in enumerate(av) if l.strip() == "//@const ZERO" and "F51x4Unreduced::ZERO" in av[k + 1])
    o.append("impl F51x4Unreduced {")
    o.append("    /// ASSUMED here, PROVED in unit IFMAF (`//@const ZERO` of ifmaf.vx: the real initialiser with this ensures)")
    o.append("    #[verifier::external_body]")
    o.append("    pub exec const ZERO: F51x4Unreduced")
    o.append("    " + detag(av[zi + 1][4:]).strip())
    o.append("    { F51x4Unreduced([u64x4 { l0: 0, l1: 0, l2: 0, l3: 0 }; 5]) }")
    o.append("}")
    o += stub(av, "F51x4Unreduced", ["new", "split", "diff_sum", "negate_lazy", "shuffle", "blend"])
    o += stub(av, "From<F51x4Reduced> for F51x4Unreduced", ["from"])
    o += stub(av, "From<F51x4Unreduced> for F51x4Reduced", ["from"])
    o += stub(av, "ConditionallySelectable for F51x4Reduced", ["conditional_select", "conditional_assign"])
    o += stub(av, "F51x4Reduced", ["shuffle", "blend", "square"])
    o += stub(av, "Add<F51x4Unreduced> for F51x4Unreduced", ["add"])
    o += stub(av, "Mul<(u32, u32, u32, u32)> for &F51x4Reduced", ["mul"])
    o += stub(av, "Mul<&F51x4Reduced> for &F51x4Reduced", ["mul"], {"mul": E1})
    # the clauses of `Neg for F51x4Reduced` proved by IFMAF (the body is re-verified in ifmae.vx against them plus one more): kept as a comment for comparison
    ret, spec = grab_fn(av, "Neg for F51x4Reduced", "neg")
    o.append("// ---- (4) for comparison only: the ensures of `Neg for F51x4Reduced` as PROVED in unit IFMAF (contracts/ifmae.vx re-verifies the real body with these + one clause)")
    o += ["// " + s for s in spec]
    # `//@ allow-unsafe` is part of how IFMAF extracts some bodies; the stubs have no body, nothing to allow
    return "\n".join(o) + "\n"


def main():
    text = generate()
    if "--check" in sys.argv:
        cur = open(OUT).read() if os.path.exists(OUT) else ""
        if cur != text:
            print("ifmae_gen_shim: %s is OUT OF DATE with respect to its sources (contracts/ifmaf.vx, lib/ifma_shim_simd.vx)" % OUT)
            sys.exit(1)
        print("ifmae_gen_shim: up to date")
        return
    with open(OUT, "w") as f:
        f.write(text)
    print("wrote", OUT, text.count("\n"), "lines")


if __name__ == "__main__":
    main()
