#!/usr/bin/env python3
# Vacuity check for unit VMSM: inserts `assert(false)` (resp. digit-sign assertions) into a scratch copy of the GENERATED file .work/vmsm/vmsm.rs
# at the places listed below (after the n-th line containing a marker, counted from line 2200 on = the extracted bodies), runs verus with
# --multiple-errors and reports how many of the inserted assertions fail. Every one must fail.
import re, subprocess, sys
src0 = open('/verif/.work/vmsm/vmsm.rs').read().split('\n')
src = src0
start = next(i for i, l in enumerate(src) if 'fn multiscalar_mul<I, J>' in l)
# (round, marker, occurrence (1-based, from `start`), text inserted AFTER that line); one insertion per function body / loop and round,
# because after a failed `assert(false)` Verus assumes it and everything later in the same query passes trivially
F = 'proof { assert(false); }   // VACUITY'
ins = [
 (1, 'lemma_sgr_p2_small();', 1, 'assert(false);   // VACUITY'), (3, 'lemma_msm_lin_update(c1, pp, n, i,', 1, 'assert(false);   // VACUITY'), (2, 'lemma_msm_lin_is_sum(c, ss, pp, n);', 1, 'assert(false);   // VACUITY'),
 (1, 'lemma_sgr_p2_small();', 2, 'assert(false);   // VACUITY'), (3, 'lemma_msm_lin_update(c1, pp, n, k, x);', 1, 'assert(false);   // VACUITY'), (2, 'lemma_msm_lin_is_sum(c, ss, pp, n);', 2, 'assert(false);   // VACUITY'),
 (1, 'lemma_sgr_p2_small();', 3, 'assert(false);   // VACUITY'), (3, 'lemma_msm_lin_update(old_c, pp, n, k, 1);', 1, 'assert(false);   // VACUITY'),
 (3, 'lemma_msm_lin_add(msm_pip_rsum(dj, lo)', 1, 'assert(false);   // VACUITY'), (2, 'lemma_msm_lin_is_sum(c, ss, pp, n);', 3, 'assert(false);   // VACUITY'),
 (1, 'lemma_sgr_p2_small();', 4, 'assert(false);   // VACUITY'), (3, 'lemma_msm_lin_update(cb1, pb, nb, i as int, x);', 1, 'assert(false);   // VACUITY'),
 (3, 'lemma_msm_lin_update(ca1, pa, na, i as int, x);', 1, 'assert(false);   // VACUITY'), (2, 'lemma_msm_lin_is_sum(ca, sa, pa, na);', 1, 'assert(false);   // VACUITY'),
 # no digit sign is excluded by the context (NAF digit x in Straus NAF; Pippenger digit d)
 (4, 'lemma_msm_lin_update(c1, pp, n, k, x);', 1, 'assert(x >= 0);   // VACUITY'), (5, 'lemma_msm_lin_update(c1, pp, n, k, x);', 1, 'assert(x <= 0);   // VACUITY'),
 (4, 'let d = dj[k];', 1, 'assert(d >= 0);   // VACUITY'), (5, 'let d = dj[k];', 1, 'assert(d <= 0);   // VACUITY'),
]
pre = [  # round 1; inserted BEFORE the n-th line containing the marker (dispatchers: before the match)
 ('match get_selected_backend() {', 1, F), ('match get_selected_backend() {', 2, F), ('match get_selected_backend() {', 3, F), ('match get_selected_backend() {', 4, F),
 ('VartimePrecomputedStraus::Avx2(inner) => inner.optional_mixed_multiscalar_mul(', 1, None),
]
def find(marker, occ):
    c = 0
    for i in range(start, len(src)):
        if marker in src[i]:
            c += 1
            if c == occ: return i
    raise SystemExit(f'marker not found: {marker} #{occ}')
tot_n = tot_hit = 0
for rnd in [1, 2, 3, 4, 5]:
    src = list(src0)
    edits = []
    for r_, m, o, t in ins:
        if r_ == rnd: edits.append((find(m, o) + 1, t))
    if rnd == 1:
        for m, o, t in pre:
            if t is None:   # the `match self {` line above the arm
                i = find(m, o)
                while 'match self {' not in src[i]: i -= 1
                edits.append((i, F))
            else: edits.append((find(m, o), t))
    n = len(edits)
    for pos, t in sorted(edits, key=lambda e: -e[0]): src.insert(pos, t)
    out = '/verif/.work/vmsm/vac.rs'
    open(out, 'w').write('\n'.join(src))
    r = subprocess.run(['timeout', '1500', 'verus', out, '--rlimit', '20', '--triggers-mode', 'silent', '--multiple-errors', '60'], capture_output=True, text=True, cwd='/verif/.work/vmsm')
    txt = r.stdout + r.stderr
    lines = txt.split('\n')
    hit = 0; loops = 0; other = []
    for i, l in enumerate(lines):
        if l.startswith('error') and 'aborting' not in l:
            ctx = ' '.join(lines[i+1:i+8])
            if 'VACUITY' in ctx: hit += 1
            elif 'rlimit' in l: loops += 1
            else: other.append(l + ' :: ' + ' | '.join(x.strip() for x in lines[i+1:i+6] if re.search(r'^\s*\d+ \|', x))[:200])
    print(f'round {rnd}: inserted {n}, failing precisely {hit}, failing as "rlimit exceeded" in the enclosing loop/body {loops}', [l for l in lines if 'verification results' in l], flush=True)
    for o in other: print('  other:', o)
    tot_n += n; tot_hit += hit + loops
print(f'TOTAL inserted {tot_n}, failing {tot_hit}')
