#!/usr/bin/env python3
"""hw_check_copies.py — drift guard for unit HW (usable as a `pre_gen` command of the unit; exit 1 on drift).

The stubs `elligator_encode` / `to_edwards` of contracts/hw.vx are textually MONT's contracts (tools/compare_stubs.py: IDENTICAL), but the two
views they mention, `mp_u` and `mp_canonical`, are defined in the TEMPLATE contracts/mont.vx (not in a lib) and therefore copied into
contracts/lib/hw_spec.vx. Likewise `ell()` of the scalar module of hw.vx is a copy of lib/s52_math.vx's. This script checks that every copy is
still literally the provider's line."""
import re, sys

ROOT = '/verif/contracts'
CHECKS = [
    (r'pub open spec fn mp_u\(', f'{ROOT}/mont.vx', f'{ROOT}/lib/hw_spec.vx'),
    (r'pub open spec fn mp_canonical\(', f'{ROOT}/mont.vx', f'{ROOT}/lib/hw_spec.vx'),
    (r'pub open spec fn ell\(\)', f'{ROOT}/lib/s52_math.vx', f'{ROOT}/hw.vx'),
]


def find(pat, path):
    ls = [l.strip() for l in open(path) if re.search(pat, l)]
    if len(ls) != 1:
        sys.exit(f'hw_check_copies: {len(ls)} definitions matching /{pat}/ in {path}')
    return ls[0]


bad = 0
for pat, prov, copy in CHECKS:
    a, b = find(pat, prov), find(pat, copy)
    if a != b:
        bad += 1
        print(f'DRIFT /{pat}/:\n  {prov}: {a}\n  {copy}: {b}')
print('hw_check_copies: %s' % ('OK (3 definitions identical to their providers)' if not bad else 'FAILED'))
sys.exit(1 if bad else 0)
