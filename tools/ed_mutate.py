#!/usr/bin/env python3
# Mutation sanity check for unit ED (AGENT_GUIDE "Mutation sanity check").
# usage: tools/ed_mutate.py <label> <repo-relative file> <old text> <new text> [nth occurrence]
# Copies the three source files of the unit into a scratch root (.work/ed/mrepo), replaces ONE occurrence of <old> by <new>,
# runs vx on the scratch root and then verus, and prints the failed obligations. /repo is never touched.
# CRISP=1 (default): the `//hide// ` line of the function containing the mutation is enabled (see header of contracts/ed.vx),
# so that a wrong formula fails as "postcondition not satisfied" on the tagged line; CRISP=0: the file is verified as generated.
import sys, os, shutil, subprocess, time, re
label, rel, old, new = sys.argv[1:5]
nth = int(sys.argv[5]) if len(sys.argv) > 5 else 1
root = '/verif/.work/ed/mrepo'
os.makedirs('/verif/.work/ed/mut', exist_ok=True)
files = ['curve25519-dalek/src/edwards.rs', 'curve25519-dalek/src/backend/serial/curve_models/mod.rs', 'curve25519-dalek/src/traits.rs']
for f in files:
    os.makedirs(os.path.dirname(f'{root}/{f}'), exist_ok=True)
    shutil.copy(f'/repo/{f}', f'{root}/{f}')
s = open(f'{root}/{rel}').read()
idx = -1
for _ in range(nth):
    idx = s.index(old, idx + 1)
s = s[:idx] + new + s[idx + len(old):]
open(f'{root}/{rel}', 'w').write(s)
out = f'/verif/.work/ed/mut/mut_{label}.rs'
r = subprocess.run(['/verif/vx/target/release/vx', root, '/verif/contracts/ed.vx', out, out + '.json'], capture_output=True, text=True)
if r.returncode != 0:
    print(label, 'vx exit', r.returncode, r.stderr.strip()); sys.exit(0)
if os.environ.get('CRISP','1')=='1':
    # enable the `hide` line of the function that contains the mutated text only (see header of ed.vx)
    L=open(out).read().split('\n')
    import json
    srcline = s[:idx].count('\n') + 1
    hits=[g-1 for (g,f,sl) in json.load(open(out+'.json'))['linemap'] if f==rel and sl==srcline]
    crisp=False
    for h in hits[:1]:
        for i in range(h, max(h-40,0), -1):
            if '//hide// ' in L[i]:
                L[i]=L[i].replace('//hide// ',''); crisp=True; break
            if L[i].strip().startswith('// @src'): break
    open(out,'w').write('\n'.join(L))
    os.environ['CRISP']='1' if crisp else '0 (no hide line in this fn)'
t = time.time()
r = subprocess.run(['timeout', '900', 'verus', out, '--rlimit', '100', '--triggers-mode', 'silent'], capture_output=True, text=True, cwd='/verif/.work/ed/mut')
dt = time.time() - t
txt = r.stdout + r.stderr
lines = txt.split('\n')
errs = []
for i, l in enumerate(lines):
    if l.startswith('error') and 'aborting' not in l:
        ctx = ' | '.join(x.strip() for x in lines[i+1:i+8] if re.search(r'^\s*\d+ \|', x))
        errs.append(l + '  ::  ' + ctx[:230])
res = [l for l in lines if 'verification results' in l]
print(f'== {label} (crisp={os.environ.get("CRISP","1")}): {res} {dt:.1f}s')
for e in errs[:6]: print('   ', e)
