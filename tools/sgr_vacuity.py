#!/usr/bin/env python3
"""vacuity probes: insert assert(false) at chosen points of .work/sgr/sgr.rs; every probe must FAIL verification."""
import os,subprocess,sys
s=open('/verif/.work/sgr/sgr.rs').read()
probes=[
 ('r2w_end','Scalar::as_radix_2w',"\ndigits\n    }","\nassert(false);\ndigits\n    }"),
 ('r2w_w8','Scalar::as_radix_2w',"\ndigits\n    }","\nassert(w != 8);\ndigits\n    }"),
 ('r2w_w5','Scalar::as_radix_2w',"\ndigits\n    }","\nassert(w != 5);\ndigits\n    }"),
 ('r2w_carry1','Scalar::as_radix_2w',"\ndigits\n    }","\nassert(carry == 0);\ndigits\n    }"),
 ('r2w_loop','Scalar::as_radix_2w',"                if w < 8 && i + 1 == digits_count {","                assert(false);\n                if w < 8 && i + 1 == digits_count {"),
 ('r2w_last','Scalar::as_radix_2w',"assert(255 - bit_offset == 0 || 255 - bit_offset == 3); }","assert(255 - bit_offset == 0 || 255 - bit_offset == 3); assert(false); }"),
 ('r2w_w4','Scalar::as_radix_2w',"            return self.as_radix_16();","            assert(false);\n            return self.as_radix_16();"),
 ('r16_end','Scalar::as_radix_16',"\noutput\n    }","\nassert(false);\noutput\n    }"),
 ('r16_loop2','Scalar::as_radix_16',"            output[i + 1] += carry;\n","            output[i + 1] += carry;\n            assert(false);\n"),
 ('r16_loop1','Scalar::as_radix_16',"            output[2 * i + 1] = top_half(self[i]) as i8;\n","            output[2 * i + 1] = top_half(self[i]) as i8;\n            assert(false);\n"),
 ('r16_top8','Scalar::as_radix_16',"\noutput\n    }","\nassert(output[63] != 8);\noutput\n    }"),
 ('naf_end','Scalar::non_adjacent_form',"\nnaf\n    }","\nassert(false);\nnaf\n    }"),
 ('naf_odd','Scalar::non_adjacent_form',"pos += w;\n        }\n","pos += w;\nassert(false);\n        }\n"),
 ('naf_even','Scalar::non_adjacent_form',"pos += 1;\n                continue;","pos += 1;\nassert(false);\n                continue;"),
 ('naf_carry','Scalar::non_adjacent_form',"pos += w;\n        }\n","pos += w;\nassert(carry == 0);\n        }\n"),
 ('naf_straddle','Scalar::non_adjacent_form',"                (x_u64[u64_idx] >> bit_idx) | (x_u64[1 + u64_idx] << (64 - bit_idx))\n","                assert(false);\n                (x_u64[u64_idx] >> bit_idx) | (x_u64[1 + u64_idx] << (64 - bit_idx))\n"),
 ('clamp','clamp_integer',"    bytes[31] |= 0b0100_0000;\n","    bytes[31] |= 0b0100_0000;\n    assert(false);\n"),
]
for d in ('/tmp/sgr/mrepo/curve25519-dalek/src','/verif/.work/sgr/mut','/verif/.work/sgr/vac'): os.makedirs(d,exist_ok=True)
only=sys.argv[1:]
bad=0
for name,fn,a,b in probes:
    if only and name not in only: continue
    assert s.count(a)>=1,(name,'anchor missing')
    i=s.index(fn.split('::')[-1]+'(')
    # replace first occurrence after the fn definition
    k=s.index('fn '+fn.split('::')[-1])
    j=s.index(a,k)
    t=s[:j]+b+s[j+len(a):]
    open('/verif/.work/sgr/vac/%s.rs'%name,'w').write(t)
    r=subprocess.run(['timeout','600','verus','/verif/.work/sgr/vac/%s.rs'%name,'--rlimit','100','--triggers-mode','silent','--verify-root','--verify-function',fn],capture_output=True,text=True)
    out=r.stdout+r.stderr
    res=[l for l in out.splitlines() if 'verification results' in l]
    failed=('assertion failed' in out) or ('rlimit' in out and ' 0 errors' not in out)
    print(name, 'OK (probe fails as it must)' if failed else 'VACUOUS?!', res)
    if not failed: bad+=1
sys.exit(bad)
