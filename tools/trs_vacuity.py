#!/usr/bin/env python3
"""Vacuity probes for unit TRS (contracts/trs.vx). Works on a scratch copy of the GENERATED file (/verif/.work/trs/vac/), never on the template or /repo.

usage: tools/trs_vacuity.py [rlimit]          (default 30)

`assert(false)` is spliced
  (a) at the END of every verified extracted body (vx log `gen_lines`): `{ BODY }` -> `{ let vx_vac = { BODY }; assert(false); vx_vac }`, i.e. AFTER the tail
      expression — with the contracts of all callees (incl. `.expect`) and the spliced proof text in the context;
  (b) at the end of every loop body vx generates (after `vx_acc = ..;`)  [the code after a loop is covered by (a): same straight-line context];
  (c) at the end of the template's own exec fns: trait-instance forwarders, corollaries (trs_edwards_*), client witnesses (trs_client_*), trs_map_some, the generated
      macro variants (lib/trs_variants.vx).
Every probe must be REJECTED. A probe that ends as `rlimit exceeded` is counted separately (undecided, not a pass).
In the bodies whose context contains the Edwards addition law (`ed_valid`, `ed_add_affine`: non-linear field arithmetic) a failing obligation makes Z3 burn the whole
rlimit (see the memory notes of units SG / SMNT / BV), so by default the scratch copy gets `hide(ed_valid); hide(ed_add_affine);` as first statements of those bodies
(HIDES below): the probe then asks "do the CONTRACTS in scope (preconditions, stubs, axioms, invariants) contradict each other" and is decided in seconds.
`--no-hide` runs the probes against the full definitions instead (slow; several end as rlimit exceeded = undecided)."""
import json, os, re, shutil, subprocess, sys

ARGS = [a for a in sys.argv[1:] if a != "--no-hide"]
NOHIDE = "--no-hide" in sys.argv[1:]
RL = ARGS[0] if ARGS else "30"
# fn-header regex -> hides inserted as the first statements of the body (scratch copy only)
H2 = "hide(ed_valid); hide(ed_add_affine);"
H4 = "hide(ed_valid); hide(ed_add_affine); hide(gmul); hide(on_curve);"
HIDES = [(r"^pub fn trs_edwards_vartime_multiscalar_mul", H2), (r"^pub fn trs_edwards_(vartime_mixed|precomputed)_\w+", H4),
         (r"^pub fn trs_edwards_table_\w+", "hide(sm_bpt16_valid); hide(ed_valid); hide(gmul); hide(le_int32);"),
         (r"^    fn add\(self, rhs: &'b EdwardsPoint\)", H2), (r"^    fn sub\(self, rhs: &'b EdwardsPoint\)", H2), (r"^pub fn trs_client_edwards_\w+", H2),
         (r"^    fn sum<I>\(iter: I\) -> \(r: Self\)\s*$", H2)]
W = "/verif/.work/trs/vac"
shutil.rmtree(W, ignore_errors=True)
os.makedirs(W)
r = subprocess.run(["/verif/vx/target/release/vx", "/repo", "/verif/contracts/trs.vx", W + "/trs.rs", W + "/trs.log.json"], capture_output=True, text=True)
if r.returncode:
    print("vx failed", r.returncode, r.stderr[-1500:])
    sys.exit(2)
src = open(W + "/trs.rs").read().split("\n")
log = json.load(open(W + "/trs.log.json"))
ins_after = {}   # 0-based line index -> text inserted after that line
ins_before = {}
n = 0
names = {}
for it in log["items"]:
    if it.get("external_body") or "gen_lines" not in it:
        continue
    if not (it["kind"] == "fn" or ":: fn " in it["path"] or it["path"].startswith("fn ")):
        continue
    a, b = it["gen_lines"]          # 1-based, inclusive
    body = None
    for k in range(a - 1, b):
        if src[k] == "{":
            body = k
            break
    if body is None:
        continue
    end = None
    for k in range(b - 1, body, -1):
        if src[k].strip() == "}":
            end = k
            break
    # header statements (`hide(..)`, `broadcast use ..;`) must stay first
    k = body + 1
    while k < end and (src[k].strip() == "" or src[k].strip().startswith("hide(") or src[k].strip().startswith("broadcast use")):
        k += 1
    ins_before[k] = "        let vx_vac = {   // VACUITY-WRAP"
    ins_before.setdefault(end, "")
    ins_before[end] = "        }; assert(false);   // VACUITY-PROBE end of " + it["path"] + "\n        vx_vac" + ins_before[end]
    n += 1
out = []
for k, l in enumerate(src):
    if k in ins_before and ins_before[k]:
        out.append(ins_before[k])
    s = l.strip()
    out.append(l)
    if s.startswith("vx_acc = core::ops::"):
        out.append("            assert(false);   // VACUITY-PROBE loop body")
        n += 1
txt = "\n".join(out)


def sub(pat, rep, count_expected=None, flags=re.M):
    global txt, n
    txt, c = re.subn(pat, rep, txt, flags=flags)
    n += c
    if count_expected is not None and c != count_expected:
        print("WARNING: pattern %r matched %d times (expected %d)" % (pat, c, count_expected))


# (c) template exec fns
sub(r"^(    r\n\})", r"    assert(false);   // VACUITY-PROBE corollary / client / trs_map_some\n\1", 6)
sub(r"^    \(s, p\)\n\}", "    assert(false);   // VACUITY-PROBE client\n    (s, p)\n}", 1)
sub(r"^    t\.mul_base_clamped\(bytes\)\n", "    let vx_vac = t.mul_base_clamped(bytes); assert(false);   // VACUITY-PROBE corollary\n    vx_vac\n", 1)
sub(r"^        EdwardsPoint::optional_multiscalar_mul\(scalars, points\)\n", "        let vx_vac = EdwardsPoint::optional_multiscalar_mul(scalars, points); assert(false);   // VACUITY-PROBE instance\n        vx_vac\n", 1)
sub(r"^        VartimeEdwardsPrecomputation::optional_mixed_multiscalar_mul\(self, static_scalars, dynamic_scalars, dynamic_points\)\n",
    "        let vx_vac = VartimeEdwardsPrecomputation::optional_mixed_multiscalar_mul(self, static_scalars, dynamic_scalars, dynamic_points); assert(false);   // VACUITY-PROBE instance\n        vx_vac\n", 1)
sub(r"^        (core::ops::(?:Add::add|Sub::sub)\(&self, rhs\))(.*)\n", r"        let vx_vac = \1; assert(false);   // VACUITY-PROBE variant\n        vx_vac\n", 2)
if not NOHIDE:
    L = txt.split("\n")
    o2 = []
    pending = False
    nh = 0
    for k, l in enumerate(L):
        o2.append(l)
        hs = [h for (rx, h) in HIDES if re.search(rx, l)]
        if hs and "Scalar" not in "".join(L[max(0, k - 3):k]):
            pending = hs[0]
        elif pending and l.strip() == "{":
            o2.append("        " + pending + "   // (vacuity scratch copy only)")
            pending = False
            nh += 1
    txt = "\n".join(o2)
    print("hides inserted into %d bodies" % nh)
open(W + "/trs_vac.rs", "w").write(txt)
lines = txt.split("\n")
probe_lines = {i + 1: l for i, l in enumerate(lines) if "VACUITY-PROBE" in l}
r = subprocess.run(["timeout", "1500", "verus", W + "/trs_vac.rs", "--rlimit", RL, "--triggers-mode", "silent", "--multiple-errors", "10"], capture_output=True, text=True)
o = r.stdout + r.stderr
open(W + "/trs_vac.out", "w").write(o)
hit = set()
ol = o.split("\n")
for i, l in enumerate(ol):
    if l.startswith("error: assertion failed"):
        for x in ol[i + 1:i + 4]:
            m = re.search(r"trs_vac\.rs:(\d+):", x)
            if m and int(m.group(1)) in probe_lines:
                hit.add(int(m.group(1)))
rl = o.count("Resource limit")
print("probes inserted: %d (lines with a probe: %d)" % (n, len(probe_lines)))
print([l for l in ol if "verification results" in l])
print("probes rejected by `assertion failed`: %d; functions ending in rlimit exceeded: %d" % (len(hit), rl))
miss = [(k, v.strip()) for k, v in sorted(probe_lines.items()) if k not in hit]
for k, v in miss:
    print("  NOT definitely rejected: line %d  %s" % (k, v[:140]))
if not miss and rl == 0:
    print("ALL PROBES REJECTED")
