#!/usr/bin/env python3
"""regress_seeds.py [-j N] [seed-id ...]  — fast regression of the kill matrix after the machinery changed.

For every confirmed seed under /verif/seeded (or the ones named) that some check detected before, re-run ONLY the first detecting
check, restricted to the unit that reported it (parsed from the recorded VIOLATION line; whole check when it cannot be parsed), on a
scratch copy of /repo with the patch applied.  Seeds that no check detected are re-run with their own property's whole check.
Prints one line per seed (still-caught / LOST / now-caught / still-missed) and writes seeded/REGRESSION.md.  Never touches /repo.
The authoritative matrix (all listed checks, whole) stays tools/run_seeds.py -> seeded/KILL_MATRIX.md."""
import json, os, re, shutil, subprocess, sys, time
from concurrent.futures import ThreadPoolExecutor
V = "/verif"
SD = os.path.join(V, "seeded")
sys.path.insert(0, V)
from vlib import units as U
args = sys.argv[1:]
J = 3
if args and args[0] == "-j":
    J = int(args[1]); args = args[2:]
want = set(args)


def unit_of(line):
    m = re.search(r"obligation=([A-Za-z0-9\-]+)\.", line)
    if m and m.group(1) in U.UNITS:
        return m.group(1)
    m = re.search(r"replay=\S*/C\d\d_([A-Z0-9\-]+)\.", line)
    if m and m.group(1) in U.UNITS:
        return m.group(1)
    return None


def one(sid):
    d = os.path.join(SD, sid)
    meta = json.load(open(os.path.join(d, "meta.json")))
    if not meta.get("confirmed", True):
        return (sid, "unconfirmed", "", 0)
    det = meta.get("detected_by") or []
    prop = det[0] if det else meta["property"]
    unit = None
    if det:
        for l in meta.get("checks", {}).get(prop, {}).get("lines", []):
            if l.startswith("VIOLATION"):
                unit = unit_of(l)
                break
    scratch = "/tmp/regr_%s" % sid
    shutil.rmtree(scratch, ignore_errors=True)
    os.makedirs(scratch)
    subprocess.run("cd /repo && tar --exclude=./target --exclude=./.git -cf - . | tar -xf - -C %s" % scratch, shell=True, check=True)
    subprocess.run("git init -q && git add -A && git commit -qm base", shell=True, cwd=scratch, check=True, capture_output=True)
    r = subprocess.run(["git", "apply", os.path.join(d, "patch.diff")], cwd=scratch, capture_output=True, text=True)
    if r.returncode != 0:
        shutil.rmtree(scratch, ignore_errors=True)
        return (sid, "patch-does-not-apply", "", 0)
    t0 = time.time()
    cmd = [os.path.join(V, "check"), prop, "--repo", scratch] + (["--units", unit] if unit else [])
    p = subprocess.run(cmd, cwd=V, capture_output=True, text=True)
    vio = [l for l in p.stdout.split("\n") if l.startswith("VIOLATION")]
    shutil.rmtree(scratch, ignore_errors=True)
    for w in os.listdir(os.path.join(V, ".work")):
        if w.endswith("_tmp_regr_%s" % sid.replace("-", "_")):
            shutil.rmtree(os.path.join(V, ".work", w), ignore_errors=True)
    shutil.rmtree(os.path.join(V, "replays", "alt-_tmp_regr_%s" % sid.replace("-", "_")), ignore_errors=True)
    if det:
        st = "still-caught" if p.returncode == 1 and vio else "LOST(exit %d)" % p.returncode
    else:
        st = "now-caught" if p.returncode == 1 and vio else "still-missed(exit %d)" % p.returncode
    return (sid, st, "%s%s" % (prop, (" --units " + unit) if unit else ""), round(time.time() - t0))


sids = sorted(x for x in os.listdir(SD) if os.path.isfile(os.path.join(SD, x, "meta.json")) and (not want or x in want))
rows = []
with ThreadPoolExecutor(J) as ex:
    for r in ex.map(one, sids):
        rows.append(r)
        print("%-12s %-22s %-28s %ss" % r, flush=True)
with open(os.path.join(SD, "REGRESSION.md") if not want else os.devnull, "w") as f:
    f.write("# Kill-matrix regression (tools/regress_seeds.py: first detecting check, restricted to the reporting unit)\n\n| seed | status | command | s |\n|---|---|---|---|\n")
    for r in rows:
        f.write("| %s | %s | ./check %s | %s |\n" % r)
bad = [r for r in rows if r[1].startswith("LOST")]
print("%d seeds, %d lost" % (len(rows), len(bad)))
sys.exit(1 if bad else 0)
