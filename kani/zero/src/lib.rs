//! K-ZERO — property C14: dropping a secret-holding value overwrites its secret bytes.
//! Complete harnesses (loop-free in the secret value; all 2^256 / 2^512 contents), on the REAL crates:
//! the value is built from symbolic bytes, dropped in place inside ManuallyDrop, and its storage read back.
#![allow(unused)]
use core::mem::{size_of, ManuallyDrop};

#[cfg(kani)]
mod proofs {
    use super::*;
    use ed25519_dalek::hazmat::ExpandedSecretKey;
    use ed25519_dalek::SigningKey;
    use x25519_dalek::{EphemeralSecret, ReusableSecret, SharedSecret, StaticSecret};
    use zeroize::Zeroize;

    /// symbolic RNG: every byte requested is a fresh nondeterministic value
    struct AnyRng;
    impl rand_core::RngCore for AnyRng {
        fn next_u32(&mut self) -> u32 { kani::any() }
        fn next_u64(&mut self) -> u64 { kani::any() }
        fn fill_bytes(&mut self, dest: &mut [u8]) { for b in dest.iter_mut() { *b = kani::any(); } }
        fn try_fill_bytes(&mut self, dest: &mut [u8]) -> Result<(), rand_core::Error> { self.fill_bytes(dest); Ok(()) }
    }
    impl rand_core::CryptoRng for AnyRng {}

    unsafe fn all_zero(p: *const u8, n: usize) -> bool {
        let mut ok = true;
        let mut i = 0;
        while i < n { if *p.add(i) != 0 { ok = false; } i += 1; }
        ok
    }

    #[kani::proof]
    #[kani::unwind(34)]
    fn static_secret_drop() {
        let bytes: [u8; 32] = kani::any();
        let mut s = ManuallyDrop::new(StaticSecret::from(bytes));
        assert!(size_of::<StaticSecret>() == 32);
        let p = &*s as *const StaticSecret as *const u8;
        unsafe { ManuallyDrop::drop(&mut s); assert!(all_zero(p, 32)); }
    }

    #[kani::proof]
    #[kani::unwind(34)]
    fn reusable_secret_drop() {
        let mut s = ManuallyDrop::new(ReusableSecret::random_from_rng(AnyRng));
        assert!(size_of::<ReusableSecret>() == 32);
        let p = &*s as *const ReusableSecret as *const u8;
        unsafe { ManuallyDrop::drop(&mut s); assert!(all_zero(p, 32)); }
    }

    #[kani::proof]
    #[kani::unwind(34)]
    fn ephemeral_secret_drop() {
        let mut s = ManuallyDrop::new(EphemeralSecret::random_from_rng(AnyRng));
        assert!(size_of::<EphemeralSecret>() == 32);
        let p = &*s as *const EphemeralSecret as *const u8;
        unsafe { ManuallyDrop::drop(&mut s); assert!(all_zero(p, 32)); }
    }

    /// SharedSecret has no cheap public constructor (only a full Diffie-Hellman): its storage is 32 bytes
    /// (a MontgomeryPoint), so it is materialised from symbolic bytes by transmute; drop glue is the real one.
    #[kani::proof]
    #[kani::unwind(34)]
    fn shared_secret_drop() {
        let bytes: [u8; 32] = kani::any();
        assert!(size_of::<SharedSecret>() == 32);
        let mut s = ManuallyDrop::new(unsafe { core::mem::transmute::<[u8; 32], SharedSecret>(bytes) });
        let p = &*s as *const SharedSecret as *const u8;
        unsafe { ManuallyDrop::drop(&mut s); assert!(all_zero(p, 32)); }
    }

    /// explicit zeroisation of a StaticSecret / SharedSecret
    #[kani::proof]
    #[kani::unwind(34)]
    fn static_secret_zeroize() {
        let bytes: [u8; 32] = kani::any();
        let mut s = StaticSecret::from(bytes);
        s.zeroize();
        assert!(s.to_bytes() == [0u8; 32]);
    }

    /// ExpandedSecretKey: both secret fields are wiped by Drop (fields are public: offsets taken with addr_of)
    #[kani::proof]
    #[kani::unwind(66)]
    fn expanded_secret_key_drop() {
        let sbytes: [u8; 32] = kani::any();
        let prefix: [u8; 32] = kani::any();
        // any 32 bytes with the top bit clear form a (possibly unreduced) Scalar via from_bits-like construction:
        // we use the hazmat constructor from_bytes on 64 symbolic bytes is too heavy (reduction); build the struct directly.
        let scalar = unsafe { core::mem::transmute::<[u8; 32], curve25519_dalek::Scalar>(sbytes) };
        let mut e = ManuallyDrop::new(ExpandedSecretKey { scalar, hash_prefix: prefix });
        let ps = core::ptr::addr_of!(e.scalar) as *const u8;
        let pp = core::ptr::addr_of!(e.hash_prefix) as *const u8;
        assert!(size_of::<curve25519_dalek::Scalar>() == 32);
        unsafe { ManuallyDrop::drop(&mut e); assert!(all_zero(ps, 32)); assert!(all_zero(pp, 32)); }
    }

    /// SigningKey: Drop wipes the 32 secret bytes. The value is materialised from symbolic bytes (computing the
    /// public key is a full scalar multiplication, out of CBMC's reach and irrelevant to Drop); the offset of the
    /// secret field is taken from the real accessor `as_bytes`.
    #[kani::proof]
    #[kani::unwind(34)]
    fn signing_key_drop() {
        const N: usize = size_of::<SigningKey>();
        let raw: [u8; N] = kani::any();
        let mut k = ManuallyDrop::new(unsafe { core::mem::transmute::<[u8; N], SigningKey>(raw) });
        let ps = k.as_bytes().as_ptr();
        unsafe { ManuallyDrop::drop(&mut k); assert!(all_zero(ps, 32)); }
    }
}
