//! K-OVF / K-BITS for the serial u64 backend — the REAL files mounted unmodified (no repository change).
//! Every harness is loop-free or has loops of fixed trip count closed by Kani's unwinding assertions, and ranges over
//! ALL limb vectors within the interface bound: complete proofs of "no overflow / no debug assertion / output bound"
//! (property C11) on the compiled code, independent of the Verus proofs on the extracted text.
#![allow(dead_code, unused_imports, non_snake_case)]
#[path = "/repo/curve25519-dalek/src/backend/serial/u64/field.rs"]
pub mod field;
#[path = "/repo/curve25519-dalek/src/backend/serial/u64/scalar.rs"]
pub mod scalar;
pub mod constants {
    use crate::scalar::Scalar52;
    include!("constants_gen.rs");
}

#[cfg(kani)]
mod proofs {
    use crate::field::FieldElement51 as F;
    use crate::scalar::Scalar52 as S;

    fn any_fe(bound: u64) -> F {
        let l: [u64; 5] = kani::any();
        kani::assume(l[0] < bound && l[1] < bound && l[2] < bound && l[3] < bound && l[4] < bound);
        F(l)
    }
    fn lt(f: &F, bound: u64) -> bool { f.0[0] < bound && f.0[1] < bound && f.0[2] < bound && f.0[3] < bound && f.0[4] < bound }
    fn any_sc() -> S {
        let l: [u64; 5] = kani::any();
        kani::assume(l[0] < (1 << 52) && l[1] < (1 << 52) && l[2] < (1 << 52) && l[3] < (1 << 52) && l[4] < (1 << 52));
        S(l)
    }

    #[kani::proof]
    fn f_mul_bounds() { let a = any_fe(1 << 54); let b = any_fe(1 << 54); let r = &a * &b; assert!(lt(&r, 1 << 52)); }
    #[kani::proof]
    fn f_square_bounds() { let a = any_fe(1 << 54); let r = a.square(); assert!(lt(&r, 1 << 52)); }
    #[kani::proof]
    fn f_square2_bounds() { let a = any_fe(1 << 54); let r = a.square2(); assert!(lt(&r, 1 << 53)); }
    #[kani::proof]
    #[kani::unwind(3)]
    fn f_pow2k_bounds() { let a = any_fe(1 << 54); let k: u32 = kani::any(); kani::assume(k == 1 || k == 2); let r = a.pow2k(k); assert!(lt(&r, 1 << 52)); }
    #[kani::proof]
    fn f_sub_bounds() { let a = any_fe(1 << 62); let b = any_fe(36028797018963664); let r = &a - &b; assert!(lt(&r, 1 << 52)); }
    #[kani::proof]
    fn f_neg_bounds() { let a = any_fe(36028797018963664); let r = -&a; assert!(lt(&r, 1 << 52)); }
    #[kani::proof]
    #[kani::unwind(6)]
    fn f_add_bounds() { let a = any_fe(1 << 63); let b = any_fe(1 << 63); let r = &a + &b; assert!(r.0[0] == a.0[0] + b.0[0] && r.0[4] == a.0[4] + b.0[4]); }
    #[kani::proof]
    fn f_as_bytes_total() { let l: [u64; 5] = kani::any(); let r = F(l).as_bytes(); assert!(r[31] < 128); }
    #[kani::proof]
    fn f_from_bytes_bounds() { let b: [u8; 32] = kani::any(); let r = F::from_bytes(&b); assert!(lt(&r, 1 << 51)); }

    #[kani::proof]
    #[kani::unwind(6)]
    fn s_add_bounds() { let a = any_sc(); let b = any_sc(); let r = S::add(&a, &b); assert!(r.0[0] < (1 << 52) && r.0[4] < (1 << 52)); }
    #[kani::proof]
    #[kani::unwind(6)]
    fn s_sub_bounds() { let a = any_sc(); let b = any_sc(); let r = S::sub(&a, &b); assert!(r.0[0] < (1 << 52) && r.0[1] < (1 << 52) && r.0[2] < (1 << 52) && r.0[3] < (1 << 52) && r.0[4] < (1 << 52)); }
    #[kani::proof]
    #[kani::unwind(6)]
    fn s_mul_bounds() { let a = any_sc(); let b = any_sc(); let r = S::mul(&a, &b); assert!(r.0[0] < (1 << 52) && r.0[1] < (1 << 52) && r.0[2] < (1 << 52) && r.0[3] < (1 << 52) && r.0[4] < (1 << 52)); }
    #[kani::proof]
    #[kani::unwind(6)]
    fn s_square_bounds() { let a = any_sc(); let r = a.square(); assert!(r.0[0] < (1 << 52) && r.0[4] < (1 << 52)); }
    #[kani::proof]
    #[kani::unwind(9)]
    fn s_from_bytes_bounds() { let b: [u8; 32] = kani::any(); let r = S::from_bytes(&b); assert!(r.0[0] < (1 << 52) && r.0[1] < (1 << 52) && r.0[2] < (1 << 52) && r.0[3] < (1 << 52) && r.0[4] < (1 << 48)); }
    #[kani::proof]
    #[kani::unwind(9)]
    fn s_from_bytes_wide_bounds() { let b: [u8; 64] = kani::any(); let r = S::from_bytes_wide(&b); assert!(r.0[0] < (1 << 52) && r.0[1] < (1 << 52) && r.0[2] < (1 << 52) && r.0[3] < (1 << 52) && r.0[4] < (1 << 52)); }
    #[kani::proof]
    fn s_as_bytes_total() { let a = any_sc(); let _ = a.as_bytes(); }
}
