// @src curve25519-dalek/src/backend/serial/u64/constants.rs:116
/// `L` is the order of base point, i.e. 2^252 + 27742317777372353535851937790883648493
pub const L: Scalar52 = Scalar52([
    0x0002631a5cf5d3ed,
    0x000dea2f79cd6581,
    0x000000000014def9,
    0x0000000000000000,
    0x0000100000000000,
]);
// @src curve25519-dalek/src/backend/serial/u64/constants.rs:125
/// `L` * `LFACTOR` = -1 (mod 2^52)
pub const LFACTOR: u64 = 0x51da312547e1b;
// @src curve25519-dalek/src/backend/serial/u64/constants.rs:128
/// `R` = R % L where R = 2^260
pub const R: Scalar52 = Scalar52([
    0x000f48bd6721e6ed,
    0x0003bab5ac67e45a,
    0x000fffffeb35e51b,
    0x000fffffffffffff,
    0x00000fffffffffff,
]);
// @src curve25519-dalek/src/backend/serial/u64/constants.rs:137
/// `RR` = (R^2) % L where R = 2^260
pub const RR: Scalar52 = Scalar52([
    0x0009d265e952d13b,
    0x000d63c715bea69f,
    0x0005be65cb687604,
    0x0003dceec73d217f,
    0x000009411b7c309a,
]);
