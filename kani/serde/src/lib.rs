//! K-SERDE (claim C16): the REAL `Serialize` / `Deserialize` impls of curve25519-dalek, ed25519-dalek, ed25519 and
//! x25519-dalek (features = ["serde"]) driven through a minimal serde data format defined in this file.
//!
//! The format (`fmt`) is deliberately tiny so that CBMC can unfold everything:
//!   * `Rec` + `&mut Rec: Serializer` records every byte the impl emits plus a log of the structural serde calls
//!     (`serialize_tuple(n)`, `end`, `serialize_bytes(n)`, `serialize_newtype_struct`).
//!   * `De: Deserializer` reads from a byte slice of symbolic content AND symbolic length. It has two symbolic
//!     "shapes", covering how the two families of real formats call a visitor:
//!       - `compact` (bincode-like): `deserialize_tuple(n)` gives a `SeqAccess` that yields at most `n` elements and
//!         fails with `Error::Eof` if the input ends first; `deserialize_bytes` calls `visit_bytes(whole input)`.
//!       - self-describing (JSON-array-like): any sequence request gives a `SeqAccess` that yields ALL input elements
//!         and then `None` irrespective of the requested length (so short and over-long sequences reach the visitor);
//!         `deserialize_bytes` also goes to `visit_seq`.
//!     `is_human_readable()` is a symbolic bool as well.
//!   * errors are a small `Copy` enum; `custom()` drops its message so no `core::fmt` machinery is unfolded.
//!
//! Labels used on harnesses:
//!   COMPLETE   = all byte values, all input lengths 0..=MAX (34; 66 for Signature), both shapes, no stubs.
//!   PARAMETRIC = as COMPLETE, but the named heavy arithmetic function is replaced ON BOTH SIDES (serde path and
//!                native decoder) by a cheap stub that records its argument; the proof shows the serde glue hands exactly
//!                the received bytes to that function and propagates its result / failure.
#![allow(unused)]
#![no_std]

pub mod fmt {
    use core::fmt::{self, Display};
    use serde::de::{self, DeserializeSeed, SeqAccess, Visitor};
    use serde::ser::{self, Impossible, Serialize};

    #[derive(Debug, Clone, Copy, PartialEq, Eq)]
    pub enum Error {
        Custom,
        InvalidLength(usize),
        Eof,
        Unsupported,
    }
    impl Display for Error {
        fn fmt(&self, f: &mut fmt::Formatter<'_>) -> fmt::Result {
            f.write_str("kserde error")
        }
    }
    impl core::error::Error for Error {}
    impl ser::Error for Error {
        fn custom<T: Display>(_msg: T) -> Self {
            Error::Custom
        }
    }
    impl de::Error for Error {
        fn custom<T: Display>(_msg: T) -> Self {
            Error::Custom
        }
        fn invalid_length(len: usize, _exp: &dyn de::Expected) -> Self {
            Error::InvalidLength(len)
        }
    }

    // ---------------------------------------------------------------- serializer
    pub const CAP: usize = 72;
    pub const NEV: usize = 6;

    #[derive(Debug, Clone, Copy, PartialEq, Eq)]
    pub enum Ev {
        Nil,
        /// serialize_tuple(len) called when `at` bytes had been emitted
        Tuple { len: usize, at: usize },
        /// SerializeTuple::end called when `at` bytes had been emitted
        End { at: usize },
        /// serialize_bytes(slice of len) called when `at` bytes had been emitted
        Bytes { len: usize, at: usize },
        /// serialize_newtype_struct
        Newtype { at: usize },
    }

    pub struct Rec {
        pub buf: [u8; CAP],
        pub len: usize,
        pub ev: [Ev; NEV],
        pub nev: usize,
        /// open tuples
        pub depth: usize,
        /// a u8 was emitted outside any tuple
        pub stray: bool,
    }
    impl Rec {
        pub fn new() -> Self {
            Rec { buf: [0; CAP], len: 0, ev: [Ev::Nil; NEV], nev: 0, depth: 0, stray: false }
        }
        fn log(&mut self, e: Ev) {
            assert!(self.nev < NEV);
            self.ev[self.nev] = e;
            self.nev += 1;
        }
        fn push(&mut self, b: u8) {
            assert!(self.len < CAP);
            self.buf[self.len] = b;
            self.len += 1;
        }
        /// exactly: serialize_tuple(n); n x serialize_element(u8); end()
        pub fn is_plain_tuple(&self, n: usize) -> bool {
            self.nev == 2
                && self.ev[0] == (Ev::Tuple { len: n, at: 0 })
                && self.ev[1] == (Ev::End { at: n })
                && self.len == n
                && self.depth == 0
                && !self.stray
        }
        /// exactly: k x serialize_newtype_struct; serialize_tuple(n); n x u8; end()
        pub fn is_newtype_tuple(&self, k: usize, n: usize) -> bool {
            let mut ok = self.nev == k + 2 && self.len == n && self.depth == 0 && !self.stray;
            let mut i = 0;
            while i < k {
                ok = ok && self.ev[i] == (Ev::Newtype { at: 0 });
                i += 1;
            }
            ok && self.ev[k] == (Ev::Tuple { len: n, at: 0 }) && self.ev[k + 1] == (Ev::End { at: n })
        }
        /// exactly: serialize_bytes(&[u8; n])
        pub fn is_bytes(&self, n: usize) -> bool {
            self.nev == 1 && self.ev[0] == (Ev::Bytes { len: n, at: 0 }) && self.len == n && self.depth == 0 && !self.stray
        }
    }

    pub struct Tup<'a> {
        rec: &'a mut Rec,
    }
    impl<'a> ser::SerializeTuple for Tup<'a> {
        type Ok = ();
        type Error = Error;
        fn serialize_element<T: ?Sized + Serialize>(&mut self, value: &T) -> Result<(), Error> {
            value.serialize(&mut *self.rec)
        }
        fn end(self) -> Result<(), Error> {
            let at = self.rec.len;
            self.rec.log(Ev::End { at });
            self.rec.depth -= 1;
            Ok(())
        }
    }

    macro_rules! unsupported {
        ($($name:ident($($t:ty),*) -> $r:ty;)*) => { $(fn $name(self $(, _: $t)*) -> Result<$r, Error> { unimplemented!() })* };
    }

    impl<'a> ser::Serializer for &'a mut Rec {
        type Ok = ();
        type Error = Error;
        type SerializeSeq = Impossible<(), Error>;
        type SerializeTuple = Tup<'a>;
        type SerializeTupleStruct = Impossible<(), Error>;
        type SerializeTupleVariant = Impossible<(), Error>;
        type SerializeMap = Impossible<(), Error>;
        type SerializeStruct = Impossible<(), Error>;
        type SerializeStructVariant = Impossible<(), Error>;

        fn serialize_u8(self, v: u8) -> Result<(), Error> {
            if self.depth == 0 {
                self.stray = true;
            }
            self.push(v);
            Ok(())
        }
        fn serialize_bytes(self, v: &[u8]) -> Result<(), Error> {
            let at = self.len;
            self.log(Ev::Bytes { len: v.len(), at });
            let mut i = 0;
            while i < v.len() {
                self.push(v[i]);
                i += 1;
            }
            Ok(())
        }
        fn serialize_tuple(self, len: usize) -> Result<Tup<'a>, Error> {
            let at = self.len;
            self.log(Ev::Tuple { len, at });
            self.depth += 1;
            Ok(Tup { rec: self })
        }
        fn serialize_newtype_struct<T: ?Sized + Serialize>(self, _name: &'static str, value: &T) -> Result<(), Error> {
            let at = self.len;
            self.log(Ev::Newtype { at });
            value.serialize(self)
        }

        unsupported! {
            serialize_bool(bool) -> (); serialize_i8(i8) -> (); serialize_i16(i16) -> (); serialize_i32(i32) -> ();
            serialize_i64(i64) -> (); serialize_u16(u16) -> (); serialize_u32(u32) -> (); serialize_u64(u64) -> ();
            serialize_f32(f32) -> (); serialize_f64(f64) -> (); serialize_char(char) -> (); serialize_str(&str) -> ();
            serialize_none() -> (); serialize_unit() -> (); serialize_unit_struct(&'static str) -> ();
            serialize_unit_variant(&'static str, u32, &'static str) -> ();
            serialize_seq(Option<usize>) -> Self::SerializeSeq;
            serialize_tuple_struct(&'static str, usize) -> Self::SerializeTupleStruct;
            serialize_tuple_variant(&'static str, u32, &'static str, usize) -> Self::SerializeTupleVariant;
            serialize_map(Option<usize>) -> Self::SerializeMap;
            serialize_struct(&'static str, usize) -> Self::SerializeStruct;
            serialize_struct_variant(&'static str, u32, &'static str, usize) -> Self::SerializeStructVariant;
        }
        fn serialize_some<T: ?Sized + Serialize>(self, _: &T) -> Result<(), Error> {
            unimplemented!()
        }
        fn serialize_newtype_variant<T: ?Sized + Serialize>(self, _: &'static str, _: u32, _: &'static str, _: &T) -> Result<(), Error> {
            unimplemented!()
        }
        fn collect_str<T: ?Sized + Display>(self, _: &T) -> Result<(), Error> {
            unimplemented!()
        }
    }

    // ---------------------------------------------------------------- deserializer
    pub struct De<'a> {
        pub input: &'a [u8],
        /// number of input elements consumed so far
        pub pos: usize,
        /// bincode-like (true) or JSON-array-like (false), see module doc
        pub compact: bool,
        pub human: bool,
        /// how many times the visitor was handed a sequence / a byte slice
        pub seqs: usize,
        pub slices: usize,
    }
    impl<'a> De<'a> {
        pub fn new(input: &'a [u8], compact: bool, human: bool) -> Self {
            De { input, pos: 0, compact, human, seqs: 0, slices: 0 }
        }
    }

    /// one element of the sequence
    pub struct ByteDe(pub u8);
    impl<'de> de::Deserializer<'de> for ByteDe {
        type Error = Error;
        fn deserialize_any<V: Visitor<'de>>(self, v: V) -> Result<V::Value, Error> {
            v.visit_u8(self.0)
        }
        serde::forward_to_deserialize_any! {
            bool i8 i16 i32 i64 i128 u8 u16 u32 u64 u128 f32 f64 char str string bytes byte_buf option unit unit_struct
            newtype_struct seq tuple tuple_struct map struct enum identifier ignored_any
        }
    }

    pub struct Seq<'b, 'a> {
        de: &'b mut De<'a>,
        /// Some(k): at most k more elements, running out of input is an error (compact); None: until the input ends
        left: Option<usize>,
    }
    impl<'de, 'b, 'a> SeqAccess<'de> for Seq<'b, 'a> {
        type Error = Error;
        fn next_element_seed<T: DeserializeSeed<'de>>(&mut self, seed: T) -> Result<Option<T::Value>, Error> {
            match self.left {
                Some(0) => return Ok(None),
                Some(k) => {
                    if self.de.pos >= self.de.input.len() {
                        return Err(Error::Eof);
                    }
                    self.left = Some(k - 1);
                }
                None => {
                    if self.de.pos >= self.de.input.len() {
                        return Ok(None);
                    }
                }
            }
            let b = self.de.input[self.de.pos];
            self.de.pos += 1;
            seed.deserialize(ByteDe(b)).map(Some)
        }
    }

    impl<'de, 'b, 'a> de::Deserializer<'de> for &'b mut De<'a> {
        type Error = Error;
        fn is_human_readable(&self) -> bool {
            self.human
        }
        fn deserialize_tuple<V: Visitor<'de>>(self, len: usize, v: V) -> Result<V::Value, Error> {
            self.seqs += 1;
            let left = if self.compact { Some(len) } else { None };
            v.visit_seq(Seq { de: self, left })
        }
        fn deserialize_seq<V: Visitor<'de>>(self, v: V) -> Result<V::Value, Error> {
            self.seqs += 1;
            v.visit_seq(Seq { de: self, left: None })
        }
        fn deserialize_any<V: Visitor<'de>>(self, v: V) -> Result<V::Value, Error> {
            self.deserialize_seq(v)
        }
        fn deserialize_bytes<V: Visitor<'de>>(self, v: V) -> Result<V::Value, Error> {
            if self.compact {
                self.slices += 1;
                self.pos = self.input.len();
                v.visit_bytes(self.input)
            } else {
                self.deserialize_seq(v)
            }
        }
        fn deserialize_byte_buf<V: Visitor<'de>>(self, v: V) -> Result<V::Value, Error> {
            self.deserialize_bytes(v)
        }
        fn deserialize_newtype_struct<V: Visitor<'de>>(self, _name: &'static str, v: V) -> Result<V::Value, Error> {
            v.visit_newtype_struct(self)
        }
        fn deserialize_tuple_struct<V: Visitor<'de>>(self, _name: &'static str, len: usize, v: V) -> Result<V::Value, Error> {
            self.deserialize_tuple(len, v)
        }
        serde::forward_to_deserialize_any! {
            bool i8 i16 i32 i64 i128 u8 u16 u32 u64 u128 f32 f64 char str string option unit unit_struct
            map struct enum identifier ignored_any
        }
    }
}

#[cfg(kani)]
mod proofs {
    use super::fmt::{De, Error, Rec};
    use curve25519_dalek::constants::{ED25519_BASEPOINT_POINT, RISTRETTO_BASEPOINT_POINT};
    use curve25519_dalek::edwards::{CompressedEdwardsY, EdwardsPoint};
    use curve25519_dalek::montgomery::MontgomeryPoint;
    use curve25519_dalek::ristretto::{CompressedRistretto, RistrettoPoint};
    use curve25519_dalek::scalar::Scalar;
    use curve25519_dalek::traits::Identity;
    use ed25519_dalek::hazmat::ExpandedSecretKey;
    use ed25519_dalek::{Signature, SigningKey, VerifyingKey};
    use serde::{Deserialize, Serialize};
    use x25519_dalek::{PublicKey, StaticSecret};

    /// inputs: every length 0..=MAX, every content
    const MAX: usize = 34;
    const MAXSIG: usize = 66;

    fn first32(s: &[u8]) -> [u8; 32] {
        let mut b = [0u8; 32];
        let mut i = 0;
        while i < 32 {
            b[i] = s[i];
            i += 1;
        }
        b
    }
    fn eq32(a: &[u8; 32], b: &[u8]) -> bool {
        let mut ok = b.len() == 32;
        let mut i = 0;
        while ok && i < 32 {
            ok = a[i] == b[i];
            i += 1;
        }
        ok
    }
    /// The error a 32-byte tuple visitor must give for an input of n < 32 elements
    fn short_err(compact: bool, n: usize) -> Error {
        if compact { Error::Eof } else { Error::InvalidLength(n) }
    }

    // ====================================================================================================
    // 2. plain 32-byte wrappers
    // ====================================================================================================
    macro_rules! wrapper32 {
        ($ser:ident, $de:ident, $T:ty, $mk:expr, $bytes:expr, $newtypes:expr) => {
            /// COMPLETE. serialise emits exactly the 32 stored bytes as tuple(32) of u8.
            #[kani::proof]
            #[kani::unwind(34)]
            fn $ser() {
                let b: [u8; 32] = kani::any();
                let v: $T = $mk(b);
                let mut rec = Rec::new();
                assert!(v.serialize(&mut rec).is_ok());
                assert!(rec.is_newtype_tuple($newtypes, 32));
                assert!(eq32(&b, &rec.buf[..32]));
            }
            /// COMPLETE. deserialise: Ok iff at least 32 elements are available, the value holds exactly the first 32,
            /// exactly 32 elements are consumed (a 33rd element is left to the format), short input is rejected.
            #[kani::proof]
            #[kani::unwind(34)]
            fn $de() {
                let buf: [u8; MAX] = kani::any();
                let n: usize = kani::any();
                kani::assume(n <= MAX);
                let compact: bool = kani::any();
                let mut de = De::new(&buf[..n], compact, kani::any());
                let r = <$T>::deserialize(&mut de);
                kani::cover!(r.is_ok() && n == 34);
                kani::cover!(r.is_err() && n == 31);
                assert!(de.seqs == 1 && de.slices == 0);
                match r {
                    Ok(v) => {
                        assert!(n >= 32 && de.pos == 32);
                        let got: [u8; 32] = ($bytes)(&v);
                        assert!(eq32(&got, &buf[..32]));
                    }
                    Err(e) => {
                        assert!(n < 32 && de.pos == n);
                        assert!(e == short_err(compact, n));
                    }
                }
            }
        };
    }
    wrapper32!(compressed_edwards_ser, compressed_edwards_de, CompressedEdwardsY, CompressedEdwardsY, |v: &CompressedEdwardsY| v.0, 0);
    wrapper32!(compressed_ristretto_ser, compressed_ristretto_de, CompressedRistretto, CompressedRistretto, |v: &CompressedRistretto| v.0, 0);
    wrapper32!(montgomery_ser, montgomery_de, MontgomeryPoint, MontgomeryPoint, |v: &MontgomeryPoint| v.0, 1);
    // 4. x25519: StaticSecret is stored and emitted UNCLAMPED (the bytes are any 32 bytes, compared verbatim)
    wrapper32!(x25519_static_secret_ser, x25519_static_secret_de, StaticSecret, StaticSecret::from, |v: &StaticSecret| v.to_bytes(), 1);
    wrapper32!(x25519_public_key_ser, x25519_public_key_de, PublicKey, PublicKey::from, |v: &PublicKey| v.to_bytes(), 2);

    // ====================================================================================================
    // 1. Scalar
    // ====================================================================================================
    /// BOUNDED (input length fixed to 32; all byte values; both shapes) and ONE-SIDED, but with the REAL
    /// `from_canonical_bytes` (a real reduction mod l) inside the serde path, no stub:
    /// Ok(x) => x.to_bytes() == the 32 input bytes and byte 31 <= 0x10;
    /// byte 31 > 0x10 (in particular: high bit set) => Err(custom "not canonically encoded").
    /// (All lengths 0..=34 are covered by `scalar_de`; with symbolic length this harness takes 525 s.)
    /// The two-sided statement "Ok iff Scalar::from_canonical_bytes(bytes) is Some" with the REAL decoder on both sides
    /// needs CBMC to prove two copies of the Montgomery reduction equivalent: > 25 min, dropped. It follows by
    /// composition from `scalar_de` (glue calls the decoder once on exactly these bytes and propagates its verdict)
    /// and K-TOT `scalar_from_canonical_bytes_total`.
    #[kani::proof]
    #[kani::unwind(34)]
    fn scalar_real_de() {
        let b: [u8; 32] = kani::any();
        let compact: bool = kani::any();
        let mut de = De::new(&b[..], compact, kani::any());
        let r = Scalar::deserialize(&mut de);
        assert!(de.seqs == 1 && de.slices == 0 && de.pos == 32);
        match r {
            Ok(x) => {
                assert!(x.to_bytes() == b);
                assert!(b[31] <= 0x10);
            }
            Err(e) => assert!(e == Error::Custom),
        }
        if b[31] > 0x10 {
            assert!(r.is_err());
        }
    }
    static mut SC_SEEN: [u8; 32] = [0; 32];
    static mut SC_CALLS: usize = 0;
    /// stand-in for `Scalar::from_canonical_bytes`: records the argument; "canonical" iff the top nibble is 0; the value
    /// is a cheap injective-enough function of the low 16 bytes (no reduction)
    fn stub_from_canonical(bytes: [u8; 32]) -> subtle::CtOption<Scalar> {
        unsafe {
            SC_SEEN = bytes;
            SC_CALLS += 1;
        }
        let mut lo = [0u8; 16];
        let mut i = 0;
        while i < 16 {
            lo[i] = bytes[i];
            i += 1;
        }
        subtle::CtOption::new(Scalar::from(u128::from_le_bytes(lo)), subtle::Choice::from((bytes[31] & 0xf0 == 0) as u8))
    }
    /// PARAMETRIC in `Scalar::from_canonical_bytes` (stubbed on both sides): fast version of `scalar_real_de`.
    /// The decoder is called exactly once, on exactly the first 32 received bytes; its None becomes Err(custom), its
    /// Some(x) becomes Ok(x); short input: Err without calling the decoder; exactly 32 elements consumed.
    #[kani::proof]
    #[kani::unwind(34)]
    #[kani::stub(curve25519_dalek::scalar::Scalar::from_canonical_bytes, stub_from_canonical)]
    fn scalar_de() {
        let buf: [u8; MAX] = kani::any();
        let n: usize = kani::any();
        kani::assume(n <= MAX);
        let compact: bool = kani::any();
        let mut de = De::new(&buf[..n], compact, kani::any());
        let r = Scalar::deserialize(&mut de);
        assert!(de.seqs == 1 && de.slices == 0);
        if n < 32 {
            assert!(de.pos == n && unsafe { SC_CALLS } == 0);
            match r {
                Err(e) => assert!(e == short_err(compact, n)),
                Ok(_) => assert!(false),
            }
        } else {
            let b = first32(&buf[..n]);
            assert!(de.pos == 32 && unsafe { SC_CALLS } == 1);
            assert!(unsafe { SC_SEEN } == b);
            let native: Option<Scalar> = Scalar::from_canonical_bytes(b).into();
            kani::cover!(native.is_some());
            kani::cover!(native.is_none());
            match (r, native) {
                (Ok(x), Some(y)) => assert!(x.to_bytes() == y.to_bytes()),
                (Err(e), None) => assert!(e == Error::Custom),
                _ => assert!(false),
            }
        }
    }
    /// COMPLETE over all reduced scalars (built by the real `from_bytes_mod_order` from any 32 bytes): serialise emits
    /// exactly `to_bytes()` as tuple(32) of u8.
    #[kani::proof]
    #[kani::unwind(34)]
    fn scalar_ser() {
        let b: [u8; 32] = kani::any();
        let s = Scalar::from_bytes_mod_order(b);
        let mut rec = Rec::new();
        assert!(s.serialize(&mut rec).is_ok());
        assert!(rec.is_plain_tuple(32));
        assert!(eq32(&s.to_bytes(), &rec.buf[..32]));
    }

    // ====================================================================================================
    // Signature (ed25519 crate): 64 bytes, tuple(64)
    // ====================================================================================================
    fn eq64(a: &[u8; 64], b: &[u8]) -> bool {
        let mut ok = b.len() == 64;
        let mut i = 0;
        while ok && i < 64 {
            ok = a[i] == b[i];
            i += 1;
        }
        ok
    }
    /// COMPLETE.
    #[kani::proof]
    #[kani::unwind(68)]
    fn signature_ser() {
        let b: [u8; 64] = kani::any();
        let v = Signature::from_bytes(&b);
        let mut rec = Rec::new();
        assert!(v.serialize(&mut rec).is_ok());
        assert!(rec.is_plain_tuple(64));
        assert!(eq64(&b, &rec.buf[..64]));
    }
    /// COMPLETE (lengths 0..=66). Ok iff >= 64 elements available; value = first 64; consumes exactly 64.
    #[kani::proof]
    #[kani::unwind(68)]
    fn signature_de() {
        let buf: [u8; MAXSIG] = kani::any();
        let n: usize = kani::any();
        kani::assume(n <= MAXSIG);
        let compact: bool = kani::any();
        let mut de = De::new(&buf[..n], compact, kani::any());
        let r = Signature::deserialize(&mut de);
        assert!(de.seqs == 1 && de.slices == 0);
        match r {
            Ok(v) => {
                assert!(n >= 64 && de.pos == 64);
                assert!(eq64(&v.to_bytes(), &buf[..64]));
            }
            Err(e) => {
                assert!(n < 64 && de.pos == n);
                assert!(e == short_err(compact, n));
            }
        }
    }

    // ====================================================================================================
    // 3. points and verifying key: decompression / compression are stubbed (field inversion / sqrt are out of CBMC's reach)
    // ====================================================================================================
    static mut ED_SEEN: [u8; 32] = [0; 32];
    static mut ED_CALLS: usize = 0;
    /// stand-in for CompressedEdwardsY::decompress: records the argument; None iff bytes[0] odd; else one of two constants
    fn stub_ed_decompress(c: &CompressedEdwardsY) -> Option<EdwardsPoint> {
        unsafe {
            ED_SEEN = c.0;
            ED_CALLS += 1;
        }
        if c.0[0] & 1 == 1 {
            None
        } else if c.0[1] & 1 == 1 {
            Some(ED25519_BASEPOINT_POINT)
        } else {
            Some(EdwardsPoint::identity())
        }
    }
    static mut RI_SEEN: [u8; 32] = [0; 32];
    static mut RI_CALLS: usize = 0;
    fn stub_ri_decompress(c: &CompressedRistretto) -> Option<RistrettoPoint> {
        unsafe {
            RI_SEEN = c.0;
            RI_CALLS += 1;
        }
        if c.0[0] & 1 == 1 {
            None
        } else if c.0[1] & 1 == 1 {
            Some(RISTRETTO_BASEPOINT_POINT)
        } else {
            Some(RistrettoPoint::identity())
        }
    }
    /// stand-in for {EdwardsPoint,RistrettoPoint}::compress: returns 32 bytes chosen (symbolically) by the harness
    static mut COMP_OUT: [u8; 32] = [0; 32];
    static mut COMP_CALLS: usize = 0;
    fn stub_ed_compress(_p: &EdwardsPoint) -> CompressedEdwardsY {
        unsafe {
            COMP_CALLS += 1;
            CompressedEdwardsY(COMP_OUT)
        }
    }
    fn stub_ri_compress(_p: &RistrettoPoint) -> CompressedRistretto {
        unsafe {
            COMP_CALLS += 1;
            CompressedRistretto(COMP_OUT)
        }
    }
    /// representation equality (the serde glue passes the decoder's result through untouched)
    fn raw_eq<T: Copy, const N: usize>(a: T, b: T) -> bool {
        assert!(core::mem::size_of::<T>() == 8 * N);
        let x: [u64; N] = unsafe { core::mem::transmute_copy(&a) };
        let y: [u64; N] = unsafe { core::mem::transmute_copy(&b) };
        let mut ok = true;
        let mut i = 0;
        while i < N {
            ok = ok && x[i] == y[i];
            i += 1;
        }
        ok
    }
    const EDSZ: usize = core::mem::size_of::<EdwardsPoint>() / 8; // 20 words
    const RISZ: usize = core::mem::size_of::<RistrettoPoint>() / 8;

    /// PARAMETRIC in `CompressedEdwardsY::decompress` (stubbed on both sides). deserialise is Ok iff >= 32 elements and
    /// decompress(first 32 bytes) is Some, and then returns that very point; decompress is called once, on exactly the
    /// received bytes; short input: Err without calling the decoder; consumes exactly 32 elements.
    #[kani::proof]
    #[kani::unwind(34)]
    #[kani::stub(curve25519_dalek::edwards::CompressedEdwardsY::decompress, stub_ed_decompress)]
    fn edwards_point_de() {
        let buf: [u8; MAX] = kani::any();
        let n: usize = kani::any();
        kani::assume(n <= MAX);
        let compact: bool = kani::any();
        let mut de = De::new(&buf[..n], compact, kani::any());
        let r = EdwardsPoint::deserialize(&mut de);
        assert!(de.seqs == 1 && de.slices == 0);
        if n < 32 {
            assert!(de.pos == n && unsafe { ED_CALLS } == 0);
            match r {
                Err(e) => assert!(e == short_err(compact, n)),
                Ok(_) => assert!(false),
            }
        } else {
            let b = first32(&buf[..n]);
            assert!(de.pos == 32 && unsafe { ED_CALLS } == 1);
            assert!(unsafe { ED_SEEN } == b);
            let native = CompressedEdwardsY(b).decompress();
            kani::cover!(native.is_some());
            kani::cover!(native.is_none());
            match (r, native) {
                (Ok(p), Some(q)) => assert!(raw_eq::<EdwardsPoint, EDSZ>(p, q)),
                (Err(e), None) => assert!(e == Error::Custom),
                _ => assert!(false),
            }
        }
    }
    /// PARAMETRIC in `EdwardsPoint::compress` (stubbed: returns harness-chosen symbolic bytes): serialise emits exactly
    /// compress().as_bytes() as tuple(32) of u8, calling compress once.
    #[kani::proof]
    #[kani::unwind(34)]
    #[kani::stub(curve25519_dalek::edwards::EdwardsPoint::compress, stub_ed_compress)]
    fn edwards_point_ser() {
        let out: [u8; 32] = kani::any();
        unsafe { COMP_OUT = out };
        let p = ED25519_BASEPOINT_POINT;
        let mut rec = Rec::new();
        assert!(p.serialize(&mut rec).is_ok());
        assert!(unsafe { COMP_CALLS } == 1);
        assert!(rec.is_plain_tuple(32));
        assert!(eq32(&out, &rec.buf[..32]));
    }
    /// PARAMETRIC in `CompressedRistretto::decompress` (stubbed on both sides); same statement as edwards_point_de.
    #[kani::proof]
    #[kani::unwind(34)]
    #[kani::stub(curve25519_dalek::ristretto::CompressedRistretto::decompress, stub_ri_decompress)]
    fn ristretto_point_de() {
        let buf: [u8; MAX] = kani::any();
        let n: usize = kani::any();
        kani::assume(n <= MAX);
        let compact: bool = kani::any();
        let mut de = De::new(&buf[..n], compact, kani::any());
        let r = RistrettoPoint::deserialize(&mut de);
        assert!(de.seqs == 1 && de.slices == 0);
        if n < 32 {
            assert!(de.pos == n && unsafe { RI_CALLS } == 0);
            match r {
                Err(e) => assert!(e == short_err(compact, n)),
                Ok(_) => assert!(false),
            }
        } else {
            let b = first32(&buf[..n]);
            assert!(de.pos == 32 && unsafe { RI_CALLS } == 1);
            assert!(unsafe { RI_SEEN } == b);
            let native = CompressedRistretto(b).decompress();
            kani::cover!(native.is_some());
            kani::cover!(native.is_none());
            match (r, native) {
                (Ok(p), Some(q)) => assert!(raw_eq::<RistrettoPoint, RISZ>(p, q)),
                (Err(e), None) => assert!(e == Error::Custom),
                _ => assert!(false),
            }
        }
    }
    /// PARAMETRIC in `RistrettoPoint::compress` (stubbed).
    #[kani::proof]
    #[kani::unwind(34)]
    #[kani::stub(curve25519_dalek::ristretto::RistrettoPoint::compress, stub_ri_compress)]
    fn ristretto_point_ser() {
        let out: [u8; 32] = kani::any();
        unsafe { COMP_OUT = out };
        let p = RISTRETTO_BASEPOINT_POINT;
        let mut rec = Rec::new();
        assert!(p.serialize(&mut rec).is_ok());
        assert!(unsafe { COMP_CALLS } == 1);
        assert!(rec.is_plain_tuple(32));
        assert!(eq32(&out, &rec.buf[..32]));
    }

    /// PARAMETRIC in `CompressedEdwardsY::decompress` (stubbed on both sides).
    /// VerifyingKey::deserialize is Ok iff the input has EXACTLY 32 elements and `VerifyingKey::from_bytes` accepts them,
    /// and then equals it (bytes and point). Both entry points: visit_bytes (compact) and visit_seq (self-describing).
    /// Over-long input is rejected by the visitor itself (it drains the sequence): InvalidLength(n) / try_from error.
    #[kani::proof]
    #[kani::unwind(36)]
    #[kani::stub(curve25519_dalek::edwards::CompressedEdwardsY::decompress, stub_ed_decompress)]
    fn verifying_key_de() {
        let buf: [u8; MAX] = kani::any();
        let n: usize = kani::any();
        kani::assume(n <= MAX);
        let compact: bool = kani::any();
        let mut de = De::new(&buf[..n], compact, kani::any());
        let r = VerifyingKey::deserialize(&mut de);
        assert!(de.seqs + de.slices == 1 && (de.slices == 1) == compact);
        assert!(de.pos == n);
        if n != 32 {
            assert!(unsafe { ED_CALLS } == 0);
            match r {
                Err(e) => assert!(e == if compact { Error::Custom } else { Error::InvalidLength(n) }),
                Ok(_) => assert!(false),
            }
        } else {
            let b = first32(&buf[..n]);
            assert!(unsafe { ED_CALLS } == 1);
            assert!(unsafe { ED_SEEN } == b);
            let native = VerifyingKey::from_bytes(&b);
            kani::cover!(native.is_ok() && compact);
            kani::cover!(native.is_ok() && !compact);
            kani::cover!(native.is_err());
            match (r, native) {
                (Ok(p), Ok(q)) => {
                    assert!(p.to_bytes() == b && q.to_bytes() == b);
                    assert!(raw_eq::<EdwardsPoint, EDSZ>(p.to_edwards(), q.to_edwards()));
                }
                (Err(e), Err(_)) => assert!(e == Error::Custom),
                _ => assert!(false),
            }
        }
    }
    /// PARAMETRIC in decompress (only used to build a VerifyingKey for every accepted 32-byte string):
    /// serialise emits exactly to_bytes() through one serialize_bytes call.
    #[kani::proof]
    #[kani::unwind(36)]
    #[kani::stub(curve25519_dalek::edwards::CompressedEdwardsY::decompress, stub_ed_decompress)]
    #[kani::stub(curve25519_dalek::edwards::EdwardsPoint::compress, stub_ed_compress)]
    fn verifying_key_ser() {
        // a serialiser that re-encodes the point instead of emitting the stored bytes gets an arbitrary encoding from the stub
        let out: [u8; 32] = kani::any();
        unsafe { COMP_OUT = out };
        let b: [u8; 32] = kani::any();
        let vk = match VerifyingKey::from_bytes(&b) {
            Ok(vk) => vk,
            Err(_) => return,
        };
        let mut rec = Rec::new();
        assert!(vk.serialize(&mut rec).is_ok());
        assert!(rec.is_bytes(32));
        assert!(eq32(&b, &rec.buf[..32]));
        assert!(unsafe { COMP_CALLS } == 0);
    }

    // ====================================================================================================
    // 5. SigningKey: from_bytes = SHA-512 + clamp + basepoint multiplication + compression: all three stubbed
    // ====================================================================================================
    static mut SK_SEEN: [u8; 32] = [0; 32];
    static mut SK_CALLS: usize = 0;
    /// stand-in for `<ExpandedSecretKey as From<&SecretKey>>::from` (SHA-512 + clamp + reduction): records the seed
    fn stub_expand<'a>(secret_key: &'a [u8; 32]) -> ExpandedSecretKey
    where
        'a: 'a, // early-bound, to match the impl's lifetime parameter (Kani compares generic parameter counts)
    {
        unsafe {
            SK_SEEN = *secret_key;
            SK_CALLS += 1;
        }
        ExpandedSecretKey { scalar: Scalar::ZERO, hash_prefix: *secret_key }
    }
    fn stub_mul_base(_s: &Scalar) -> EdwardsPoint {
        ED25519_BASEPOINT_POINT
    }
    /// PARAMETRIC in the key expansion (`ExpandedSecretKey::from(&SecretKey)`, `EdwardsPoint::mul_base`,
    /// `EdwardsPoint::compress` stubbed on both sides). deserialise is Ok iff the input has EXACTLY 32 elements; the key
    /// stores exactly those bytes, the key expansion is run once on exactly those bytes, and the result agrees with
    /// `SigningKey::from_bytes` (secret and derived public key).
    #[kani::proof]
    #[kani::unwind(36)]
    #[kani::stub(<ed25519_dalek::hazmat::ExpandedSecretKey as core::convert::From<&[u8; 32]>>::from, stub_expand)]
    #[kani::stub(curve25519_dalek::edwards::EdwardsPoint::mul_base, stub_mul_base)]
    #[kani::stub(curve25519_dalek::edwards::EdwardsPoint::compress, stub_ed_compress)]
    fn signing_key_de() {
        let out: [u8; 32] = kani::any();
        unsafe { COMP_OUT = out };
        let buf: [u8; MAX] = kani::any();
        let n: usize = kani::any();
        kani::assume(n <= MAX);
        let compact: bool = kani::any();
        let mut de = De::new(&buf[..n], compact, kani::any());
        let r = SigningKey::deserialize(&mut de);
        assert!(de.seqs + de.slices == 1 && (de.slices == 1) == compact);
        assert!(de.pos == n);
        if n != 32 {
            assert!(unsafe { SK_CALLS } == 0);
            match r {
                Err(e) => assert!(e == if compact { Error::Custom } else { Error::InvalidLength(n) }),
                Ok(_) => assert!(false),
            }
        } else {
            let b = first32(&buf[..n]);
            assert!(unsafe { SK_CALLS } == 1);
            assert!(unsafe { SK_SEEN } == b);
            let native = SigningKey::from_bytes(&b);
            match r {
                Ok(k) => {
                    assert!(k.to_bytes() == b && native.to_bytes() == b);
                    assert!(k.verifying_key().to_bytes() == native.verifying_key().to_bytes());
                    assert!(k.verifying_key().to_bytes() == out);
                }
                Err(_) => assert!(false),
            }
        }
    }
    /// PARAMETRIC in the key expansion (stubbed, only used to build the key): serialise emits exactly the 32 secret bytes
    /// through one serialize_bytes call.
    #[kani::proof]
    #[kani::unwind(36)]
    #[kani::stub(<ed25519_dalek::hazmat::ExpandedSecretKey as core::convert::From<&[u8; 32]>>::from, stub_expand)]
    #[kani::stub(curve25519_dalek::edwards::EdwardsPoint::mul_base, stub_mul_base)]
    #[kani::stub(curve25519_dalek::edwards::EdwardsPoint::compress, stub_ed_compress)]
    fn signing_key_ser() {
        let b: [u8; 32] = kani::any();
        let k = SigningKey::from_bytes(&b);
        let mut rec = Rec::new();
        assert!(k.serialize(&mut rec).is_ok());
        assert!(rec.is_bytes(32));
        assert!(eq32(&b, &rec.buf[..32]));
    }
}
