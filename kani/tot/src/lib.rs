//! K-TOT / K-BITS (public API, real crates): totality of slice/array decoders for EVERY length <= 80 and every content,
//! and exactness of the integer -> Scalar conversions. Loop-free or fixed-trip-count: complete proofs.
#![allow(unused)]
#[cfg(kani)]
mod proofs {
    use curve25519_dalek::edwards::CompressedEdwardsY;
    use curve25519_dalek::ristretto::CompressedRistretto;
    use curve25519_dalek::scalar::{clamp_integer, Scalar};
    use ed25519_dalek::hazmat::ExpandedSecretKey;
    use ed25519_dalek::{Signature, SigningKey, VerifyingKey};

    const MAXLEN: usize = 80;
    fn any_slice(buf: &[u8; MAXLEN]) -> &[u8] { let n: usize = kani::any(); kani::assume(n <= MAXLEN); &buf[..n] }

    #[kani::proof]
    #[kani::unwind(34)]
    fn compressed_edwards_from_slice() {
        let buf: [u8; MAXLEN] = kani::any();
        let s = any_slice(&buf);
        match CompressedEdwardsY::from_slice(s) {
            Ok(c) => { assert!(s.len() == 32); let i: usize = kani::any(); kani::assume(i < 32); assert!(c.0[i] == s[i]); }
            Err(_) => assert!(s.len() != 32),
        }
    }
    #[kani::proof]
    #[kani::unwind(34)]
    fn compressed_ristretto_from_slice() {
        let buf: [u8; MAXLEN] = kani::any();
        let s = any_slice(&buf);
        match CompressedRistretto::from_slice(s) {
            Ok(c) => { assert!(s.len() == 32); let i: usize = kani::any(); kani::assume(i < 32); assert!(c.0[i] == s[i]); }
            Err(_) => assert!(s.len() != 32),
        }
    }
    #[kani::proof]
    #[kani::unwind(66)]
    fn signature_from_slice() {
        let buf: [u8; MAXLEN] = kani::any();
        let s = any_slice(&buf);
        match Signature::from_slice(s) {
            Ok(sig) => { assert!(s.len() == 64); let b = sig.to_bytes(); let i: usize = kani::any(); kani::assume(i < 64); assert!(b[i] == s[i]); }
            Err(_) => assert!(s.len() != 64),
        }
    }
    #[kani::proof]
    fn expanded_secret_key_from_slice_wrong_len() {
        let buf: [u8; MAXLEN] = kani::any();
        let s = any_slice(&buf);
        kani::assume(s.len() != 64);
        assert!(ExpandedSecretKey::from_slice(s).is_err());
    }

    #[kani::proof]
    #[kani::unwind(34)]
    fn scalar_from_canonical_bytes_total() {
        let b: [u8; 32] = kani::any();
        let r = Scalar::from_canonical_bytes(b);
        if bool::from(r.is_some()) { assert!(b[31] <= 0x10); assert!(r.unwrap().to_bytes() == b); }
    }
    #[kani::proof]
    #[kani::unwind(34)]
    fn scalar_from_bytes_mod_order_total() {
        let b: [u8; 32] = kani::any();
        let r = Scalar::from_bytes_mod_order(b);
        assert!(r.to_bytes()[31] <= 0x10);
    }
    #[kani::proof]
    #[kani::unwind(34)]
    fn clamp_integer_rfc7748() {
        let b: [u8; 32] = kani::any();
        let r = clamp_integer(b);
        assert!(r[0] == b[0] & 248 && r[31] == (b[31] & 127) | 64);
        let i: usize = kani::any(); kani::assume(0 < i && i < 31); assert!(r[i] == b[i]);
    }
    // integer conversions (C02): the scalar of that integer
    #[kani::proof]
    #[kani::unwind(34)]
    fn scalar_from_u8() { let x: u8 = kani::any(); let s = Scalar::from(x).to_bytes(); assert!(s[0] == x); let i: usize = kani::any(); kani::assume(0 < i && i < 32); assert!(s[i] == 0); }
    #[kani::proof]
    #[kani::unwind(34)]
    fn scalar_from_u16() { let x: u16 = kani::any(); let s = Scalar::from(x).to_bytes(); let e = x.to_le_bytes(); assert!(s[0] == e[0] && s[1] == e[1]); let i: usize = kani::any(); kani::assume(2 <= i && i < 32); assert!(s[i] == 0); }
    #[kani::proof]
    #[kani::unwind(34)]
    fn scalar_from_u32() { let x: u32 = kani::any(); let s = Scalar::from(x).to_bytes(); let e = x.to_le_bytes(); let j: usize = kani::any(); kani::assume(j < 4); assert!(s[j] == e[j]); let i: usize = kani::any(); kani::assume(4 <= i && i < 32); assert!(s[i] == 0); }
    #[kani::proof]
    #[kani::unwind(34)]
    fn scalar_from_u64() { let x: u64 = kani::any(); let s = Scalar::from(x).to_bytes(); let e = x.to_le_bytes(); let j: usize = kani::any(); kani::assume(j < 8); assert!(s[j] == e[j]); let i: usize = kani::any(); kani::assume(8 <= i && i < 32); assert!(s[i] == 0); }
    #[kani::proof]
    #[kani::unwind(34)]
    fn scalar_from_u128() { let x: u128 = kani::any(); let s = Scalar::from(x).to_bytes(); let e = x.to_le_bytes(); let j: usize = kani::any(); kani::assume(j < 16); assert!(s[j] == e[j]); let i: usize = kani::any(); kani::assume(16 <= i && i < 32); assert!(s[i] == 0); }
}
