// @src curve25519-dalek/src/backend/serial/u32/constants.rs:87
/// `L` is the order of base point, i.e. 2^252 +
/// 27742317777372353535851937790883648493
pub const L: Scalar29 = Scalar29([
    0x1cf5d3ed, 0x009318d2, 0x1de73596, 0x1df3bd45, 0x0000014d, 0x00000000, 0x00000000, 0x00000000,
    0x00100000,
]);
// @src curve25519-dalek/src/backend/serial/u32/constants.rs:94
/// `L` * `LFACTOR` = -1 (mod 2^29)
pub const LFACTOR: u32 = 0x12547e1b;
// @src curve25519-dalek/src/backend/serial/u32/constants.rs:97
/// `R` = R % L where R = 2^261
pub const R: Scalar29 = Scalar29([
    0x114df9ed, 0x1a617303, 0x0f7c098c, 0x16793167, 0x1ffd656e, 0x1fffffff, 0x1fffffff, 0x1fffffff,
    0x000fffff,
]);
// @src curve25519-dalek/src/backend/serial/u32/constants.rs:103
/// `RR` = (R^2) % L where R = 2^261
pub const RR: Scalar29 = Scalar29([
    0x0b5f9d12, 0x1e141b17, 0x158d7f3d, 0x143f3757, 0x1972d781, 0x042feb7c, 0x1ceec73d, 0x1e184d1e,
    0x0005046d,
]);
