//! K-OVF / K-BITS for the serial u32 backend — the REAL files mounted unmodified; this code is never compiled by the
//! repository's own test run on a 64-bit host. Complete harnesses over ALL limb vectors within the interface weights
//! (weight w: even limbs < w*2^26, odd limbs < w*2^25).
#![allow(dead_code, unused_imports, non_snake_case)]
#[path = "/repo/curve25519-dalek/src/backend/serial/u32/field.rs"]
pub mod field;
#[path = "/repo/curve25519-dalek/src/backend/serial/u32/scalar.rs"]
pub mod scalar;
pub mod constants {
    use crate::scalar::Scalar29;
    include!("constants_gen.rs");
}

#[cfg(kani)]
mod proofs {
    use crate::field::FieldElement2625 as F;
    use crate::scalar::Scalar29 as S;

    fn wt_ok(l: &[u32; 10], w: u32, extra: u32) -> bool {
        let e = w * (1 << 26) + extra; let o = w * (1 << 25) + extra;
        l[0] < e && l[1] < o && l[2] < e && l[3] < o && l[4] < e && l[5] < o && l[6] < e && l[7] < o && l[8] < e && l[9] < o
    }
    fn any_fe(w: u32) -> F { let l: [u32; 10] = kani::any(); kani::assume(wt_ok(&l, w, 0)); F(l) }
    /// reduced outputs: nominal width plus a small carry-in
    fn reduced(f: &F) -> bool { wt_ok(&f.0, 1, 1 << 19) }
    fn any_sc() -> S {
        let l: [u32; 9] = kani::any();
        kani::assume(l[0] < (1 << 29) && l[1] < (1 << 29) && l[2] < (1 << 29) && l[3] < (1 << 29) && l[4] < (1 << 29) && l[5] < (1 << 29) && l[6] < (1 << 29) && l[7] < (1 << 29) && l[8] < (1 << 29));
        S(l)
    }
    fn sc_ok(s: &S) -> bool { let l = &s.0; l[0] < (1 << 29) && l[1] < (1 << 29) && l[2] < (1 << 29) && l[3] < (1 << 29) && l[4] < (1 << 29) && l[5] < (1 << 29) && l[6] < (1 << 29) && l[7] < (1 << 29) && l[8] < (1 << 29) }

    #[kani::proof]
    fn f_mul_bounds() { let a = any_fe(3); let b = any_fe(3); let r = &a * &b; assert!(reduced(&r)); }
    #[kani::proof]
    fn f_square_bounds() { let a = any_fe(3); let r = a.square(); assert!(reduced(&r)); }
    #[kani::proof]
    #[kani::unwind(11)]
    fn f_square2_bounds() { let a = any_fe(3); let r = a.square2(); assert!(wt_ok(&r.0, 2, 1 << 20)); }
    #[kani::proof]
    #[kani::unwind(3)]
    fn f_pow2k_bounds() { let a = any_fe(3); let k: u32 = kani::any(); kani::assume(k == 1 || k == 2); let r = a.pow2k(k); assert!(reduced(&r)); }
    #[kani::proof]
    fn f_sub_bounds() { let a = any_fe(15); let b = any_fe(7); let r = &a - &b; assert!(reduced(&r)); }
    #[kani::proof]
    fn f_neg_bounds() { let a = any_fe(7); let r = -&a; assert!(reduced(&r)); }
    #[kani::proof]
    #[kani::unwind(11)]
    fn f_add_bounds() { let a = any_fe(7); let b = any_fe(8); let r = &a + &b; assert!(r.0[0] == a.0[0] + b.0[0] && r.0[9] == a.0[9] + b.0[9]); }
    #[kani::proof]
    fn f_as_bytes_total() { let a = any_fe(15); let r = a.as_bytes(); assert!(r[31] < 128); }
    #[kani::proof]
    fn f_from_bytes_bounds() { let b: [u8; 32] = kani::any(); let r = F::from_bytes(&b); assert!(reduced(&r)); }

    #[kani::proof]
    #[kani::unwind(10)]
    fn s_add_bounds() { let a = any_sc(); let b = any_sc(); let r = S::add(&a, &b); assert!(sc_ok(&r)); }
    #[kani::proof]
    #[kani::unwind(10)]
    fn s_sub_bounds() { let a = any_sc(); let b = any_sc(); let r = S::sub(&a, &b); assert!(sc_ok(&r)); }
    #[kani::proof]
    #[kani::unwind(10)]
    fn s_mul_bounds() { let a = any_sc(); let b = any_sc(); let r = S::mul(&a, &b); assert!(sc_ok(&r)); }
    #[kani::proof]
    #[kani::unwind(10)]
    fn s_square_bounds() { let a = any_sc(); let r = a.square(); assert!(sc_ok(&r)); }
    #[kani::proof]
    #[kani::unwind(10)]
    fn s_from_bytes_bounds() { let b: [u8; 32] = kani::any(); let r = S::from_bytes(&b); assert!(sc_ok(&r)); }
    #[kani::proof]
    #[kani::unwind(17)]
    fn s_from_bytes_wide_bounds() { let b: [u8; 64] = kani::any(); let r = S::from_bytes_wide(&b); assert!(sc_ok(&r)); }
    #[kani::proof]
    fn s_as_bytes_total() { let a = any_sc(); let _ = a.as_bytes(); }
}
