//! In-crate Kani harnesses for curve25519-dalek (mounted by the cfg(kani) hook at the end of src/lib.rs).
//! Run by /verif/vlib/kani_unit.py from the crate directory; never compiled in ordinary builds.
#![allow(dead_code, unused_imports, clippy::all)]

use crate::scalar::Scalar;

// ------------------------------------------------------------------------------------------------
// C14 (bounded stand-in): heap scratch of Scalar::batch_invert is wiped before it is returned to the allocator.
// `dealloc` and `realloc` are replaced by versions that ASSERT the released block is all-zero (a block released by
// a moving realloc counts). The scalar arithmetic is replaced by cheap stand-ins: the allocation / wiping pattern of
// batch_invert does not depend on the arithmetic values (assumption: parametricity), which keeps CBMC's formula small.
// Bounded: batch sizes n <= 5 (covers the Vec growth steps 0 -> 4 -> 8 of a push-based rewrite).
#[cfg(all(feature = "alloc", feature = "zeroize", curve25519_dalek_bits = "64"))]
mod heap {
    use super::*;
    use crate::backend::serial::u64::scalar::Scalar52;
    use core::alloc::Layout;

    // "every byte of the released block is zero" is checked loop-free: one nondeterministically chosen byte
    pub unsafe fn checked_dealloc(ptr: *mut u8, layout: Layout) {
        let i: usize = kani::any();
        if i < layout.size() {
            assert!(*ptr.add(i) == 0, "heap block returned to the allocator with non-zero (secret-derived) content");
        }
    }
    pub unsafe fn checked_realloc(ptr: *mut u8, layout: Layout, new_size: usize) -> *mut u8 {
        // a realloc may move the block: the old block is released as-is
        let i: usize = kani::any();
        if i < layout.size() {
            assert!(*ptr.add(i) == 0, "heap block released by realloc with non-zero (secret-derived) content");
        }
        let new_layout = Layout::from_size_align_unchecked(new_size, layout.align());
        let np = alloc::alloc::alloc(new_layout);
        core::ptr::copy_nonoverlapping(ptr, np, if layout.size() < new_size { layout.size() } else { new_size });
        np
    }
    fn mm(a: &Scalar52, b: &Scalar52) -> Scalar52 { Scalar52([a.0[0] ^ b.0[0] | 1, a.0[1], b.0[2], a.0[3] ^ 7, b.0[4]]) }
    fn minv(a: &Scalar52) -> Scalar52 { Scalar52([a.0[1] | 1, a.0[0], a.0[2], a.0[3], a.0[4]]) }
    fn fm(a: &Scalar52) -> Scalar52 { Scalar52([a.0[0] | 1, a.0[1], a.0[2], a.0[3], a.0[4]]) }
    fn am(a: &Scalar52) -> Scalar52 { Scalar52([a.0[0] | 2, a.0[1], a.0[2], a.0[3], a.0[4]]) }
    fn unpack_stub(s: &Scalar) -> Scalar52 { Scalar52([s.bytes[0] as u64 | 4, s.bytes[1] as u64, 0, 0, 0]) }
    fn pack_stub(s: &Scalar52) -> Scalar { let mut r = Scalar::ONE; r.bytes[0] = s.0[0] as u8 | 1; r.bytes[1] = s.0[1] as u8; r }

    #[kani::proof]
    #[kani::stub(alloc::alloc::dealloc, checked_dealloc)]
    #[kani::stub(alloc::alloc::realloc, checked_realloc)]
    #[kani::stub(Scalar52::montgomery_mul, mm)]
    #[kani::stub(Scalar52::montgomery_invert, minv)]
    #[kani::stub(Scalar52::from_montgomery, fm)]
    #[kani::stub(Scalar52::as_montgomery, am)]
    #[kani::stub(Scalar::unpack, unpack_stub)]
    #[kani::stub(Scalar52::pack, pack_stub)]
    #[kani::unwind(34)]
    fn batch_invert_scratch_wiped() {
        let mut arr: [Scalar; 5] = [Scalar::ONE; 5];
        let n: usize = kani::any();
        kani::assume(n == 5);
        let b: [u8; 5] = kani::any();
        let mut i = 0;
        while i < 5 { arr[i].bytes[0] = b[i]; i += 1; }
        let _ = Scalar::batch_invert(&mut arr[..n]);
    }
}

// ------------------------------------------------------------------------------------------------
// C07 / C04 residual of unit MONT: `&MontgomeryPoint * &Scalar` feeds `scalar.bits_le().rev().skip(1)` to the verified
// ladder driver. Verus cannot establish the iterator laws of `Rev`/`Skip`/`Map`; this COMPLETE harness (all 2^256 byte
// strings, fixed 255-iteration loop with unwinding assertions) proves the adapter chain yields exactly bits 254..0.
mod bits {
    use super::*;
    #[kani::proof]
    #[kani::unwind(258)]
    fn bits_le_rev_skip1_yields_bits_254_down_to_0() {
        let b: [u8; 32] = kani::any();
        let s = Scalar { bytes: b };
        let mut it = s.bits_le().rev().skip(1);
        let mut i: isize = 254;
        while i >= 0 {
            let want = ((b[(i / 8) as usize] >> (i % 8)) & 1) == 1;
            assert!(it.next() == Some(want));
            i -= 1;
        }
        assert!(it.next().is_none());
    }
    #[kani::proof]
    #[kani::unwind(258)]
    fn bits_le_yields_256_bits_little_endian() {
        let b: [u8; 32] = kani::any();
        let s = Scalar { bytes: b };
        let mut it = s.bits_le();
        let mut i: usize = 0;
        while i < 256 {
            let want = ((b[i / 8] >> (i % 8)) & 1) == 1;
            assert!(it.next() == Some(want));
            i += 1;
        }
        assert!(it.next().is_none());
    }
}
