//! contract-template parser (see DESIGN.md §2.2)
use crate::die;
use std::collections::HashMap;

#[derive(Clone, Debug, PartialEq)]
pub enum AnchorKind {
    Before,
    After,
    AtEnd,
    AtStart,
}

#[derive(Clone, Debug)]
pub struct Anchor {
    pub kind: AnchorKind,
    pub pat: String,
    pub nth: usize,
    pub lines: Vec<String>,
}

#[derive(Clone, Debug, Default)]
pub struct LoopDir {
    pub iter_name: Option<String>,
    /// R14 (opt-in, `//@ loop N index-mut`): `for x in &mut a { .. }` -> `for vx_i in 0..a.len() { let x = &mut a[vx_i]; .. }`
    pub index_mut: bool,
    /// R18 (opt-in, `//@ loop N filter-range`): `for i in (a..b).filter(|x| P) { B }` -> `for i in (a..b) { let vx_keep: bool = { let x = &i; P }; if vx_keep { B } }`
    pub filter_range: bool,
    pub lines: Vec<String>,
}

#[derive(Clone, Debug, Default)]
pub struct FnDirective {
    pub name: String,
    pub nth: usize,
    pub ret: Option<String>,
    pub spec: Vec<String>,
    pub loops: HashMap<usize, LoopDir>,
    pub anchors: Vec<Anchor>,
    pub inner: HashMap<String, FnDirective>,
    pub closures: HashMap<usize, FnDirective>,
    pub external_body: bool,
    pub props: Option<String>,
    pub rename: Option<String>,
    pub refvars: Vec<String>,
    pub self_is_ref: bool,
    pub allow_macros: Vec<String>,
    /// R16 (opt-in, `//@ try-into-as <fn>`): `e.try_into()` -> `<fn>(e)`, where <fn> is a shim of the template whose (external) body is
    /// `s.try_into()` itself and whose contract is the assumed specification of that core conversion
    pub tryinto_as: Option<String>,
    /// R16 for path calls (opt-in, `//@ call-as <callee path> <fn>`): `<callee path>(args)` -> `<fn>(args)`; same justification
    pub call_as: Vec<(String, String)>,
    /// R28 (opt-in, `//@ method-as <method> <fn>`): every method call `RECV.<method>(ARGS)` (no turbofish) of the fn body is rewritten to the path
    /// call `<fn>(RECV, ARGS)`. <fn> is a shim of the template whose external body is `recv.<method>(args)` itself (executed code unchanged) and
    /// whose contract is the ASSUMED specification of a std method this Verus has no specification for and cannot be given one
    /// (`Iterator::chain` / `Iterator::cloned`: a second `external_trait_specification` on `Iterator` is a definition cycle, `assume_specification`
    /// is refused for trait methods). Unlike R19 the STRUCTURE of the expression stays under proof: RECV and ARGS are visited as usual.
    pub method_as: Vec<(String, String)>,
    /// R29 (opt-in, `//@ unroll-array-all-any`): `[E1, .., Ek].iter().all(|PAT| P)` (k <= 8, PAT = `&x` or `x`) is rewritten to the conjunction it
    /// denotes by the definition of `Iterator::all` in core (evaluate the predicate on the elements in order, stop at the first `false`):
    ///     `{ let vx_e1 = E1; ..; let vx_ek = Ek; ({ let x = vx_e1; P }) && .. && ({ let x = vx_ek; P }) }`      (`let x = &vx_ei;` for PAT = `x`)
    /// and `.any(..)` to the corresponding `||` chain. Verus accepts `Iterator::all` / `any` but vstd gives their result no specification, and a
    /// reference pattern in a closure parameter is rejected ("only variables are supported here"). Logged; inert when no such expression occurs.
    pub unroll_all_any: bool,
    /// R8 (opt-in, `//@ allow-unsafe`): `unsafe { B }` -> `{ B }`, and `use core::arch::..::X;` items directly inside such a block are
    /// deleted so that the intrinsic name `X` resolves to the template's shim model of it (the unit's stated modelling assumption)
    pub allow_unsafe: bool,
    /// R19 (opt-in, `//@ let-as <var> <replacement expression>` followed by `//@|` lines quoting the EXPECTED initialiser): the initialiser of the
    /// statement `let [mut] <var> [: T] = <init>;` is replaced by <replacement expression> (a call of a helper fn declared in the template whose
    /// external body is <init> itself and whose contract is the ASSUMED specification of that iterator chain). vx refuses (exit 2, "undecided")
    /// when the whitespace-stripped source text of <init> differs from the quoted text, so the assumption is tied to the exact source text.
    pub let_as: Vec<LetAs>,
    pub map_fold: Option<MapFold>,
    /// `//@ expect-body` + `//@|` lines (only with `//@ external_body`): the ASSUMED contract is tied to the quoted body text; vx refuses
    /// (exit 2, "undecided") when the whitespace-stripped source text of the function body differs from it
    pub expect_body: Vec<String>,
    /// R23 (opt-in, `//@ hoist-items`): item statements (`struct` / `enum` / `impl`) declared INSIDE the fn body are deleted from the body; the
    /// template extracts them at module level instead (`//@item <file> :: impl T :: fn f :: struct S`, `//@impl .. ` + `//@in-fn impl T :: fn f`).
    /// Verus: "internal item statements" are unsupported. Item declarations are not executed, and their scope only shrinks by nesting, so
    /// hoisting changes no meaning (name clashes would be compile errors of the generated file).
    pub hoist_items: bool,
    /// R24 (opt-in, `//@ map-collect-loop <k> ..`): see MapCollect
    pub map_collect: Vec<MapCollect>,
    /// R25 (opt-in, `//@ fold-loop ..`): see FoldLoop
    pub fold_loop: Option<FoldLoop>,
    /// R26 (opt-in, `//@ eta-ctor <Name> ..`): a tuple-struct constructor passed as a function value to `.map(..)` (`x.map(Name)`) is eta-expanded to
    /// `x.map(|vx_c| Name(vx_c))` (the same function; Verus: "using a datatype constructor as a function value" is unsupported)
    pub eta_ctor: Vec<String>,
    /// R27 (opt-in, `//@ full-range-mut-as-slice`): `&mut v[..]` -> `v.as_mut_slice()`. `impl IndexMut<RangeFull> for Vec<T>` forwards to the slice
    /// impl, which returns the whole slice: the same `&mut [T]` as `Vec::as_mut_slice` (vstd specifies the latter, not the former).
    pub full_range_mut: bool,
    /// R28 (opt-in, `//@ expr-as <replacement expression>` followed by `//@|` lines quoting the EXPECTED expression): R19 for an expression that is not
    /// the initialiser of a `let` (e.g. a call argument): the unique expression of the body whose whitespace-stripped source text equals the quoted
    /// text is replaced by <replacement expression> (a call of a template helper whose external body is that text and whose contract is the ASSUMED
    /// specification of the iterator chain). vx refuses (exit 2) when no expression, or more than one, has that text.
    pub expr_as: Vec<LetAs>,
}

/// R24 (opt-in, `//@ map-collect-loop <k> [iter=<name>] [src=<name>] [ty=<T>]`): the k-th expression (visiting order) of the form
///     `RECV.map(|PAT| BODY).collect()`   or   `RECV.map(PATH).collect()`
/// is rewritten to the loop it denotes by the definitions of `Map::next` (= inner.next().map(f)) and `FromIterator for Vec` (push every item, in order):
///     `{ let mut vx_out: T = Vec::new(); [let SRC = RECV;] for PAT in [it: ]RECV { let vx_item = BODY; vx_out.push(vx_item); } vx_out }`
/// (`PATH` is applied as `PATH(vx_x)`; a type ascription on the closure parameter is dropped: a `for` pattern cannot carry one). BODY is the source
/// text and is visited as usual (rewrites, anchors). A modelling assumption on `core` / `alloc`, logged, like R21.
/// The `//@|` lines that follow are split at lines consisting of `---` into: ghost lines before the loop / loop spec / proof after `let vx_item = BODY;` /
/// proof at the end of the loop body / proof after the loop (before the block's value `vx_out`).
#[derive(Clone, Debug, Default)]
pub struct MapCollect {
    pub nth: usize,
    pub iter_name: Option<String>,
    pub src: Option<String>,
    pub ty: Option<String>,
    pub lines: Vec<String>,
}

/// R25 (opt-in, `//@ fold-loop [iter=<name>] [src=<name>]`): the (single) expression `RECV.fold(INIT, |a, x| E)` is rewritten to the loop that is the
/// definition of `Iterator::fold` in core: `{ let mut vx_acc = INIT; [let SRC = RECV;] for x in [it: ]RECV { let a = vx_acc; vx_acc = E; } vx_acc }`.
/// E is the source text (visited as usual). Raw lines split at `---`: ghost lines before the loop / loop spec / proof before `vx_acc = E;` / proof after it.
#[derive(Clone, Debug, Default)]
pub struct FoldLoop {
    pub iter_name: Option<String>,
    pub src: Option<String>,
    pub lines: Vec<String>,
}

#[derive(Clone, Debug, Default)]
pub struct LetAs {
    pub var: String,
    /// `<var>#k`: the k-th `let` statement binding <var> (visiting order); default 1
    pub nth: usize,
    /// replacement expression; the single word `drop` deletes the whole statement (its effect is then part of a later helper's contract)
    pub call: String,
    pub expect: Vec<String>,
}

/// R21 (opt-in, `//@ map-fold-loop <V> [iter=<name>]`): the statement triple
///     `let mut V = RECV.map(|x| BODY);  let H = V.next().expect(MSG);  .. V.fold(H, |t, p| E) ..`
/// is rewritten to the loop it denotes by the definitions of `Map::next`, `Iterator::fold` and `Option::expect` in `core`:
///     `let mut vx_acc: Option<_> = None; for x in RECV { let vx_item = BODY; vx_acc = Some(match vx_acc { None => vx_item, Some(t) => { let p = vx_item; E } }); }
///      .. vx_acc.expect(MSG) ..`
/// (the first item becomes H, every later item is folded in; BODY runs once per item, in iteration order, exactly as the lazy `map` does).
/// The `//@|` lines that follow are split at lines consisting of `---` into: loop spec / proof after `let vx_item = BODY;` / proof at the end of the loop body.
#[derive(Clone, Debug, Default)]
pub struct MapFold {
    pub var: String,
    pub iter_name: Option<String>,
    /// `ty=<T>`: item type, written into `let mut vx_acc: Option<T>` (rustc cannot always infer it after Verus' erasure)
    pub ty: Option<String>,
    pub lines: Vec<String>,
}

#[derive(Clone, Debug)]
pub struct ItemDir {
    pub file: String,
    pub path: Vec<String>,
    pub nth: usize,
    pub keep_derive: Vec<String>,
    /// `//@item <file> :: struct X make-pub`: R10 extended to a struct with inherited (private) visibility
    pub make_pub: bool,
    /// `//@item <file> :: fn f cfg+(feature="x" ...)`: cfg entries ADDED to the unit's set for this item only (lets one unit
    /// extract both cfg variants of a function; combine with `//@ rename`)
    pub extra_cfg: Vec<String>,
    pub fnd: Option<FnDirective>,
    /// `//@item <file> :: static X` followed by `//@|  ensures ...` lines: R12 applied to a static (`exec static X: T ensures .. { e }`)
    pub spec: Vec<String>,
    /// `//@item <file> :: static X fold-args=<ty>`: R5 applied to the literal-only arguments of the initialiser call
    /// (`f(67108845 << 1, ..)` -> `f(134217690, ..)`, each with a `by(compute)` side obligation typed <ty>)
    pub fold_args: Option<String>,
}

#[derive(Clone, Debug)]
pub struct ImplDir {
    pub file: String,
    pub selector: String,
    pub header: Option<String>,
    pub keep_types: bool,
    /// R23 (`//@in-fn impl T :: fn f`): the impl block is an item statement inside the body of that fn
    pub in_fn: Option<String>,
    pub fns: Vec<FnDirective>,
    pub consts: Vec<(String, Vec<String>)>,
}

#[derive(Clone, Debug)]
pub struct DataDir {
    pub file: String,
    pub path: Vec<String>,
    pub prefix: String,
    pub chunk: usize,
    pub shape: Option<String>,
}

#[derive(Clone, Debug)]
pub struct ExpandDir {
    pub file: String,
    pub mac: String,
    pub key: String,
    pub alias: String,
}

pub enum Segment {
    Expand(ExpandDir),
    Data(DataDir),
    Text(String),
    Item(ItemDir),
    Impl(ImplDir),
    ConstFoldHere,
}

pub struct Unit {
    pub name: String,
    pub cfg: Vec<String>,
    pub segments: Vec<Segment>,
}

fn split_nth(s: &str) -> (String, usize) {
    // "pattern text #2" -> ("pattern text", 2)
    if let Some(i) = s.rfind(" #") {
        if let Ok(n) = s[i + 2..].trim().parse::<usize>() {
            return (s[..i].trim().to_string(), n);
        }
    }
    (s.trim().to_string(), 1)
}

fn norm_ws(s: &str) -> String {
    s.split_whitespace().collect::<Vec<_>>().join(" ")
}

enum Target {
    Spec,
    Loop(usize),
    Anchor(usize),
    LetAs(usize),
    MapFold,
    MapCollect(usize),
    FoldLoop,
    ExprAs(usize),
    ExpectBody,
    None,
}

/// parse the sub-directives of one function block; `lines` are the directive lines (without the `//@` prefix)
fn parse_fn_block(name_line: &str, lines: &[(bool, String)]) -> FnDirective {
    let (nm, nth) = split_nth(name_line);
    let mut d = FnDirective { name: nm, nth, ..Default::default() };
    // stack handling for inner / closure: we parse linearly; `inner X` and `closure N` switch the current target fn until `endinner`
    let mut cur_inner: Option<String> = None;
    let mut cur_closure: Option<usize> = None;
    let mut tgt = Target::None;
    macro_rules! curfn {
        () => {
            if let Some(n) = &cur_inner {
                d.inner.get_mut(n).unwrap()
            } else if let Some(n) = &cur_closure {
                d.closures.get_mut(n).unwrap()
            } else {
                &mut d
            }
        };
    }
    for (raw, l) in lines {
        if *raw {
            let f = curfn!();
            match tgt {
                Target::Spec => f.spec.push(l.clone()),
                Target::Loop(n) => f.loops.get_mut(&n).unwrap().lines.push(l.clone()),
                Target::Anchor(k) => f.anchors[k].lines.push(l.clone()),
                Target::LetAs(k) => f.let_as[k].expect.push(l.clone()),
                Target::MapFold => f.map_fold.as_mut().unwrap().lines.push(l.clone()),
                Target::MapCollect(k) => f.map_collect[k].lines.push(l.clone()),
                Target::FoldLoop => f.fold_loop.as_mut().unwrap().lines.push(l.clone()),
                Target::ExprAs(k) => f.expr_as[k].expect.push(l.clone()),
                Target::ExpectBody => f.expect_body.push(l.clone()),
                Target::None => die(&format!("raw line without target: {}", l)),
            }
            continue;
        }
        let t = l.trim();
        if t.is_empty() {
            continue;
        }
        let (kw, rest) = match t.split_once(char::is_whitespace) {
            Some((k, r)) => (k, r.trim()),
            None => (t, ""),
        };
        match kw {
            "ret" => {
                curfn!().ret = Some(rest.to_string());
                tgt = Target::None;
            }
            "spec" => tgt = Target::Spec,
            "props" => curfn!().props = Some(rest.to_string()),
            "rename" => curfn!().rename = Some(rest.to_string()),
            "refvars" => curfn!().refvars = rest.split_whitespace().map(|x| x.to_string()).collect(),
            "allow-macro" => curfn!().allow_macros = rest.split_whitespace().map(|x| x.to_string()).collect(),
            "external_body" => curfn!().external_body = true,
            "expect-body" => tgt = Target::ExpectBody,
            "allow-unsafe" => curfn!().allow_unsafe = true,
            "try-into-as" => curfn!().tryinto_as = Some(rest.to_string()),
            "call-as" => {
                let mut it = rest.split_whitespace();
                match (it.next(), it.next()) {
                    (Some(a), Some(b)) => curfn!().call_as.push((a.to_string(), b.to_string())),
                    _ => die("call-as needs <callee path> <fn>"),
                }
            }
            "unroll-array-all-any" => curfn!().unroll_all_any = true,
            "method-as" => {
                let mut it = rest.split_whitespace();
                match (it.next(), it.next()) {
                    (Some(a), Some(b)) => curfn!().method_as.push((a.to_string(), b.to_string())),
                    _ => die("method-as needs <method> <fn>"),
                }
            }
            "let-as" => {
                let (var, call) = match rest.split_once(char::is_whitespace) {
                    Some((v, c)) if !c.trim().is_empty() => (v.to_string(), c.trim().to_string()),
                    _ => die("let-as needs <var> <replacement expression>"),
                };
                let (var, nth) = match var.split_once('#') {
                    Some((v, k)) => (v.to_string(), k.parse::<usize>().unwrap_or_else(|_| die("let-as: bad ordinal"))),
                    None => (var, 1),
                };
                let f = curfn!();
                f.let_as.push(LetAs { var, nth, call, expect: vec![] });
                tgt = Target::LetAs(f.let_as.len() - 1);
            }
            "map-fold-loop" => {
                let mut it = rest.split_whitespace();
                let var = it.next().unwrap_or_else(|| die("map-fold-loop needs <var>")).to_string();
                let mut iter_name = None;
                let mut ty = None;
                for o in it {
                    if let Some(v) = o.strip_prefix("iter=") {
                        iter_name = Some(v.to_string());
                    } else if let Some(v) = o.strip_prefix("ty=") {
                        ty = Some(v.to_string());
                    }
                }
                curfn!().map_fold = Some(MapFold { var, iter_name, ty, lines: vec![] });
                tgt = Target::MapFold;
            }
            "expr-as" => {
                if rest.is_empty() {
                    die("expr-as needs <replacement expression>");
                }
                let f = curfn!();
                f.expr_as.push(LetAs { var: String::new(), nth: 1, call: rest.to_string(), expect: vec![] });
                tgt = Target::ExprAs(f.expr_as.len() - 1);
            }
            "hoist-items" => curfn!().hoist_items = true,
            "full-range-mut-as-slice" => curfn!().full_range_mut = true,
            "eta-ctor" => curfn!().eta_ctor.extend(rest.split_whitespace().map(|x| x.to_string())),
            "map-collect-loop" => {
                let mut it = rest.split_whitespace();
                let nth: usize = it.next().and_then(|x| x.parse().ok()).unwrap_or_else(|| die("map-collect-loop needs ordinal"));
                let mut mc = MapCollect { nth, ..Default::default() };
                for o in it {
                    if let Some(v) = o.strip_prefix("iter=") {
                        mc.iter_name = Some(v.to_string());
                    } else if let Some(v) = o.strip_prefix("src=") {
                        mc.src = Some(v.to_string());
                    } else if let Some(v) = o.strip_prefix("ty=") {
                        mc.ty = Some(v.to_string());
                    }
                }
                let f = curfn!();
                f.map_collect.push(mc);
                tgt = Target::MapCollect(f.map_collect.len() - 1);
            }
            "fold-loop" => {
                let mut fl = FoldLoop::default();
                for o in rest.split_whitespace() {
                    if let Some(v) = o.strip_prefix("iter=") {
                        fl.iter_name = Some(v.to_string());
                    } else if let Some(v) = o.strip_prefix("src=") {
                        fl.src = Some(v.to_string());
                    }
                }
                curfn!().fold_loop = Some(fl);
                tgt = Target::FoldLoop;
            }
            "loop" => {
                let mut it = rest.split_whitespace();
                let n: usize = it.next().and_then(|x| x.parse().ok()).unwrap_or_else(|| die("loop needs ordinal"));
                let mut ld = LoopDir::default();
                for o in it {
                    if let Some(v) = o.strip_prefix("iter=") {
                        ld.iter_name = Some(v.to_string());
                    } else if o == "index-mut" {
                        ld.index_mut = true;
                    } else if o == "filter-range" {
                        ld.filter_range = true;
                    }
                }
                curfn!().loops.insert(n, ld);
                tgt = Target::Loop(n);
            }
            "before" | "after" => {
                let (p, n) = split_nth(rest);
                let f = curfn!();
                f.anchors.push(Anchor {
                    kind: if kw == "before" { AnchorKind::Before } else { AnchorKind::After },
                    pat: norm_ws(&p),
                    nth: n,
                    lines: vec![],
                });
                tgt = Target::Anchor(f.anchors.len() - 1);
            }
            "at-end" => {
                let f = curfn!();
                f.anchors.push(Anchor { kind: AnchorKind::AtEnd, pat: String::new(), nth: 1, lines: vec![] });
                tgt = Target::Anchor(f.anchors.len() - 1);
            }
            "at-start" => {
                // right after the opening brace of the body (for `hide(..)`/`reveal(..)` headers, which Verus wants first):
                // independent of what the first statement of the source is
                let f = curfn!();
                f.anchors.push(Anchor { kind: AnchorKind::AtStart, pat: String::new(), nth: 1, lines: vec![] });
                tgt = Target::Anchor(f.anchors.len() - 1);
            }
            "inner" => {
                cur_closure = None;
                cur_inner = Some(rest.to_string());
                d.inner.insert(rest.to_string(), FnDirective { name: rest.to_string(), nth: 1, ..Default::default() });
                tgt = Target::None;
            }
            "closure" => {
                cur_inner = None;
                let n: usize = rest.parse().unwrap_or_else(|_| die("closure needs ordinal"));
                cur_closure = Some(n);
                d.closures.insert(n, FnDirective { nth: 1, ..Default::default() });
                tgt = Target::None;
            }
            "outer" => {
                cur_inner = None;
                cur_closure = None;
                tgt = Target::None;
            }
            other => die(&format!("unknown fn sub-directive `{}`", other)),
        }
    }
    d
}

pub fn parse_template(tpl: &str) -> Unit {
    let mut unit = Unit { name: String::new(), cfg: vec![], segments: vec![] };
    let mut text = String::new();
    let lines: Vec<&str> = tpl.split_inclusive('\n').collect();
    let mut i = 0;
    // helper: gather a fn block's lines until //@endfn
    let gather = |i: &mut usize, lines: &Vec<&str>| -> Vec<(bool, String)> {
        let mut v = vec![];
        loop {
            if *i >= lines.len() {
                die("unterminated //@fn block (missing //@endfn)");
            }
            let l = lines[*i].trim_end_matches('\n');
            let t = l.trim_start();
            *i += 1;
            if let Some(r) = t.strip_prefix("//@|") {
                v.push((true, r.to_string()));
            } else if let Some(r) = t.strip_prefix("//@") {
                let r = r.trim();
                if r == "endfn" {
                    break;
                }
                v.push((false, r.to_string()));
            } else if t.is_empty() || t.starts_with("//") {
                continue;
            } else {
                die(&format!("non-directive line inside //@fn block: {}", l));
            }
        }
        v
    };
    while i < lines.len() {
        let l = lines[i];
        let t = l.trim_start();
        if !t.starts_with("//@") || t.starts_with("//@|") {
            text.push_str(l);
            i += 1;
            continue;
        }
        let body = t[3..].trim();
        let (kw, rest) = match body.split_once(char::is_whitespace) {
            Some((k, r)) => (k, r.trim()),
            None => (body, ""),
        };
        i += 1;
        match kw {
            "unit" => unit.name = rest.to_string(),
            "cfg" => unit.cfg.push(rest.to_string()),
            "constfold-obligations" => {
                unit.segments.push(Segment::Text(std::mem::take(&mut text)));
                unit.segments.push(Segment::ConstFoldHere);
            }
            "expand" => {
                // //@expand <file> :: <macro_name> :: <substring identifying the invocation> as=<alias>
                unit.segments.push(Segment::Text(std::mem::take(&mut text)));
                let (body, alias) = match rest.rsplit_once(" as=") {
                    Some((b, a)) => (b.trim().to_string(), a.trim().to_string()),
                    None => die("expand needs as=<alias>"),
                };
                let parts: Vec<String> = body.split(" :: ").map(|x| x.trim().to_string()).collect();
                if parts.len() != 3 {
                    die("expand needs <file> :: <macro> :: <key> as=<alias>");
                }
                unit.segments.push(Segment::Expand(ExpandDir { file: parts[0].clone(), mac: parts[1].clone(), key: parts[2].clone(), alias }));
            }
            "data" => {
                unit.segments.push(Segment::Text(std::mem::take(&mut text)));
                // <file> :: const NAME as=prefix chunk=N [shape=...]
                let mut toks: Vec<&str> = rest.split_whitespace().collect();
                let mut prefix = String::new();
                let mut chunk = 0usize;
                let mut shape = None;
                toks.retain(|t| {
                    if let Some(v) = t.strip_prefix("as=") {
                        prefix = v.to_string();
                        false
                    } else if let Some(v) = t.strip_prefix("chunk=") {
                        chunk = v.parse().unwrap_or_else(|_| die("bad chunk="));
                        false
                    } else if let Some(v) = t.strip_prefix("shape=") {
                        shape = Some(v.to_string());
                        false
                    } else {
                        true
                    }
                });
                let joined = toks.join(" ");
                let parts: Vec<String> = joined.split(" :: ").map(|x| x.trim().to_string()).collect();
                if parts.len() < 2 || prefix.is_empty() {
                    die("data needs <file> :: const NAME as=<prefix> [chunk=N] [shape=S]");
                }
                unit.segments.push(Segment::Data(DataDir { file: parts[0].clone(), path: parts[1..].to_vec(), prefix, chunk, shape }));
            }
            "item" => {
                unit.segments.push(Segment::Text(std::mem::take(&mut text)));
                // <file> :: seg :: seg [derive(A,B)]
                let mut rest = rest.to_string();
                let mut keep = vec!["Copy".to_string(), "Clone".to_string()];
                let mut make_pub = false;
                if rest.trim_end().ends_with(" make-pub") {
                    make_pub = true;
                    let n = rest.trim_end().len() - " make-pub".len();
                    rest.truncate(n);
                }
                let mut fold_args = None;
                if let Some(p) = rest.find(" fold-args=") {
                    let tail = rest[p + 11..].to_string();
                    let ty = tail.split_whitespace().next().unwrap_or("").to_string();
                    let after = tail[ty.len()..].to_string();
                    rest.truncate(p);
                    rest.push_str(&after);
                    fold_args = Some(ty);
                }
                let mut extra_cfg = vec![];
                if let Some(p) = rest.find(" cfg+(") {
                    let q = rest[p..].rfind(')').map(|q| p + q).unwrap_or_else(|| die("unterminated cfg+("));
                    extra_cfg.push(rest[p + 6..q].to_string());
                    let tail = rest[q + 1..].to_string();
                    rest.truncate(p);
                    rest.push_str(&tail);
                }
                if let Some(p) = rest.find(" derive(") {
                    let inner = rest[p + 8..].trim_end().trim_end_matches(')').to_string();
                    keep = inner.split(',').map(|x| x.trim().to_string()).filter(|x| !x.is_empty()).collect();
                    rest.truncate(p);
                }
                let (rest2, nth) = split_nth(&rest);
                let parts: Vec<String> = rest2.split(" :: ").map(|x| x.trim().to_string()).collect();
                if parts.len() < 2 {
                    die("item needs <file> :: <kind name>");
                }
                let is_fn = parts.last().unwrap().starts_with("fn ");
                let mut fnd = None;
                if is_fn {
                    // optional fn block follows if next directive line is not another top-level directive
                    let blk = gather(&mut i, &lines);
                    let nm = parts.last().unwrap()[3..].to_string();
                    fnd = Some(parse_fn_block(&nm, &blk));
                }
                let mut spec = vec![];
                if parts.last().unwrap().starts_with("static ") {
                    while i < lines.len() && lines[i].trim_start().starts_with("//@|") {
                        spec.push(lines[i].trim_start()[4..].trim_end_matches('\n').to_string());
                        i += 1;
                    }
                }
                unit.segments.push(Segment::Item(ItemDir { file: parts[0].clone(), path: parts[1..].to_vec(), nth, keep_derive: keep, make_pub, extra_cfg, fnd, spec, fold_args }));
            }
            "impl" => {
                unit.segments.push(Segment::Text(std::mem::take(&mut text)));
                let (file, sel) = rest.split_once(" :: ").unwrap_or_else(|| die("impl needs <file> :: <selector>"));
                let mut imd = ImplDir { file: file.trim().to_string(), selector: sel.trim().to_string(), header: None, keep_types: false, in_fn: None, fns: vec![], consts: vec![] };
                loop {
                    if i >= lines.len() {
                        die("unterminated //@impl");
                    }
                    let t = lines[i].trim();
                    i += 1;
                    if t.is_empty() || (t.starts_with("//") && !t.starts_with("//@")) {
                        continue;
                    }
                    let b = t.strip_prefix("//@").unwrap_or_else(|| die(&format!("non-directive line inside //@impl: {}", t))).trim();
                    let (k, r) = match b.split_once(char::is_whitespace) {
                        Some((k, r)) => (k, r.trim()),
                        None => (b, ""),
                    };
                    match k {
                        "endimpl" => break,
                        "header" => imd.header = Some(r.to_string()),
                        "keep-types" => imd.keep_types = true,
                        "in-fn" => imd.in_fn = Some(r.to_string()),
                        "const" => {
                            let mut sp = vec![];
                            while i < lines.len() && lines[i].trim_start().starts_with("//@|") {
                                sp.push(lines[i].trim_start()[4..].trim_end_matches('\n').to_string());
                                i += 1;
                            }
                            imd.consts.push((r.to_string(), sp));
                        }
                        "fn" => {
                            let blk = gather(&mut i, &lines);
                            imd.fns.push(parse_fn_block(r, &blk));
                        }
                        other => die(&format!("unknown impl sub-directive `{}`", other)),
                    }
                }
                unit.segments.push(Segment::Impl(imd));
            }
            other => die(&format!("unknown directive `//@{}`", other)),
        }
    }
    unit.segments.push(Segment::Text(text));
    unit
}
