//! vx — mechanical extractor: real functions from /repo  ->  one Verus file per unit.
//!
//! usage: vx <repo-root> <contract-template.vx> <out.rs> <out-log.json>
//!
//! Exit codes: 0 ok, 2 extraction undecided (lost anchor, missing item, unsupported construct).
//! See DESIGN.md §2 for the closed list of rewrite rules R1..R9.

use proc_macro2::Span;
use std::collections::{BTreeMap, HashMap};
use syn::punctuated::Punctuated;
use syn::spanned::Spanned;
use syn::visit::Visit;
use syn::{Attribute, Block, Expr, ImplItem, Item, Stmt};

mod cfgeval;
mod directives;
use directives::*;

pub fn die(msg: &str) -> ! {
    eprintln!("vx: UNDECIDED: {}", msg);
    std::process::exit(2);
}

#[derive(Clone, Debug)]
pub struct Edit {
    start: usize,
    end: usize,
    text: String,
    prio: i32,
    rule: &'static str,
}

pub struct SrcFile {
    /// for a macro expansion (R6): line of the real file where the transcriber starts, minus one
    pub line_base: usize,
    pub rel: String,
    pub text: String,
    pub ast: syn::File,
    pub line_starts: Vec<usize>,
}

impl SrcFile {
    fn load(root: &str, rel: &str) -> SrcFile {
        let p = format!("{}/{}", root, rel);
        let text = std::fs::read_to_string(&p).unwrap_or_else(|e| die(&format!("cannot read {}: {}", p, e)));
        let ast = syn::parse_file(&text).unwrap_or_else(|e| die(&format!("cannot parse {}: {}", p, e)));
        let mut line_starts = vec![0usize];
        for (i, b) in text.bytes().enumerate() {
            if b == b'\n' {
                line_starts.push(i + 1);
            }
        }
        SrcFile { line_base: 0, rel: rel.to_string(), text, ast, line_starts }
    }
    /// R6: a synthetic source = the transcriber of a flat `macro_rules!` with its metavariables substituted
    fn from_text(rel: &str, text: String, line_base: usize) -> SrcFile {
        let ast = syn::parse_file(&text).unwrap_or_else(|e| die(&format!("cannot parse macro expansion {}: {}", rel, e)));
        let mut line_starts = vec![0usize];
        for (i, b) in text.bytes().enumerate() {
            if b == b'\n' {
                line_starts.push(i + 1);
            }
        }
        SrcFile { line_base, rel: rel.to_string(), text, ast, line_starts }
    }
    fn line_of(&self, off: usize) -> usize {
        self.line_base
            + match self.line_starts.binary_search(&off) {
                Ok(i) => i + 1,
                Err(i) => i,
            }
    }
    /// byte offset of a proc-macro2 line/column (column counts chars)
    fn off(&self, lc: proc_macro2::LineColumn) -> usize {
        let ls = self.line_starts[lc.line - 1];
        let rest = &self.text[ls..];
        let mut o = 0;
        for (n, (i, _)) in rest.char_indices().enumerate() {
            if n == lc.column {
                o = i;
                return ls + o;
            }
            o = i;
        }
        let _ = o;
        ls + rest.find('\n').map(|x| x.min(lc.column)).unwrap_or(rest.len())
    }
    fn range(&self, sp: Span) -> (usize, usize) {
        (self.off(sp.start()), self.off(sp.end()))
    }
    fn slice(&self, sp: Span) -> &str {
        let (a, b) = self.range(sp);
        &self.text[a..b]
    }
}

fn norm_ws(s: &str) -> String {
    s.split_whitespace().collect::<Vec<_>>().join(" ")
}

/// normalise an impl selector / header: drop whitespace and lifetimes
fn norm_sel(s: &str) -> String {
    let mut out = String::new();
    let cs: Vec<char> = s.chars().collect();
    let mut i = 0;
    while i < cs.len() {
        let c = cs[i];
        if c == '\'' {
            // lifetime: skip ident chars
            let mut j = i + 1;
            while j < cs.len() && (cs[j].is_alphanumeric() || cs[j] == '_') {
                j += 1;
            }
            // char literal 'x' would have closing quote; not expected in headers
            i = j;
            continue;
        }
        if !c.is_whitespace() {
            out.push(c);
        }
        i += 1;
    }
    // remove empty generic lists and leftover commas from dropped lifetimes
    let out = out.replace("<,", "<").replace(",,", ",").replace("<>", "");
    out
}

pub struct Ctx<'a> {
    f: &'a SrcFile,
    cfg: &'a cfgeval::Cfg,
    edits: Vec<Edit>,
    constfold: Vec<String>,
    log: Vec<serde_json::Value>,
}

impl<'a> Ctx<'a> {
    fn edit(&mut self, start: usize, end: usize, text: String, prio: i32, rule: &'static str) {
        let old = self.f.text[start..end].to_string();
        self.log.push(serde_json::json!({
            "rule": rule, "file": self.f.rel, "line": self.f.line_of(start),
            "old": if old.len() > 200 { format!("{}…", old.chars().take(150).collect::<String>()) } else { old },
            "new": if text.len() > 300 { format!("{}…", text.chars().take(200).collect::<String>()) } else { text.clone() },
        }));
        self.edits.push(Edit { start, end, text, prio, rule });
    }

    /// R10: restricted visibility (`pub(crate)`, `pub(super)`, `pub(in ..)`) -> `pub`.
    /// Verus requires everything a public contract mentions to be public; widening visibility
    /// does not change the meaning of any extracted body.
    fn vis(&mut self, v: &syn::Visibility) {
        if let syn::Visibility::Restricted(r) = v {
            let (s, e) = self.f.range(r.span());
            self.edit(s, e, "pub".to_string(), 0, "R10-vis");
        }
    }

    /// R1/R2: handle an attribute list on a node with byte range `node`.
    /// Returns false if the node is cfg'd out (and schedules its deletion).
    fn attrs(&mut self, attrs: &[Attribute], node: (usize, usize), keep_derive: &[String]) -> bool {
        for a in attrs {
            let (s, e) = self.f.range(a.span());
            let path = a.path().segments.iter().map(|x| x.ident.to_string()).collect::<Vec<_>>().join("::");
            match path.as_str() {
                "cfg" => {
                    let v = match &a.meta {
                        syn::Meta::List(l) => self.cfg.eval_tokens(l.tokens.clone()),
                        _ => die("bad cfg attribute"),
                    };
                    if !v {
                        // delete whole node incl. following ';' or ',' handled by caller's range
                        let (ns, ne) = node;
                        let ns = ns.min(s);
                        self.edit(ns, ne, String::new(), 0, "R2-cfg-false");
                        return false;
                    } else {
                        self.edit(s, e, String::new(), 0, "R2-cfg-true");
                    }
                }
                "doc" => {
                    // keep `///` comments; drop #[doc(...)] forms
                    if !self.f.text[s..e].starts_with("///") && !self.f.text[s..e].starts_with("//!") {
                        self.edit(s, e, String::new(), 0, "R1-attr");
                    }
                }
                "derive" => {
                    let mut kept = vec![];
                    if let syn::Meta::List(l) = &a.meta {
                        let ps = l.parse_args_with(Punctuated::<syn::Path, syn::Token![,]>::parse_terminated).unwrap();
                        for p in ps {
                            let n = p.segments.last().unwrap().ident.to_string();
                            if keep_derive.contains(&n) {
                                kept.push(n);
                            }
                        }
                    }
                    let t = if kept.is_empty() { String::new() } else { format!("#[derive({})]", kept.join(", ")) };
                    self.edit(s, e, t, 0, "R1-derive");
                }
                "inline" | "rustfmt::skip" | "allow" | "must_use" | "cfg_attr" | "deprecated" | "unsafe_target_feature"
                | "repr" | "doc::hidden" | "cold" | "track_caller" => {
                    self.edit(s, e, String::new(), 0, "R1-attr");
                }
                other => die(&format!("unsupported attribute #[{}] at {}:{}", other, self.f.rel, self.f.line_of(s))),
            }
        }
        true
    }
}

fn expr_attrs(e: &Expr) -> &[Attribute] {
    match e {
        Expr::Array(x) => &x.attrs,
        Expr::Assign(x) => &x.attrs,
        Expr::Binary(x) => &x.attrs,
        Expr::Block(x) => &x.attrs,
        Expr::Call(x) => &x.attrs,
        Expr::ForLoop(x) => &x.attrs,
        Expr::If(x) => &x.attrs,
        Expr::Macro(x) => &x.attrs,
        Expr::Match(x) => &x.attrs,
        Expr::MethodCall(x) => &x.attrs,
        Expr::While(x) => &x.attrs,
        Expr::Loop(x) => &x.attrs,
        Expr::Unsafe(x) => &x.attrs,
        Expr::Let(x) => &x.attrs,
        Expr::Return(x) => &x.attrs,
        Expr::Closure(x) => &x.attrs,
        Expr::Struct(x) => &x.attrs,
        _ => &[],
    }
}

/// tiny constant evaluator for R5
fn const_eval(e: &Expr) -> Option<u128> {
    match e {
        Expr::Lit(l) => match &l.lit {
            syn::Lit::Int(i) => i.base10_parse::<u128>().ok(),
            _ => None,
        },
        Expr::Paren(p) => const_eval(&p.expr),
        Expr::Group(p) => const_eval(&p.expr),
        Expr::Cast(c) => const_eval(&c.expr),
        Expr::Binary(b) => {
            let l = const_eval(&b.left)?;
            let r = const_eval(&b.right)?;
            use syn::BinOp::*;
            match b.op {
                Add(_) => l.checked_add(r),
                Sub(_) => l.checked_sub(r),
                Mul(_) => l.checked_mul(r),
                Shl(_) => {
                    if r < 127 {
                        l.checked_mul(1u128 << r)
                    } else {
                        None
                    }
                }
                Shr(_) => Some(l >> r),
                BitAnd(_) => Some(l & r),
                BitOr(_) => Some(l | r),
                _ => None,
            }
        }
        _ => None,
    }
}
fn const_print(e: &Expr, ty: &str) -> String {
    match e {
        Expr::Lit(l) => match &l.lit {
            syn::Lit::Int(i) => {
                if i.suffix().is_empty() {
                    format!("{}{}", i.base10_digits(), ty)
                } else {
                    format!("{}{}", i.base10_digits(), i.suffix())
                }
            }
            _ => unreachable!(),
        },
        Expr::Paren(p) => format!("({})", const_print(&p.expr, ty)),
        Expr::Group(p) => const_print(&p.expr, ty),
        Expr::Cast(c) => format!("({} as {})", const_print(&c.expr, ty), quote::ToTokens::to_token_stream(&c.ty)),
        Expr::Binary(b) => {
            format!("({} {} {})", const_print(&b.left, ty), quote::ToTokens::to_token_stream(&b.op), const_print(&b.right, ty))
        }
        _ => unreachable!(),
    }
}

fn is_plain_lit(e: &Expr) -> bool {
    matches!(e, Expr::Lit(_))
}

struct BodyVisitor<'c, 'a> {
    cx: &'c mut Ctx<'a>,
    d: &'c FnDirective,
    ref_idents: Vec<String>,
    loop_no: usize,
    closure_no: usize,
    anchor_hits: Vec<usize>, // per anchor: occurrences seen
    anchor_done: Vec<bool>,
    loops_done: Vec<usize>,
    inner_done: Vec<String>,
    closures_done: Vec<usize>,
    let_as_done: Vec<bool>,
    let_as_hits: Vec<usize>,
    map_fold_done: bool,
    collect_no: usize,
    map_collect_done: Vec<bool>,
    fold_loop_done: bool,
    expr_as_hits: Vec<usize>,
    fn_path: String,
}

fn is_ref_operand(e: &Expr, refs: &[String]) -> bool {
    match e {
        Expr::Reference(_) => true,
        // opt-in (`//@ refvars .borrow()`): a call of the named argument-less method is a reference-typed operand for R4 (e.g. `Borrow::borrow`
        // returns `&Borrowed` by its signature); without the entry nothing changes
        Expr::MethodCall(mc) => mc.args.is_empty() && refs.contains(&format!(".{}()", mc.method)),
        Expr::Paren(p) => is_ref_operand(&p.expr, refs),
        Expr::Path(p) => {
            if p.path.segments.len() == 1 {
                let n = p.path.segments[0].ident.to_string();
                refs.contains(&n)
            } else {
                false
            }
        }
        _ => false,
    }
}

fn binop_trait(op: &syn::BinOp) -> Option<(&'static str, &'static str, bool)> {
    use syn::BinOp::*;
    Some(match op {
        Add(_) => ("Add", "add", false),
        Sub(_) => ("Sub", "sub", false),
        Mul(_) => ("Mul", "mul", false),
        AddAssign(_) => ("AddAssign", "add_assign", true),
        SubAssign(_) => ("SubAssign", "sub_assign", true),
        MulAssign(_) => ("MulAssign", "mul_assign", true),
        _ => return None,
    })
}

impl<'c, 'a, 'ast> Visit<'ast> for BodyVisitor<'c, 'a> {
    fn visit_item(&mut self, it: &'ast Item) {
        // nested items: fn (with optional inner directive), const (R5). Do not descend otherwise.
        match it {
            Item::Fn(f) => {
                let name = f.sig.ident.to_string();
                let node = self.cx.f.range(f.span());
                if !self.cx.attrs(&f.attrs, node, &[]) {
                    return;
                }
                let empty = FnDirective::default();
                let d = match self.d.inner.get(&name) {
                    Some(d) => {
                        self.inner_done.push(name.clone());
                        d
                    }
                    None => &empty,
                };
                let p = format!("{}::{}", self.fn_path, name);
                process_fn(self.cx, &f.sig, &f.block, d, &p);
            }
            Item::Const(c) => {
                let node = self.cx.f.range(c.span());
                if !self.cx.attrs(&c.attrs, node, &[]) {
                    return;
                }
                fold_const(self.cx, c);
            }
            _ => {}
        }
    }

    fn visit_block(&mut self, b: &'ast Block) {
        let mut vx_skip: Vec<usize> = vec![];
        for (i, st) in b.stmts.iter().enumerate() {
            if vx_skip.contains(&i) {
                continue;
            }
            let (s, e) = self.cx.f.range(st.span());
            // R23 (opt-in `//@ hoist-items`): a `struct` / `enum` / `impl` item statement is deleted from the body; the template extracts it at module
            // level (`//@item <file> :: impl T :: fn f :: struct S`, `//@impl` + `//@in-fn`). Verus does not support item statements inside a fn body;
            // item declarations are not executed and hoisting only widens their scope.
            if self.d.hoist_items {
                if let Stmt::Item(Item::Struct(_) | Item::Enum(_) | Item::Impl(_)) = st {
                    self.cx.edit(s, e, "/* R23: nested item hoisted to module level (extracted separately) */".to_string(), 0, "R23-hoist-items");
                    continue;
                }
            }
            // R2 at statement level
            let attrs: &[Attribute] = match st {
                Stmt::Local(l) => &l.attrs,
                Stmt::Expr(x, _) => expr_attrs(x),
                Stmt::Macro(m) => &m.attrs,
                Stmt::Item(_) => &[],
            };
            if !attrs.is_empty() && !matches!(st, Stmt::Item(_)) {
                if !self.cx.attrs(attrs, (s, e), &[]) {
                    continue;
                }
            }
            // anchors
            let is_tail = i + 1 == b.stmts.len() && matches!(st, Stmt::Expr(_, None));
            let _ = is_tail;
            let txt = norm_ws(&self.cx.f.text[s..e]);
            for (k, a) in self.d.anchors.iter().enumerate() {
                if a.kind == AnchorKind::AtEnd || a.kind == AnchorKind::AtStart || self.anchor_done[k] {
                    continue;
                }
                if txt.starts_with(&a.pat) {
                    self.anchor_hits[k] += 1;
                    if self.anchor_hits[k] == a.nth {
                        self.anchor_done[k] = true;
                        let text = a.lines.join("\n");
                        match a.kind {
                            AnchorKind::Before => self.cx.edit(s, s, format!("{}\n", text), 200000, "R7-splice"), // above any R4 prefix at the same offset
                            AnchorKind::After => self.cx.edit(e, e, format!("\n{}", text), -50, "R7-splice"),
                            AnchorKind::AtEnd | AnchorKind::AtStart => {}
                        }
                    }
                }
            }
            // R19 (opt-in `//@ let-as <var> <replacement>` + quoted expected initialiser): `let <var> = <init>;` -> `let <var> = <replacement>;`.
            // <replacement> calls a helper of the template whose external body is <init> itself (executed code unchanged) and whose contract is the
            // ASSUMED specification of that iterator chain (generic `IntoIterator` / `map(closure)` / `collect`, which this Verus cannot carry through
            // type parameters). The rewrite is refused unless the whitespace-stripped text of <init> equals the quoted text: any change of the real
            // initialiser makes the run "undecided" (exit 2) instead of silently keeping the assumption. The replaced text is not visited.
            if let Stmt::Local(l) = st {
                // the bound name; for a non-identifier pattern (`let (a, b) = ..`) the whitespace-stripped pattern text, e.g. `(a,b)`
                let name = match &l.pat {
                    syn::Pat::Ident(pi) => Some(pi.ident.to_string()),
                    syn::Pat::Type(pt) => match &*pt.pat {
                        syn::Pat::Ident(pi) => Some(pi.ident.to_string()),
                        other => Some(self.cx.f.slice(other.span()).chars().filter(|c| !c.is_whitespace()).collect::<String>()),
                    },
                    other => Some(self.cx.f.slice(other.span()).chars().filter(|c| !c.is_whitespace()).collect::<String>()),
                };
                let mut hit: Option<usize> = None;
                if let Some(n) = &name {
                    for (k, la) in self.d.let_as.iter().enumerate() {
                        if &la.var == n {
                            self.let_as_hits[k] += 1;
                            if self.let_as_hits[k] == la.nth && !self.let_as_done[k] {
                                hit = Some(k);
                            }
                        }
                    }
                }
                if let Some(k) = hit {
                    let la = &self.d.let_as[k];
                    let init = l.init.as_ref().unwrap_or_else(|| die(&format!("let-as: `let {}` has no initialiser in {}", la.var, self.fn_path)));
                    if init.diverge.is_some() {
                        die(&format!("let-as: `let {} .. else` is not supported in {}", la.var, self.fn_path));
                    }
                    let (is, ie) = self.cx.f.range(init.expr.span());
                    let strip = |t: &str| t.chars().filter(|c| !c.is_whitespace()).collect::<String>();
                    let got = strip(&self.cx.f.text[is..ie]);
                    let want = strip(&la.expect.join(" "));
                    if want.is_empty() || got != want {
                        die(&format!("let-as: the initialiser of `{}` in {} differs from the text the assumed contract was written for", la.var, self.fn_path));
                    }
                    if la.call == "drop" {
                        self.cx.edit(s, e, format!("/* R19: `let {}` dropped (part of the contract of a later let-as helper) */", la.var), 0, "R19-let-as");
                    } else {
                        self.cx.edit(is, ie, la.call.clone(), 0, "R19-let-as");
                    }
                    self.let_as_done[k] = true;
                    continue;
                }
                // R21 (opt-in `//@ map-fold-loop V`): see directives.rs::MapFold. A modelling assumption on `core` (Map::next = inner.next().map(f),
                // fold = loop over next, expect = unwrap-or-panic), logged; BODY and E are the source texts, BODY is visited (rewrites, loop specs) as usual.
                if let (Some(mf), Some(n)) = (&self.d.map_fold, &name) {
                    if &mf.var == n && !self.map_fold_done {
                        let shape = (|| -> Option<()> {
                            let init = l.init.as_ref()?;
                            let mc = match &*init.expr { Expr::MethodCall(mc) if mc.method == "map" && mc.args.len() == 1 && mc.turbofish.is_none() => mc, _ => return None };
                            let cl = match &mc.args[0] { Expr::Closure(c) if c.inputs.len() == 1 => c, _ => return None };
                            let x = match &cl.inputs[0] { syn::Pat::Ident(pi) if pi.by_ref.is_none() && pi.subpat.is_none() => pi.ident.to_string(), _ => return None };
                            let recv = self.cx.f.slice(mc.receiver.span()).to_string();
                            // S2: let H = V.next().expect(MSG);
                            let (h, msg, s2) = match b.stmts.get(i + 1)? {
                                st2 @ Stmt::Local(l2) => {
                                    let h = match &l2.pat { syn::Pat::Ident(pi) if pi.by_ref.is_none() && pi.mutability.is_none() => pi.ident.to_string(), _ => return None };
                                    let e2 = &l2.init.as_ref()?.expr;
                                    let ex = match &**e2 { Expr::MethodCall(m) if m.method == "expect" && m.args.len() == 1 => m, _ => return None };
                                    let nx = match &*ex.receiver { Expr::MethodCall(m) if m.method == "next" && m.args.is_empty() => m, _ => return None };
                                    match &*nx.receiver { Expr::Path(p) if p.path.is_ident(n.as_str()) => {}, _ => return None };
                                    (h, self.cx.f.slice(ex.args[0].span()).to_string(), self.cx.f.range(st2.span()))
                                }
                                _ => return None,
                            };
                            // S3: the next statement contains exactly one `V.fold(H, |t, p| E)`
                            struct FindFold<'x> { v: &'x str, found: Vec<&'x syn::ExprMethodCall> }
                            impl<'x> Visit<'x> for FindFold<'x> {
                                fn visit_expr_method_call(&mut self, m: &'x syn::ExprMethodCall) {
                                    if m.method == "fold" && matches!(&*m.receiver, Expr::Path(p) if p.path.is_ident(self.v)) {
                                        self.found.push(m);
                                    }
                                    syn::visit::visit_expr_method_call(self, m);
                                }
                            }
                            let st3 = b.stmts.get(i + 2)?;
                            if b.stmts.len() != i + 3 { return None; }
                            let mut ff = FindFold { v: n.as_str(), found: vec![] };
                            ff.visit_stmt(st3);
                            if ff.found.len() != 1 { return None; }
                            let fm = ff.found[0];
                            if fm.args.len() != 2 { return None; }
                            match &fm.args[0] { Expr::Path(p) if p.path.is_ident(h.as_str()) => {}, _ => return None };
                            let fc = match &fm.args[1] { Expr::Closure(c) if c.inputs.len() == 2 => c, _ => return None };
                            let t = match &fc.inputs[0] { syn::Pat::Ident(pi) if pi.by_ref.is_none() && pi.subpat.is_none() => pi.ident.to_string(), _ => return None };
                            let p = match &fc.inputs[1] { syn::Pat::Ident(pi) if pi.by_ref.is_none() && pi.subpat.is_none() => pi.ident.to_string(), _ => return None };
                            // E is MOVED into the loop as text; the always-on expression rewrites (R4 `&a + &b` -> `core::ops::Add::add(&a, &b)`, ..) are applied to it
                            // first: its edits are collected separately and rendered into the moved text (identical to the source text when no rule fires).
                            let etxt = {
                                let n0 = self.cx.edits.len();
                                self.visit_expr(&fc.body);
                                let mut sub: Vec<Edit> = self.cx.edits.drain(n0..).collect();
                                let (fbs, fbe) = self.cx.f.range(fc.body.span());
                                render(self.cx.f, fbs, fbe, &mut sub).0
                            };
                            // split the raw lines
                            let mut parts: Vec<Vec<String>> = vec![vec![]];
                            for ln in &mf.lines {
                                if ln.trim() == "---" { parts.push(vec![]); } else { parts.last_mut().unwrap().push(ln.clone()); }
                            }
                            while parts.len() < 3 { parts.push(vec![]); }
                            let (bs, be) = self.cx.f.range(cl.body.span());
                            let it = match &mf.iter_name { Some(nm) => format!("{}: ", nm), None => String::new() };
                            self.cx.edit(s, bs, format!("let mut vx_acc: Option<{}> = None;\n        for {} in {}{}\n{}\n        {{ let vx_item = ", mf.ty.clone().unwrap_or("_".to_string()), x, it, recv, parts[0].join("\n")), 0, "R21-map-fold-loop");
                            self.cx.edit(be, e, format!(";\n{}\n            vx_acc = Some(match vx_acc {{ None => vx_item, Some({}) => {{ let {} = vx_item; {} }} }});\n{}\n        }}", parts[1].join("\n"), t, p, etxt, parts[2].join("\n")), -300000, "R21-map-fold-loop");
                            self.cx.edit(s2.0, s2.1, "/* R21: hi_column = first item of the loop above */".to_string(), 0, "R21-map-fold-loop");
                            let (fs, fe) = self.cx.f.range(fm.span());
                            self.cx.edit(fs, fe, format!("vx_acc.expect({})", msg), 0, "R21-map-fold-loop");
                            self.visit_expr(&cl.body);
                            Some(())
                        })();
                        if shape.is_none() {
                            die(&format!("map-fold-loop: `{}` in {} is not of the form `let mut V = R.map(|x| B); let H = V.next().expect(M); <tail with one V.fold(H, |t, p| E)>`", mf.var, self.fn_path));
                        }
                        self.map_fold_done = true;
                        vx_skip.push(i + 1);
                        vx_skip.push(i + 2);
                        continue;
                    }
                }
            }
            self.visit_stmt(st);
        }
    }

    fn visit_expr(&mut self, e: &'ast Expr) {
        // R28 (opt-in `//@ expr-as <replacement>` + quoted expected text): see directives.rs. The replaced text is not visited.
        if !self.d.expr_as.is_empty() {
            let (es, ee) = self.cx.f.range(e.span());
            let got: String = self.cx.f.text[es..ee].chars().filter(|c| !c.is_whitespace()).collect();
            for (k, ea) in self.d.expr_as.iter().enumerate() {
                let want: String = ea.expect.join(" ").chars().filter(|c| !c.is_whitespace()).collect();
                if !want.is_empty() && got == want {
                    self.expr_as_hits[k] += 1;
                    if self.expr_as_hits[k] == 1 {
                        self.cx.edit(es, ee, ea.call.clone(), 0, "R28-expr-as");
                    }
                    return;
                }
            }
        }
        match e {
            Expr::Binary(b) => {
                if let Some((tr, m, assign)) = binop_trait(&b.op) {
                    let lref = is_ref_operand(&b.left, &self.ref_idents);
                    let rref = is_ref_operand(&b.right, &self.ref_idents);
                    if rref || (lref && !assign) {
                        let (s, _) = self.cx.f.range(b.span());
                        let (_, le) = self.cx.f.range(b.left.span());
                        let (rs, re) = self.cx.f.range(b.right.span());
                        let size = (re - s) as i32;
                        let pre = if assign { format!("core::ops::{}::{}(&mut ", tr, m) } else { format!("core::ops::{}::{}(", tr, m) };
                        self.cx.edit(s, s, pre, 100000 - size, "R4-ref-binop");
                        self.cx.edit(le, rs, ", ".to_string(), 0, "R4-ref-binop");
                        self.cx.edit(re, re, ")".to_string(), -100000 + size, "R4-ref-binop");
                    }
                }
                syn::visit::visit_expr_binary(self, b);
            }
            Expr::ForLoop(l) => {
                self.loop_no += 1;
                let n = self.loop_no;
                if let Some(ld) = self.d.loops.get(&n) {
                    self.loops_done.push(n);
                    let (bs, _) = self.cx.f.range(l.body.brace_token.span.open());
                    if ld.index_mut {
                        // R14 (opt-in): `for x in &mut a { body }` -> `for vx_i in 0..a.len() { let x = &mut a[vx_i]; body }`.
                        // Verus has no usable model of core::slice::IterMut; this is the definition of iteration over
                        // `&mut [T; N]` / `&mut [T]` / `&mut Vec<T>` (each element once, in index order) - a modelling
                        // assumption on `core`, logged like every other rewrite.
                        match (&*l.expr, &*l.pat) {
                            (Expr::Reference(r), syn::Pat::Ident(pi)) if r.mutability.is_some() && pi.by_ref.is_none() && pi.subpat.is_none() => {
                                let arr = self.cx.f.slice(r.expr.span()).to_string();
                                let (ps, pe) = self.cx.f.range(l.pat.span());
                                let (es, ee) = self.cx.f.range(l.expr.span());
                                let (_, be) = self.cx.f.range(l.body.brace_token.span.open());
                                self.cx.edit(ps, pe, "vx_i".to_string(), 0, "R14-iter-mut-index");
                                self.cx.edit(es, ee, format!("0..{}.len()", arr), 0, "R14-iter-mut-index");
                                self.cx.edit(be, be, format!(" let {} = &mut {}[vx_i];", pi.ident, arr), 60, "R14-iter-mut-index");
                            }
                            _ => die("loop option index-mut needs `for <ident> in &mut <place>`"),
                        }
                    }
                    if ld.filter_range {
                        // R18 (opt-in): `for i in (a..b).filter(|x| P) { B }` -> `for i in (a..b) { let vx_keep: bool = { let x = &i; P }; if vx_keep { B } }`.
                        // vstd's model of `core::iter::Filter` (`Seq::filter_index`: membership only) fixes neither the order nor the
                        // multiplicity of the yielded items, so an order-dependent loop cannot be verified against it. The rewrite is the
                        // documented meaning of `Iterator::filter` over a `Range` (each element of the range for which the predicate
                        // returns true, once, in increasing order) - a modelling assumption on `core`, logged like every other rewrite.
                        // The predicate text P and the body text B are unchanged.
                        let ok = (|| -> Option<()> {
                            let mc = match &*l.expr { Expr::MethodCall(mc) => mc, _ => return None };
                            if mc.method != "filter" || mc.args.len() != 1 || mc.turbofish.is_some() { return None; }
                            let recv = match &*mc.receiver { Expr::Paren(p) => &*p.expr, other => other };
                            if !matches!(recv, Expr::Range(_)) { return None; }
                            let cl = match &mc.args[0] { Expr::Closure(c) => c, _ => return None };
                            if cl.inputs.len() != 1 { return None; }
                            let x = match &cl.inputs[0] { syn::Pat::Ident(pi) if pi.by_ref.is_none() && pi.subpat.is_none() => pi.ident.to_string(), _ => return None };
                            let i = match &*l.pat { syn::Pat::Ident(pi) if pi.by_ref.is_none() && pi.subpat.is_none() => pi.ident.to_string(), _ => return None };
                            let pred = self.cx.f.slice(cl.body.span()).to_string();
                            let range = self.cx.f.slice(mc.receiver.span()).to_string();
                            let (es, ee) = self.cx.f.range(l.expr.span());
                            let (_, be) = self.cx.f.range(l.body.brace_token.span.open());
                            let (ce, _) = self.cx.f.range(l.body.brace_token.span.close());
                            self.cx.edit(es, ee, range, 0, "R18-filter-range");
                            self.cx.edit(be, be, format!(" let vx_keep: bool = {{ let {} = &{}; {} }}; if vx_keep {{", x, i, pred), 60, "R18-filter-range");
                            self.cx.edit(ce, ce, "} ".to_string(), -300000, "R18-filter-range");
                            Some(())
                        })();
                        if ok.is_none() {
                            die("loop option filter-range needs `for <ident> in (<range>).filter(|<ident>| <expr>)`");
                        }
                    }
                    if let Some(it) = &ld.iter_name {
                        let (es, _) = self.cx.f.range(l.expr.span());
                        self.cx.edit(es, es, format!("{}: ", it), 0, "R7-loop-iter");
                    }
                    self.cx.edit(bs, bs, format!("\n{}\n", ld.lines.join("\n")), 0, "R7-loop-spec");
                }
                syn::visit::visit_expr_for_loop(self, l);
            }
            Expr::While(l) => {
                self.loop_no += 1;
                let n = self.loop_no;
                if let Some(ld) = self.d.loops.get(&n) {
                    self.loops_done.push(n);
                    let (bs, _) = self.cx.f.range(l.body.brace_token.span.open());
                    self.cx.edit(bs, bs, format!("\n{}\n", ld.lines.join("\n")), 0, "R7-loop-spec");
                }
                syn::visit::visit_expr_while(self, l);
            }
            Expr::Loop(l) => {
                self.loop_no += 1;
                let n = self.loop_no;
                if let Some(ld) = self.d.loops.get(&n) {
                    self.loops_done.push(n);
                    let (bs, _) = self.cx.f.range(l.body.brace_token.span.open());
                    self.cx.edit(bs, bs, format!("\n{}\n", ld.lines.join("\n")), 0, "R7-loop-spec");
                }
                syn::visit::visit_expr_loop(self, l);
            }
            Expr::Closure(c) => {
                self.closure_no += 1;
                let n = self.closure_no;
                // R15: a wildcard closure parameter `|_|` -> `|_vx_wN|` (Verus: "only variables are supported here"). The argument is
                // moved into the closure either way and never used; no extracted body changes meaning.
                for (k, p) in c.inputs.iter().enumerate() {
                    let w = match p {
                        syn::Pat::Wild(w) => Some(w.span()),
                        syn::Pat::Type(pt) => match &*pt.pat {
                            syn::Pat::Wild(w) => Some(w.span()),
                            _ => None,
                        },
                        _ => None,
                    };
                    if let Some(sp) = w {
                        let (ws, we) = self.cx.f.range(sp);
                        self.cx.edit(ws, we, format!("_vx_w{}", k), 0, "R15-closure-wildcard");
                    }
                }
                if let Some(cd) = self.d.closures.get(&n) {
                    self.closures_done.push(n);
                    if let (Some(r), syn::ReturnType::Type(_, ty)) = (&cd.ret, &c.output) {
                        let (ts, te) = self.cx.f.range(ty.span());
                        self.cx.edit(ts, ts, format!("({}: ", r), 0, "R7-ret-name");
                        self.cx.edit(te, te, ")".to_string(), 0, "R7-ret-name");
                    }
                    let (bs, be) = self.cx.f.range(c.body.span());
                    if let (Some(r), syn::ReturnType::Default) = (&cd.ret, &c.output) {
                        // a closure without a declared return type: `//@ ret k: T` adds ` -> (k: T)`; a non-block body is braced
                        // (`|x| e` -> `|x| -> (k: T) <spec> { e }`), which Verus' closure-contract syntax requires. Same closure.
                        if !r.contains(':') {
                            die("closure without return type: `//@ ret` needs `name: Type`");
                        }
                        let (_, oe) = self.cx.f.range(c.or2_token.span());
                        self.cx.edit(oe, oe, format!(" -> ({})", r), 1, "R7-ret-name");
                        if !matches!(&*c.body, Expr::Block(_)) {
                            self.cx.edit(bs, bs, "{ ".to_string(), -1, "R7-closure-brace");
                            self.cx.edit(be, be, " }".to_string(), -200001, "R7-closure-brace");
                        }
                    }
                    if !cd.spec.is_empty() {
                        self.cx.edit(bs, bs, format!("\n{}\n", cd.spec.join("\n")), 0, "R7-closure-spec");
                    }
                }
                syn::visit::visit_expr_closure(self, c);
            }
            Expr::Cast(c) => {
                // R11: `(x as &T)` (a reborrow coercion, e.g. of `&mut self`) -> `&*x`; Verus rejects reference casts
                if let syn::Type::Reference(tr) = &*c.ty {
                    if tr.mutability.is_none() {
                        let (s, e) = self.cx.f.range(c.span());
                        let inner = self.cx.f.slice(c.expr.span()).to_string();
                        self.cx.edit(s, e, format!("&*{}", inner), 0, "R11-reborrow-cast");
                        return;
                    }
                }
                syn::visit::visit_expr_cast(self, c);
            }
            Expr::Unsafe(u) => {
                // R8 (opt-in `//@ allow-unsafe`): `unsafe { B }` -> `{ B }`. The block's statements are unchanged; `use core::arch::..::X;`
                // items directly inside it are deleted, so the intrinsic name X resolves to the template's shim (whose contract is the
                // lane-wise semantics of the instruction: the unit's stated modelling assumption). Any other `use` inside the block is refused.
                if !self.d.allow_unsafe {
                    die("unsafe block in extracted function");
                }
                let (s, e) = self.cx.f.range(u.unsafe_token.span());
                self.cx.edit(s, e, String::new(), 0, "R8-unsafe-block");
                for st in &u.block.stmts {
                    if let Stmt::Item(Item::Use(us)) = st {
                        let (us_s, us_e) = self.cx.f.range(us.span());
                        let t = norm_ws(&self.cx.f.text[us_s..us_e]);
                        if t.starts_with("use core::arch::") {
                            r8_arch_use(self.cx, us_s, us_e, &t);
                        } else {
                            die(&format!("R8: unsupported `use` inside unsafe block at {}:{}", self.cx.f.rel, self.cx.f.line_of(us_s)));
                        }
                    }
                }
                self.visit_block(&u.block);
            }
            Expr::Lit(l) if matches!(l.lit, syn::Lit::ByteStr(_)) => {
                // R17: byte-string literal `b"ab"` -> `&[97u8, 98u8]` (the same `&'static [u8; N]` value by the language definition;
                // Verus keeps the contents of an array literal but treats a byte-string literal as an opaque constant)
                if let syn::Lit::ByteStr(bs) = &l.lit {
                    let v = bs.value();
                    let (s, e) = self.cx.f.range(l.span());
                    let t = if v.is_empty() {
                        "&[0u8; 0]".to_string()
                    } else {
                        format!("&[{}]", v.iter().map(|b| format!("{}u8", b)).collect::<Vec<_>>().join(", "))
                    };
                    self.cx.edit(s, e, t, 0, "R17-bytestr");
                }
            }
            Expr::MethodCall(mc)
                if !self.d.map_collect.is_empty()
                    && mc.method == "collect"
                    && mc.args.is_empty()
                    && mc.turbofish.is_none()
                    && matches!(&*mc.receiver, Expr::MethodCall(m) if m.method == "map" && m.args.len() == 1 && m.turbofish.is_none()) =>
            {
                // R24 (opt-in `//@ map-collect-loop <k>`): see directives.rs::MapCollect. A modelling assumption on `core` / `alloc` (Map::next =
                // inner.next().map(f); `collect::<Vec<_>>()` pushes every item in order), logged; BODY is the source text and is visited as usual.
                self.collect_no += 1;
                let n = self.collect_no;
                let k = match self.d.map_collect.iter().position(|x| x.nth == n) {
                    Some(k) => k,
                    None => {
                        syn::visit::visit_expr(self, e);
                        return;
                    }
                };
                let md = &self.d.map_collect[k];
                let m = match &*mc.receiver { Expr::MethodCall(m) => m, _ => unreachable!() };
                let (s, e2) = self.cx.f.range(mc.span());
                let recv = self.cx.f.slice(m.receiver.span()).to_string();
                let mut parts: Vec<Vec<String>> = vec![vec![]];
                for ln in &md.lines {
                    if ln.trim() == "---" { parts.push(vec![]); } else { parts.last_mut().unwrap().push(ln.clone()); }
                }
                while parts.len() < 5 { parts.push(vec![]); }
                let ty = md.ty.clone().unwrap_or("Vec<_>".to_string());
                let it = match &md.iter_name { Some(nm) => format!("{}: ", nm), None => String::new() };
                let (srcdecl, loopsrc) = match &md.src {
                    Some(nm) => (format!("let {} = {};\n", nm, recv), nm.clone()),
                    None => (String::new(), recv.clone()),
                };
                let head = format!("{{ let mut vx_out: {} = Vec::new();\n        {}{}\n        for ", ty, srcdecl, parts[0].join("\n"));
                match &m.args[0] {
                    Expr::Closure(cl) if cl.inputs.len() == 1 => {
                        let pat = match &cl.inputs[0] {
                            syn::Pat::Type(pt) => self.cx.f.slice(pt.pat.span()).to_string(),
                            other => self.cx.f.slice(other.span()).to_string(),
                        };
                        let (bs, be) = self.cx.f.range(cl.body.span());
                        self.cx.edit(s, bs, format!("{}{} in {}{}\n{}\n        {{ let vx_item = ", head, pat, it, loopsrc, parts[1].join("\n")), 0, "R24-map-collect-loop");
                        self.cx.edit(be, e2, format!(";\n{}\n            vx_out.push(vx_item);\n{}\n        }}\n{}\n        vx_out }}", parts[2].join("\n"), parts[3].join("\n"), parts[4].join("\n")), -300000, "R24-map-collect-loop");
                        self.visit_expr(&cl.body);
                    }
                    Expr::Path(p) => {
                        let f = self.cx.f.slice(p.span()).to_string();
                        self.cx.edit(s, e2, format!("{}vx_x in {}{}\n{}\n        {{ let vx_item = {}(vx_x);\n{}\n            vx_out.push(vx_item);\n{}\n        }}\n{}\n        vx_out }}", head, it, loopsrc, parts[1].join("\n"), f, parts[2].join("\n"), parts[3].join("\n"), parts[4].join("\n")), 0, "R24-map-collect-loop");
                    }
                    _ => die(&format!("map-collect-loop #{} in {}: the argument of `map` is neither a one-parameter closure nor a path", n, self.fn_path)),
                }
                self.map_collect_done[k] = true;
            }
            Expr::MethodCall(mc) if self.d.fold_loop.is_some() && !self.fold_loop_done && mc.method == "fold" && mc.args.len() == 2 && mc.turbofish.is_none() => {
                // R25 (opt-in `//@ fold-loop`): see directives.rs::FoldLoop — the definition of `Iterator::fold` in core, logged; E is the source text.
                let fl = self.d.fold_loop.as_ref().unwrap();
                let cl = match &mc.args[1] { Expr::Closure(c) if c.inputs.len() == 2 => c, _ => die(&format!("fold-loop in {}: second argument is not a two-parameter closure", self.fn_path)) };
                let id = |p: &syn::Pat| -> String { match p { syn::Pat::Ident(pi) if pi.by_ref.is_none() && pi.subpat.is_none() => pi.ident.to_string(), _ => die("fold-loop: closure parameters must be identifiers") } };
                let a = id(&cl.inputs[0]);
                let x = id(&cl.inputs[1]);
                let (s, e2) = self.cx.f.range(mc.span());
                let recv = self.cx.f.slice(mc.receiver.span()).to_string();
                let init = self.cx.f.slice(mc.args[0].span()).to_string();
                let mut parts: Vec<Vec<String>> = vec![vec![]];
                for ln in &fl.lines {
                    if ln.trim() == "---" { parts.push(vec![]); } else { parts.last_mut().unwrap().push(ln.clone()); }
                }
                while parts.len() < 4 { parts.push(vec![]); }
                let it = match &fl.iter_name { Some(nm) => format!("{}: ", nm), None => String::new() };
                let (srcdecl, loopsrc) = match &fl.src {
                    Some(nm) => (format!("let {} = {};\n", nm, recv), nm.clone()),
                    None => (String::new(), recv.clone()),
                };
                let (bs, be) = self.cx.f.range(cl.body.span());
                self.cx.edit(s, bs, format!("{{ let mut vx_acc = {};\n        {}{}\n        for {} in {}{}\n{}\n        {{ let {} = vx_acc;\n{}\n            vx_acc = ", init, srcdecl, parts[0].join("\n"), x, it, loopsrc, parts[1].join("\n"), a, parts[2].join("\n")), 0, "R25-fold-loop");
                self.cx.edit(be, e2, format!(";\n{}\n        }}\n        vx_acc }}", parts[3].join("\n")), -300000, "R25-fold-loop");
                self.visit_expr(&cl.body);
                self.fold_loop_done = true;
            }
            Expr::MethodCall(mc)
                if !self.d.eta_ctor.is_empty()
                    && mc.method == "map"
                    && mc.args.len() == 1
                    && matches!(&mc.args[0], Expr::Path(p) if p.path.segments.len() == 1 && self.d.eta_ctor.iter().any(|x| x.split(':').next().unwrap() == p.path.segments[0].ident.to_string())) =>
            {
                // R26 (opt-in `//@ eta-ctor <Name>[:<FieldType>]`): `x.map(Name)` -> `x.map(|vx_c| Name(vx_c))` for a tuple-struct constructor `Name`:
                // the same function by the definition of a tuple-struct constructor; Verus rejects "a datatype constructor as a function value".
                // With `:<FieldType>` the closure is written with its (trivially true, CHECKED by Verus) contract
                // `|vx_c: FieldType| -> (vx_r: Name) ensures vx_r == Name(vx_c) { Name(vx_c) }`, without which callers learn nothing from `map`.
                let (as_, ae) = self.cx.f.range(mc.args[0].span());
                let nm = self.cx.f.slice(mc.args[0].span()).to_string();
                let ent = self.d.eta_ctor.iter().find(|x| x.split(':').next().unwrap() == nm).unwrap();
                let t = match ent.split_once(':') {
                    Some((_, ty)) => format!("|vx_c: {}| -> (vx_r: {}) ensures vx_r == {}(vx_c) {{ {}(vx_c) }}", ty, nm, nm, nm),
                    None => format!("|vx_c| {}(vx_c)", nm),
                };
                self.cx.edit(as_, ae, t, 0, "R26-eta-ctor");
                self.visit_expr(&mc.receiver);
            }
            Expr::Reference(r)
                if self.d.full_range_mut
                    && r.mutability.is_some()
                    && matches!(&*r.expr, Expr::Index(ix) if matches!(&*ix.index, Expr::Range(rg) if rg.start.is_none() && rg.end.is_none() && matches!(rg.limits, syn::RangeLimits::HalfOpen(_)))) =>
            {
                // R27 (opt-in `//@ full-range-mut-as-slice`): `&mut v[..]` -> `v.as_mut_slice()` — see directives.rs
                let ix = match &*r.expr { Expr::Index(ix) => ix, _ => unreachable!() };
                let (s, e2) = self.cx.f.range(r.span());
                let base = self.cx.f.slice(ix.expr.span()).to_string();
                self.cx.edit(s, e2, format!("{}.as_mut_slice()", base), 0, "R27-full-range-mut");
            }
            Expr::MethodCall(mc)
                if self.d.unroll_all_any
                    && (mc.method == "all" || mc.method == "any")
                    && mc.turbofish.is_none()
                    && mc.args.len() == 1
                    && matches!(&mc.args[0], Expr::Closure(c) if c.inputs.len() == 1)
                    && matches!(&*mc.receiver, Expr::MethodCall(m) if m.method == "iter" && m.args.is_empty() && m.turbofish.is_none()
                        && matches!(&*m.receiver, Expr::Array(a) if a.elems.len() <= 8)) =>
            {
                // R29 (opt-in `//@ unroll-array-all-any`): see directives.rs — the definition of `Iterator::all` / `any` in core on an array literal.
                let cl = match &mc.args[0] { Expr::Closure(c) => c, _ => unreachable!() };
                let arr = match &*mc.receiver { Expr::MethodCall(m) => match &*m.receiver { Expr::Array(a) => a, _ => unreachable!() }, _ => unreachable!() };
                let pat = match &cl.inputs[0] { syn::Pat::Type(pt) => &*pt.pat, other => other };
                let (x, by_val) = match pat {
                    syn::Pat::Ident(pi) if pi.by_ref.is_none() && pi.subpat.is_none() => (pi.ident.to_string(), false),
                    syn::Pat::Reference(r) if r.mutability.is_none() => match &*r.pat {
                        syn::Pat::Ident(pi) if pi.by_ref.is_none() && pi.subpat.is_none() && pi.mutability.is_none() => (pi.ident.to_string(), true),
                        _ => die(&format!("unroll-array-all-any in {}: unsupported closure parameter pattern", self.fn_path)),
                    },
                    _ => die(&format!("unroll-array-all-any in {}: unsupported closure parameter pattern", self.fn_path)),
                };
                // the predicate text P (always-on expression rewrites applied) and the element texts, rendered separately and then replicated
                let mut sub_render = |this: &mut Self, ex: &'ast Expr| -> String {
                    let n0 = this.cx.edits.len();
                    this.visit_expr(ex);
                    let mut sub: Vec<Edit> = this.cx.edits.drain(n0..).collect();
                    let (bs, be) = this.cx.f.range(ex.span());
                    render(this.cx.f, bs, be, &mut sub).0
                };
                let ptxt = sub_render(self, &cl.body);
                let elems: Vec<String> = arr.elems.iter().map(|el| sub_render(self, el)).collect();
                let op = if mc.method == "all" { " && " } else { " || " };
                let mut out = String::from("{ ");
                for (k, t) in elems.iter().enumerate() {
                    out.push_str(&format!("let vx_e{} = {}; ", k, t));
                }
                if elems.is_empty() {
                    out.push_str(if mc.method == "all" { "true" } else { "false" });
                } else {
                    let terms: Vec<String> = (0..elems.len()).map(|k| format!("({{ let {} = {}vx_e{}; {} }})", x, if by_val { "" } else { "&" }, k, ptxt)).collect();
                    out.push_str(&terms.join(op));
                }
                out.push_str(" }");
                let (s, e2) = self.cx.f.range(mc.span());
                self.cx.edit(s, e2, out, 0, "R29-unroll-all-any");
            }
            Expr::MethodCall(mc) if mc.turbofish.is_none() && self.d.method_as.iter().any(|(m, _)| mc.method == m.as_str()) => {
                // R28 (opt-in `//@ method-as <method> <fn>`): `RECV.<method>(ARGS)` -> `<fn>(RECV, ARGS)`. <fn> is a shim declared in the template whose
                // external body is `recv.<method>(args)` itself (executed code unchanged) and whose contract is the ASSUMED specification of that std
                // method (see directives.rs). RECV and ARGS are visited as usual, so the shape of the expression stays under proof.
                let to = self.d.method_as.iter().find(|(m, _)| mc.method == m.as_str()).unwrap().1.clone();
                let (s, e2) = self.cx.f.range(mc.span());
                let (_, re) = self.cx.f.range(mc.receiver.span());
                let size = (e2 - s) as i32;
                self.cx.edit(s, s, format!("{}(", to), 100000 + size, "R28-method-as");
                if mc.args.is_empty() {
                    self.cx.edit(re, e2, ")".to_string(), 0, "R28-method-as");
                } else {
                    let (a0, _) = self.cx.f.range(mc.args[0].span());
                    self.cx.edit(re, a0, ", ".to_string(), 0, "R28-method-as");
                }
                self.visit_expr(&mc.receiver);
                for a in mc.args.iter() {
                    self.visit_expr(a);
                }
            }
            Expr::Call(c) if !self.d.call_as.is_empty() && matches!(&*c.func, Expr::Path(_)) => {
                // R16 (path-call form, opt-in `//@ call-as <callee> <fn>`): the callee path is replaced by a shim of the template whose
                // external body is the original call (executed code unchanged) and whose contract is the assumed specification.
                let (fs, fe) = self.cx.f.range(c.func.span());
                let txt = norm_ws(&self.cx.f.text[fs..fe]).replace(' ', "");
                if let Some((_, to)) = self.d.call_as.iter().find(|(from, _)| from.replace(' ', "") == txt) {
                    self.cx.edit(fs, fe, to.clone(), 0, "R16-call-as");
                }
                for a in c.args.iter() {
                    self.visit_expr(a);
                }
            }
            Expr::MethodCall(mc) if self.d.tryinto_as.is_some() && mc.method == "try_into" && mc.args.is_empty() && mc.turbofish.is_none() => {
                // R16 (opt-in `//@ try-into-as <fn>`): `e.try_into()` -> `<fn>(e)`. <fn> is a shim declared in the template whose external
                // body is `s.try_into()` itself (so the executed code is unchanged) and whose contract is the ASSUMED specification of
                // core's slice -> array conversion; Verus cannot attach a usable contract to the blanket `TryInto` impl directly.
                let name = self.d.tryinto_as.clone().unwrap();
                let (s, _) = self.cx.f.range(mc.span());
                let (_, re) = self.cx.f.range(mc.receiver.span());
                let (_, e2) = self.cx.f.range(mc.span());
                let size = (e2 - s) as i32;
                self.cx.edit(s, s, format!("{}(", name), 100000 - size, "R16-try-into");
                self.cx.edit(re, e2, ")".to_string(), 0, "R16-try-into");
                self.visit_expr(&mc.receiver);
            }
            _ => syn::visit::visit_expr(self, e),
        }
    }

    /// R2 on match arms (added for unit VSM: `#[cfg(curve25519_dalek_backend = "simd")] BackendKind::Avx2 => ..` in backend/mod.rs).
    /// Before this, an arm attribute was copied through and evaluated by rustc with NO cfg set (i.e. always false), whatever the unit's
    /// `//@cfg` said. Now the unit's cfg set decides: a cfg'd-out arm is deleted (incl. its trailing comma), a cfg'd-in arm loses the attribute.
    fn visit_arm(&mut self, a: &'ast syn::Arm) {
        if !a.attrs.is_empty() {
            let (s, e) = self.cx.f.range(a.span());
            if !self.cx.attrs(&a.attrs, (s, e), &[]) {
                return;
            }
        }
        syn::visit::visit_arm(self, a);
    }

    fn visit_macro(&mut self, m: &'ast syn::Macro) {
        let name = m.path.segments.last().unwrap().ident.to_string();
        let (s, e) = self.cx.f.range(m.span());
        match name.as_str() {
            "debug_assert" | "assert" => {
                let args = m
                    .parse_body_with(Punctuated::<Expr, syn::Token![,]>::parse_terminated)
                    .unwrap_or_else(|_| die("cannot parse assert! arguments"));
                let c = args.first().unwrap_or_else(|| die("empty assert"));
                let t = self.cx.f.slice(c.span()).to_string();
                // evaluated in exec mode (Rust's own literal typing, overflow checks inside the condition), then asserted
                self.cx.edit(s, e, format!("{{ let vx_cond: bool = {}; assert(vx_cond); }}", t), 0, "R3-assert");
            }
            "debug_assert_eq" | "assert_eq" => {
                let args = m
                    .parse_body_with(Punctuated::<Expr, syn::Token![,]>::parse_terminated)
                    .unwrap_or_else(|_| die("cannot parse assert_eq! arguments"));
                if args.len() < 2 {
                    die("assert_eq with <2 args");
                }
                let a = self.cx.f.slice(args[0].span()).to_string();
                let b = self.cx.f.slice(args[1].span()).to_string();
                self.cx.edit(s, e, format!("{{ let vx_cond: bool = ({}) == ({}); assert(vx_cond); }}", a, b), 0, "R3-assert");
            }
            _ => {
                if !self.d.allow_macros.contains(&name) {
                    die(&format!("unsupported macro {}! at {}:{}", name, self.cx.f.rel, self.cx.f.line_of(s)));
                }
            }
        }
    }
}

fn fold_const(cx: &mut Ctx, c: &syn::ItemConst) {
    if is_plain_lit(&c.expr) {
        return;
    }
    if let Some(v) = const_eval(&c.expr) {
        let ty = quote::ToTokens::to_token_stream(&c.ty).to_string();
        let (s, e) = cx.f.range(c.expr.span());
        let orig = const_print(&c.expr, &ty);
        cx.constfold.push(format!("    assert({} == {}{}) by (compute); // {} {}:{}", orig, v, ty, c.ident, cx.f.rel, cx.f.line_of(s)));
        cx.edit(s, e, format!("{}", v), 0, "R5-const-fold");
    }
}

/// R8 helper (added for unit IFMAF): a `use core::arch::<arch>::X;` item is deleted (name X then resolves to the template's shim);
/// a RENAMING import `use core::arch::<arch>::X as Y;` becomes `use crate::X as Y;`, so that Y is bound to the shim OF X (not to
/// whatever the template happens to call Y). Anything else (globs, groups) is refused.
fn r8_arch_use(cx: &mut Ctx, us_s: usize, us_e: usize, t: &str) {
    if let Some((path, alias)) = t.trim_end_matches(';').trim().rsplit_once(" as ") {
        let x = path.rsplit("::").next().unwrap_or("").trim().to_string();
        let y = alias.trim().to_string();
        let ok = |s: &str| !s.is_empty() && s.chars().all(|c| c.is_alphanumeric() || c == '_');
        if !ok(&x) || !ok(&y) || t.contains('{') {
            die(&format!("R8: unsupported renaming `use` at {}:{}", cx.f.rel, cx.f.line_of(us_s)));
        }
        cx.edit(us_s, us_e, format!("use crate::{} as {};", x, y), 0, "R8-arch-use-rename");
    } else {
        cx.edit(us_s, us_e, String::new(), 0, "R8-arch-use"); // unchanged behaviour (names keep their spelling)
    }
}

/// process one function (signature decoration + body rewriting). `d` is its directive.
fn process_fn(cx: &mut Ctx, sig: &syn::Signature, block: &Block, d: &FnDirective, fn_path: &str) {
    // R8 (opt-in `//@ allow-unsafe`, added for unit IFMAF): `unsafe fn f` -> `fn f` (its callers' `unsafe { }` blocks are dropped by R8 as
    // well), and `use core::arch::..::X;` items directly in the fn body are treated like those inside an unsafe block.
    if d.allow_unsafe {
        if let Some(u) = &sig.unsafety {
            let (s, e) = cx.f.range(u.span());
            cx.edit(s, e, String::new(), 0, "R8-unsafe-fn");
        }
        for st in &block.stmts {
            if let Stmt::Item(Item::Use(us)) = st {
                let (us_s, us_e) = cx.f.range(us.span());
                let t = norm_ws(&cx.f.text[us_s..us_e]);
                if t.starts_with("use core::arch::") {
                    r8_arch_use(cx, us_s, us_e, &t);
                }
            }
        }
    }
    // reference-typed parameters (for R4)
    let mut refs: Vec<String> = d.refvars.clone();
    for inp in &sig.inputs {
        match inp {
            syn::FnArg::Receiver(_) => refs.push("self".to_string()),
            syn::FnArg::Typed(pt) => {
                if let (syn::Pat::Ident(pi), syn::Type::Reference(_)) = (&*pt.pat, &*pt.ty) {
                    refs.push(pi.ident.to_string());
                }
            }
        }
    }
    // by-value `self` whose Self type is not a reference is not a ref operand; `self` in `impl X for &T` is.
    if let Some(syn::FnArg::Receiver(r)) = sig.inputs.first() {
        if r.reference.is_none() && !d.self_is_ref {
            refs.retain(|x| x != "self");
        }
    }
    if let Some(newname) = &d.rename {
        let (s, e) = cx.f.range(sig.ident.span());
        cx.edit(s, e, newname.clone(), 0, "R9-rename");
    }
    if let (Some(r), syn::ReturnType::Type(_, ty)) = (&d.ret, &sig.output) {
        let (ts, te) = cx.f.range(ty.span());
        cx.edit(ts, ts, format!("({}: ", r), 0, "R7-ret-name");
        cx.edit(te, te, ")".to_string(), 0, "R7-ret-name");
    }
    let (bs, _) = cx.f.range(block.brace_token.span.open());
    let (be, _) = cx.f.range(block.brace_token.span.close());
    if !d.spec.is_empty() {
        cx.edit(bs, bs, format!("\n{}\n", d.spec.join("\n")), 10, "R7-spec");
    }
    if d.external_body && !d.expect_body.is_empty() {
        let strip = |t: &str| t.chars().filter(|c| !c.is_whitespace()).collect::<String>();
        if strip(&cx.f.text[bs + 1..be]) != strip(&d.expect_body.join(" ")) {
            die(&format!("expect-body: the body of {} differs from the text its assumed contract was written for", fn_path));
        }
    }
    if d.external_body {
        // body is dropped: the function is an assumed stub with the real signature
        cx.edit(bs + 1, be, " unimplemented!() ".to_string(), 0, "R7-external-body");
        return;
    }
    let mut v = BodyVisitor {
        cx,
        d,
        ref_idents: refs,
        loop_no: 0,
        closure_no: 0,
        anchor_hits: vec![0; d.anchors.len()],
        anchor_done: vec![false; d.anchors.len()],
        loops_done: vec![],
        inner_done: vec![],
        closures_done: vec![],
        let_as_done: vec![false; d.let_as.len()],
        let_as_hits: vec![0; d.let_as.len()],
        map_fold_done: false,
        collect_no: 0,
        map_collect_done: vec![false; d.map_collect.len()],
        fold_loop_done: false,
        expr_as_hits: vec![0; d.expr_as.len()],
        fn_path: fn_path.to_string(),
    };
    v.visit_block(block);
    // at-start anchors: directly after the opening brace
    for (k, a) in d.anchors.iter().enumerate() {
        if a.kind == AnchorKind::AtStart {
            v.cx.edit(bs + 1, bs + 1, format!("\n{}\n", a.lines.join("\n")), 5, "R7-splice");
            v.anchor_done[k] = true;
        }
    }
    // at-end anchors
    for (k, a) in d.anchors.iter().enumerate() {
        if a.kind == AnchorKind::AtEnd {
            let pos = match block.stmts.last() {
                Some(st @ Stmt::Expr(_, None)) => v.cx.f.range(st.span()).0,
                _ => be,
            };
            v.cx.edit(pos, pos, format!("{}\n", a.lines.join("\n")), 199999, "R7-splice"); // above any R4 prefix at the same offset
            v.anchor_done[k] = true;
        }
    }
    for (k, a) in d.anchors.iter().enumerate() {
        if !v.anchor_done[k] {
            die(&format!("lost anchor `{}` #{} in {}", a.pat, a.nth, fn_path));
        }
    }
    for (k, la) in d.let_as.iter().enumerate() {
        if !v.let_as_done[k] {
            die(&format!("lost let-as `{}` in {}", la.var, fn_path));
        }
    }
    if d.map_fold.is_some() && !v.map_fold_done {
        die(&format!("lost map-fold-loop in {}", fn_path));
    }
    for (k, mc) in d.map_collect.iter().enumerate() {
        if !v.map_collect_done[k] {
            die(&format!("lost map-collect-loop #{} in {}", mc.nth, fn_path));
        }
    }
    if d.fold_loop.is_some() && !v.fold_loop_done {
        die(&format!("lost fold-loop in {}", fn_path));
    }
    for (k, ea) in d.expr_as.iter().enumerate() {
        if v.expr_as_hits[k] != 1 {
            die(&format!("expr-as `{}` in {}: {} expressions have the quoted text (exactly one expected)", ea.call, fn_path, v.expr_as_hits[k]));
        }
    }
    for n in d.loops.keys() {
        if !v.loops_done.contains(n) {
            die(&format!("lost loop #{} in {}", n, fn_path));
        }
    }
    for n in d.inner.keys() {
        if !v.inner_done.contains(n) {
            die(&format!("lost nested fn {} in {}", n, fn_path));
        }
    }
    for n in d.closures.keys() {
        if !v.closures_done.contains(n) {
            die(&format!("lost closure #{} in {}", n, fn_path));
        }
    }
}

/// apply the edits that fall inside [s,e) and return the new text plus a line map
fn render(f: &SrcFile, s: usize, e: usize, edits: &mut Vec<Edit>) -> (String, Vec<(usize, usize)>) {
    let mut mine: Vec<Edit> = edits.iter().filter(|x| x.start >= s && x.end <= e).cloned().collect();
    mine.sort_by(|a, b| (a.start, -a.prio, a.end).cmp(&(b.start, -b.prio, b.end)));
    // drop edits nested inside a deletion
    let mut out = String::new();
    let mut map: Vec<(usize, usize)> = vec![]; // (byte offset in out, src byte offset) for verbatim chunks
    let mut pos = s;
    for ed in &mine {
        if ed.start < pos {
            if ed.end <= pos {
                continue; // inside a deleted region
            }
            die(&format!("overlapping edits at {}:{} ({})", f.rel, f.line_of(ed.start), ed.rule));
        }
        if ed.start > pos {
            map.push((out.len(), pos));
            out.push_str(&f.text[pos..ed.start]);
        }
        out.push_str(&ed.text);
        pos = ed.end;
    }
    if pos < e {
        map.push((out.len(), pos));
        out.push_str(&f.text[pos..e]);
    }
    (out, map)
}

struct Emitted {
    text: String,
    // for each output line: source line (0 = spliced)
    src_lines: Vec<usize>,
}

fn emit(f: &SrcFile, s: usize, e: usize, edits: &mut Vec<Edit>) -> Emitted {
    let (text, map) = render(f, s, e, edits);
    // compute per-line mapping
    let mut src_lines = vec![];
    let mut off = 0usize;
    for line in text.split('\n') {
        // find verbatim chunk containing the first non-space char of this line
        let first = off + (line.len() - line.trim_start().len());
        let mut sl = 0usize;
        for (k, (o, so)) in map.iter().enumerate() {
            let end = if k + 1 < map.len() { map[k + 1].0 } else { text.len() };
            // chunk verbatim length: until next edit text; approximate by checking source equality
            if first >= *o && first < end {
                let delta = first - *o;
                let sp = so + delta;
                let lt = line.trim_start().as_bytes();
                if sp < f.text.len() && !lt.is_empty() && f.text.as_bytes()[sp] == lt[0] {
                    sl = f.line_of(sp);
                }
                break;
            }
        }
        src_lines.push(sl);
        off += line.len() + 1;
    }
    Emitted { text, src_lines }
}

/// R6: textual instantiation of a flat `macro_rules!` (single arm, `$x:frag` metavariables separated by literal tokens).
fn expand_macro(root: &str, ed: &ExpandDir) -> SrcFile {
    let path = format!("{}/{}", root, ed.file);
    let text = std::fs::read_to_string(&path).unwrap_or_else(|e| die(&format!("cannot read {}: {}", path, e)));
    // definition: macro_rules! NAME { ( matcher ) => { transcriber } ... }
    let defpat = format!("macro_rules! {}", ed.mac);
    let dpos = text.find(&defpat).unwrap_or_else(|| die(&format!("R6: macro_rules! {} not found in {}", ed.mac, ed.file)));
    let bytes = text.as_bytes();
    // helper: find matching close for the delimiter opening at `open`
    let matching = |open: usize| -> usize {
        let (o, c) = match bytes[open] {
            b'(' => (b'(', b')'),
            b'{' => (b'{', b'}'),
            b'[' => (b'[', b']'),
            _ => die("R6: expected delimiter"),
        };
        let mut depth = 0i32;
        let mut i = open;
        let mut in_line_comment = false;
        while i < bytes.len() {
            let ch = bytes[i];
            if in_line_comment {
                if ch == b'\n' {
                    in_line_comment = false;
                }
            } else if ch == b'/' && i + 1 < bytes.len() && bytes[i + 1] == b'/' {
                in_line_comment = true;
            } else if ch == o {
                depth += 1;
            } else if ch == c {
                depth -= 1;
                if depth == 0 {
                    return i;
                }
            }
            i += 1;
        }
        die("R6: unbalanced delimiters")
    };
    let body_open = dpos + text[dpos..].find('{').unwrap();
    let body_close = matching(body_open);
    let m_open = body_open + 1 + text[body_open + 1..].find('(').unwrap();
    let m_close = matching(m_open);
    let matcher = &text[m_open + 1..m_close];
    let t_open = m_close + text[m_close..].find('{').unwrap();
    let t_close = matching(t_open);
    if text[t_close + 1..body_close].trim().trim_matches(';').trim().len() > 0 {
        die("R6: macro has more than one arm");
    }
    let transcriber = &text[t_open + 1..t_close];
    let line_base = text[..t_open + 1].matches('\n').count();
    // matcher -> list of (literal-before, var)
    let mut vars: Vec<(String, String)> = vec![]; // (literal text preceding the var, var name)
    let mut rest = matcher;
    loop {
        match rest.find('$') {
            None => break,
            Some(p) => {
                let lit = rest[..p].to_string();
                let after = &rest[p + 1..];
                let colon = after.find(':').unwrap_or_else(|| die("R6: metavariable without fragment"));
                let name = after[..colon].trim().to_string();
                let frag_end = after[colon + 1..].find(|ch: char| !(ch.is_alphanumeric() || ch == '_')).map(|x| colon + 1 + x).unwrap_or(after.len());
                vars.push((lit, name));
                rest = &after[frag_end..];
            }
        }
    }
    // invocation: NAME! { ... } containing key, outside the definition
    let invpat = format!("{}!", ed.mac);
    let mut from = 0;
    let mut inv: Option<&str> = None;
    while let Some(p) = text[from..].find(&invpat) {
        let at = from + p;
        from = at + invpat.len();
        if at >= dpos && at <= body_close {
            continue;
        }
        let o = from + text[from..].find(|ch: char| ch == '{' || ch == '(').unwrap_or_else(|| die("R6: invocation without delimiter"));
        let c = matching(o);
        let args = &text[o + 1..c];
        if norm_ws(args).contains(&norm_ws(&ed.key)) {
            inv = Some(args);
            break;
        }
    }
    let args = inv.unwrap_or_else(|| die(&format!("R6: no invocation of {}! containing `{}`", ed.mac, ed.key)));
    // bind: for each var, skip its preceding literal (whitespace-insensitively), take text up to the next literal's first token
    let mut out = transcriber.to_string();
    let mut cur = args;
    let mut binds: Vec<(String, String)> = vec![];
    for (k, (lit, name)) in vars.iter().enumerate() {
        let litn: String = lit.chars().filter(|c| !c.is_whitespace()).collect();
        // consume literal
        let mut ci = 0usize;
        let mut matched = String::new();
        let cb: Vec<(usize, char)> = cur.char_indices().collect();
        let mut idx = 0;
        while matched.len() < litn.len() && idx < cb.len() {
            let (bi, ch) = cb[idx];
            if !ch.is_whitespace() {
                matched.push(ch);
            }
            ci = bi + ch.len_utf8();
            idx += 1;
        }
        if matched != litn {
            die(&format!("R6: invocation does not match the macro pattern near `{}`", lit.trim()));
        }
        cur = &cur[ci..];
        let next_lit: String = if k + 1 < vars.len() { vars[k + 1].0.chars().filter(|c| !c.is_whitespace()).collect() } else { String::new() };
        let end = if next_lit.is_empty() {
            cur.trim_end().trim_end_matches(',').len()
        } else {
            // next literal starts with its first non-space char (e.g. ','): find at depth 0
            let first = next_lit.chars().next().unwrap();
            let mut depth = 0i32;
            let mut e = cur.len();
            for (bi, ch) in cur.char_indices() {
                if ch == '(' || ch == '[' || ch == '{' {
                    depth += 1;
                } else if ch == ')' || ch == ']' || ch == '}' {
                    depth -= 1;
                } else if ch == first && depth == 0 {
                    e = bi;
                    break;
                }
            }
            e
        };
        binds.push((name.clone(), cur[..end].trim().to_string()));
        cur = &cur[end..];
    }
    // substitute longest names first
    binds.sort_by(|a, b| b.0.len().cmp(&a.0.len()));
    for (name, val) in &binds {
        out = out.replace(&format!("${}", name), val);
    }
    eprintln!("vx: R6 expanded {}!({}) with {:?}", ed.mac, ed.key, binds);
    SrcFile::from_text(&ed.file, out, line_base)
}

/// R13 data extraction: flatten the integer literals of a constant initialiser (source order) and compute a
/// shape signature that pins the layout (struct names, field names and order, array lengths).
fn flatten_data(e: &Expr, lits: &mut Vec<String>, f: &SrcFile) -> String {
    match e {
        Expr::Lit(l) => match &l.lit {
            syn::Lit::Int(i) => {
                lits.push(i.base10_digits().to_string());
                "#".to_string()
            }
            syn::Lit::Str(st) => {
                // a hexadecimal string constant such as PrimeField::MODULUS = "0x1000…": its numeric value
                let v = st.value();
                let h = v.trim_start_matches("0x");
                let mut acc: Vec<u32> = vec![0]; // little-endian base 1e9 big number
                for ch in h.chars() {
                    let d = ch.to_digit(16).unwrap_or_else(|| die("R13: non-hex string constant")) as u64;
                    let mut carry = d;
                    for limb in acc.iter_mut() {
                        let cur = (*limb as u64) * 16 + carry;
                        *limb = (cur % 1_000_000_000) as u32;
                        carry = cur / 1_000_000_000;
                    }
                    if carry > 0 {
                        acc.push(carry as u32);
                    }
                }
                let mut sdec = format!("{}", acc.last().unwrap());
                for limb in acc.iter().rev().skip(1) {
                    sdec.push_str(&format!("{:09}", limb));
                }
                lits.push(format!("spec_literal_int(\"{}\") as ", sdec));
                "hexstr".to_string()
            }
            _ => die("R13: non-integer literal in constant data"),
        },
        Expr::Unary(u) => {
            if let (syn::UnOp::Neg(_), Expr::Lit(l)) = (&u.op, &*u.expr) {
                if let syn::Lit::Int(i) = &l.lit {
                    lits.push(format!("-{}", i.base10_digits()));
                    return "#".to_string();
                }
            }
            die("R13: unsupported unary expression in constant data")
        }
        Expr::Array(a) => {
            let shapes: Vec<String> = a.elems.iter().map(|x| flatten_data(x, lits, f)).collect();
            let mut out = String::from("[");
            let mut i = 0;
            let mut first = true;
            while i < shapes.len() {
                let mut j = i;
                while j < shapes.len() && shapes[j] == shapes[i] {
                    j += 1;
                }
                if !first {
                    out.push(',');
                }
                first = false;
                out.push_str(&format!("{}*{}", j - i, shapes[i]));
                i = j;
            }
            out.push(']');
            out
        }
        Expr::Binary(_) | Expr::Cast(_) => {
            // literal-only arithmetic inside a data constant (e.g. `67108845 << 1`): evaluated like rule R5
            match const_eval(e) {
                Some(v) => {
                    lits.push(format!("{}", v));
                    "#".to_string()
                }
                None => die("R13: non-literal arithmetic in constant data"),
            }
        }
        Expr::Call(c) => {
            let name = norm_sel(f.slice(c.func.span()));
            // `u32x8::splat_const::<N>()` / `u64x4::splat_const::<N>()`: N in every lane
            if c.args.is_empty() && name.contains("splat_const::<") {
                let n = name.split("::<").nth(1).unwrap_or("").trim_end_matches('>').trim_end_matches("()").to_string();
                let lanes = if name.starts_with("u32x8") { 8 } else if name.starts_with("u64x4") { 4 } else { die("R13: splat_const of unknown vector type") };
                if n.parse::<u128>().is_err() {
                    die("R13: splat_const with a non-literal argument");
                }
                for _ in 0..lanes {
                    lits.push(n.clone());
                }
                return format!("{}()", name.split("::<").next().unwrap());
            }
            let args: Vec<String> = c.args.iter().map(|x| flatten_data(x, lits, f)).collect();
            format!("{}({})", name, args.join(","))
        }
        Expr::Struct(st) => {
            let name = norm_sel(f.slice(st.path.span()));
            let mut fs = vec![];
            for fv in &st.fields {
                let fname = match &fv.member {
                    syn::Member::Named(i) => i.to_string(),
                    syn::Member::Unnamed(i) => i.index.to_string(),
                };
                fs.push(format!("{}:{}", fname, flatten_data(&fv.expr, lits, f)));
            }
            if st.rest.is_some() {
                die("R13: struct update syntax in constant data");
            }
            format!("{}{{{}}}", name, fs.join(","))
        }
        Expr::Reference(r) => format!("&{}", flatten_data(&r.expr, lits, f)),
        Expr::Paren(p) => flatten_data(&p.expr, lits, f),
        Expr::Group(p) => flatten_data(&p.expr, lits, f),
        Expr::Path(p) => format!("@{}", norm_sel(f.slice(p.span()))),
        _ => die(&format!("R13: unsupported expression in constant data at {}:{}", f.rel, f.line_of(f.range(e.span()).0))),
    }
}

fn find_in_items<'x>(items: &'x [Item], path: &[String], f: &SrcFile) -> Vec<&'x Item> {
    // path: sequence like ["mod decompress", "fn step_1"] / ["struct X"] / ["const L"]
    if path.is_empty() {
        return vec![];
    }
    let seg = path[0].trim();
    let (kind, name) = match seg.split_once(' ') {
        Some((k, n)) => (k.trim(), n.trim()),
        None => ("fn", seg),
    };
    let mut out = vec![];
    for it in items {
        let m = match (kind, it) {
            ("mod", Item::Mod(m)) => m.ident == name,
            ("fn", Item::Fn(x)) => x.sig.ident == name,
            ("struct", Item::Struct(x)) => x.ident == name,
            ("const", Item::Const(x)) => x.ident == name,
            ("static", Item::Static(x)) => x.ident == name,
            ("type", Item::Type(x)) => x.ident == name,
            ("enum", Item::Enum(x)) => x.ident == name,
            _ => false,
        };
        if m {
            if path.len() == 1 {
                out.push(it);
            } else if let Item::Mod(m) = it {
                if let Some((_, its)) = &m.content {
                    out.extend(find_in_items(its, &path[1..], f));
                }
            } else if let Item::Fn(x) = it {
                // R23: item statements nested in the body of a free fn (`fn f :: struct S`)
                out.extend(find_in_stmt_items(&x.block, &path[1..], f));
            }
        }
        // R23: `impl T :: fn f :: struct S` — item statements nested in the body of a method of an inherent impl of T
        if kind == "impl" && path.len() >= 3 {
            if let Item::Impl(im) = it {
                if im.trait_.is_none() && norm_sel(f.slice(im.self_ty.span())) == norm_sel(name) {
                    let want = path[1].trim();
                    for ii in &im.items {
                        if let ImplItem::Fn(x) = ii {
                            if want == format!("fn {}", x.sig.ident) {
                                out.extend(find_in_stmt_items(&x.block, &path[2..], f));
                            }
                        }
                    }
                }
            }
        }
    }
    out
}

/// R23: the item statements (`struct` / `enum` / `impl` / `fn` / ..) directly inside a fn body, searched like module items
fn find_in_stmt_items<'x>(b: &'x Block, path: &[String], f: &SrcFile) -> Vec<&'x Item> {
    let mut out = vec![];
    for st in &b.stmts {
        if let Stmt::Item(it) = st {
            out.extend(find_in_items(std::slice::from_ref(it), path, f));
        }
    }
    out
}

/// R23: all item statements directly inside the body of the fn named by `spec` = `impl T :: fn f` or `fn f`
fn nested_items_of<'x>(items: &'x [Item], spec: &str, f: &SrcFile) -> Vec<&'x Item> {
    let parts: Vec<String> = spec.split(" :: ").map(|x| x.trim().to_string()).collect();
    let mut out = vec![];
    let mut blocks: Vec<&'x Block> = vec![];
    fn walk<'x>(items: &'x [Item], parts: &[String], f: &SrcFile, blocks: &mut Vec<&'x Block>) {
        for it in items {
            match it {
                Item::Mod(m) => {
                    if let Some((_, its)) = &m.content {
                        walk(its, parts, f, blocks);
                    }
                }
                Item::Fn(x) if parts.len() == 1 && parts[0] == format!("fn {}", x.sig.ident) => blocks.push(&x.block),
                Item::Impl(im) if parts.len() == 2 && im.trait_.is_none() && parts[0].starts_with("impl ") && norm_sel(f.slice(im.self_ty.span())) == norm_sel(&parts[0][5..]) => {
                    for ii in &im.items {
                        if let ImplItem::Fn(x) = ii {
                            if parts[1] == format!("fn {}", x.sig.ident) {
                                blocks.push(&x.block);
                            }
                        }
                    }
                }
                _ => {}
            }
        }
    }
    walk(items, &parts, f, &mut blocks);
    for b in blocks {
        for st in &b.stmts {
            if let Stmt::Item(it) = st {
                out.push(it);
            }
        }
    }
    out
}

fn item_attrs(it: &Item) -> &[Attribute] {
    match it {
        Item::Fn(x) => &x.attrs,
        Item::Struct(x) => &x.attrs,
        Item::Const(x) => &x.attrs,
        Item::Static(x) => &x.attrs,
        Item::Type(x) => &x.attrs,
        Item::Enum(x) => &x.attrs,
        Item::Impl(x) => &x.attrs,
        Item::Mod(x) => &x.attrs,
        _ => &[],
    }
}

fn find_impls<'x>(items: &'x [Item], sel: &str, cfg: &cfgeval::Cfg, f: &SrcFile, out: &mut Vec<&'x syn::ItemImpl>) {
    for it in items {
        match it {
            Item::Impl(im) => {
                if !cfg.attrs_enabled(&im.attrs) {
                    continue;
                }
                let ty = norm_sel(f.slice(im.self_ty.span()));
                let hdr = match &im.trait_ {
                    Some((_, p, _)) => format!("{}for{}", norm_sel(f.slice(p.span())), ty),
                    None => ty,
                };
                let want = norm_sel(&sel.replace(" for ", "for"));
                if hdr == want {
                    out.push(im);
                }
            }
            Item::Mod(m) => {
                if !cfg.attrs_enabled(&m.attrs) {
                    continue;
                }
                if let Some((_, its)) = &m.content {
                    find_impls(its, sel, cfg, f, out);
                }
            }
            _ => {}
        }
    }
}

/// R16 helper: the array-repeat expressions `[e; N]` of a constant initialiser (struct literal / constructor call / parenthesised)
fn collect_repeats<'a>(e: &'a Expr, out: &mut Vec<&'a syn::ExprRepeat>) {
    match e {
        Expr::Repeat(r) => out.push(r),
        Expr::Struct(s) => {
            for fl in &s.fields {
                collect_repeats(&fl.expr, out);
            }
        }
        Expr::Paren(p) => collect_repeats(&p.expr, out),
        Expr::Call(c) => {
            for a in &c.args {
                collect_repeats(a, out);
            }
        }
        _ => {}
    }
}

/// `//@include <path relative to the template>` is expanded textually
fn expand_includes(path: &str, depth: usize) -> String {
    if depth > 8 {
        die("include depth");
    }
    let tpl = std::fs::read_to_string(path).unwrap_or_else(|e| die(&format!("template {}: {}", path, e)));
    let dir = std::path::Path::new(path).parent().unwrap().to_path_buf();
    let mut out = String::new();
    for l in tpl.split_inclusive('\n') {
        if let Some(r) = l.trim().strip_prefix("//@include ") {
            // `$VX_GEN/<file>`: a file generated from the repo under test by the driver just before extraction
            let r = match (r.trim().strip_prefix("$VX_GEN/"), std::env::var("VX_GEN")) {
                (Some(rest), Ok(g)) => format!("{}/{}", g, rest),
                (Some(rest), Err(_)) => format!("lib/{}", rest),
                _ => r.trim().to_string(),
            };
            let p = if r.starts_with('/') { std::path::PathBuf::from(&r) } else { dir.join(&r) };
            out.push_str(&expand_includes(p.to_str().unwrap(), depth + 1));
            if !out.ends_with('\n') {
                out.push('\n');
            }
        } else {
            out.push_str(l);
        }
    }
    out
}

fn main() {
    let args: Vec<String> = std::env::args().collect();
    if args.len() != 5 {
        eprintln!("usage: vx <repo-root> <template.vx> <out.rs> <log.json>");
        std::process::exit(64);
    }
    let root = &args[1];
    let tpl = expand_includes(&args[2], 0);
    let unit = parse_template(&tpl);
    let cfg = cfgeval::Cfg::new(&unit.cfg);

    let mut files: HashMap<String, SrcFile> = HashMap::new();
    let mut out = String::new();
    let mut out_line = 1usize;
    let mut items_log: Vec<serde_json::Value> = vec![];
    let mut edit_log: Vec<serde_json::Value> = vec![];
    let mut constfold: Vec<String> = vec![];
    let mut rule_counts: BTreeMap<String, usize> = BTreeMap::new();
    let mut linemap: Vec<serde_json::Value> = vec![];

    let mut push = |out: &mut String, out_line: &mut usize, s: &str| {
        out.push_str(s);
        *out_line += s.matches('\n').count();
    };

    for seg in &unit.segments {
        match seg {
            Segment::Text(t) => push(&mut out, &mut out_line, t),
            Segment::ConstFoldHere => {
                push(&mut out, &mut out_line, "\u{0}CONSTFOLD\u{0}\n");
            }
            Segment::Expand(ed) => {
                let sf = expand_macro(root, ed);
                files.insert(format!("@{}", ed.alias), sf);
                *rule_counts.entry("R6-macro-expand".to_string()).or_default() += 1;
            }
            Segment::Data(dd) => {
                if !files.contains_key(&dd.file) {
                    files.insert(dd.file.clone(), SrcFile::load(root, &dd.file));
                }
                let f = &files[&dd.file];
                let mut lits = vec![];
                let shape;
                let sp;
                if dd.path[0].starts_with("impl ") {
                    // `impl <selector> :: const NAME`  or  `impl <selector> :: fn NAME` (all integer literals of the fn body)
                    let mut impls = vec![];
                    find_impls(&f.ast.items, dd.path[0][5..].trim(), &cfg, f, &mut impls);
                    let mut got: Option<(String, Span)> = None;
                    let want = dd.path.get(1).cloned().unwrap_or_default();
                    for im in &impls {
                        for ii in &im.items {
                            match ii {
                                ImplItem::Const(c) if want == format!("const {}", c.ident) && cfg.attrs_enabled(&c.attrs) => {
                                    got = Some((flatten_data(&c.expr, &mut lits, f), c.span()));
                                }
                                ImplItem::Fn(x) if want == format!("fn {}", x.sig.ident) && cfg.attrs_enabled(&x.attrs) => {
                                    struct LitV<'l> { lits: &'l mut Vec<String> }
                                    impl<'l, 'ast> Visit<'ast> for LitV<'l> {
                                        fn visit_lit_int(&mut self, i: &'ast syn::LitInt) { self.lits.push(i.base10_digits().to_string()); }
                                    }
                                    let mut lv = LitV { lits: &mut lits };
                                    lv.visit_block(&x.block);
                                    got = Some(("fn-body".to_string(), x.span()));
                                }
                                _ => {}
                            }
                        }
                    }
                    let (sh, s1) = got.unwrap_or_else(|| die(&format!("data item not found: {} :: {}", dd.file, dd.path.join(" :: "))));
                    shape = sh;
                    sp = s1;
                } else {
                    let found: Vec<&Item> =
                        find_in_items(&f.ast.items, &dd.path, f).into_iter().filter(|it| cfg.attrs_enabled(item_attrs(it))).collect();
                    if found.is_empty() {
                        die(&format!("data item not found: {} :: {}", dd.file, dd.path.join(" :: ")));
                    }
                    let (expr, s1) = match found[0] {
                        Item::Const(c) => (&*c.expr, c.span()),
                        Item::Static(c) => (&*c.expr, c.span()),
                        _ => die("R13: data item must be const or static"),
                    };
                    shape = flatten_data(expr, &mut lits, f);
                    sp = s1;
                }
                if let Some(want) = &dd.shape {
                    if want != &shape {
                        die(&format!("R13: shape of {} changed: expected {} found {}", dd.path.join("::"), want, shape));
                    }
                }
                let (s0, e0) = f.range(sp);
                let mut t = format!("// @data {} :: {} ({} literals) lines {}-{} shape={}\n", dd.file, dd.path.join(" :: "), lits.len(), f.line_of(s0), f.line_of(e0), shape);
                let chunk = if dd.chunk == 0 { lits.len().max(1) } else { dd.chunk };
                if lits.len() % chunk != 0 {
                    die(&format!("R13: {} literals not divisible by chunk {}", lits.len(), chunk));
                }
                let n = lits.len() / chunk;
                t.push_str(&format!("pub open spec fn {}_len() -> int {{ {} }}\n", dd.prefix, n));
                for k in 0..n {
                    let body: Vec<String> = lits[k * chunk..(k + 1) * chunk].iter().map(|x| format!("{}int", x)).collect();
                    t.push_str(&format!("pub open spec fn {}_{}() -> Seq<int> {{ seq![{}] }}\n", dd.prefix, k, body.join(", ")));
                }
                let gen_start = out_line;
                push(&mut out, &mut out_line, &t);
                items_log.push(serde_json::json!({
                    "kind": "data", "file": dd.file, "path": dd.path.join(" :: "), "src_lines": [f.line_of(s0), f.line_of(e0)],
                    "gen_lines": [gen_start, out_line - 1], "literals": lits.len(), "shape": shape, "props": serde_json::Value::Null, "external_body": false,
                }));
                *rule_counts.entry("R13-data".to_string()).or_default() += 1;
            }
            Segment::Item(idir) => {
                if !files.contains_key(&idir.file) {
                    files.insert(idir.file.clone(), SrcFile::load(root, &idir.file));
                }
                let f = &files[&idir.file];
                let item_cfg_owned;
                let cfg: &cfgeval::Cfg = if idir.extra_cfg.is_empty() {
                    &cfg
                } else {
                    let mut ents = unit.cfg.clone();
                    ents.extend(idir.extra_cfg.iter().cloned());
                    item_cfg_owned = cfgeval::Cfg::new(&ents);
                    &item_cfg_owned
                };
                // R30 (opt-in by the path form `//@item <file> :: trait T :: fn f`): a PROVIDED (default) method of the trait DEFINITION `T` is
                // extracted like a free fn item (same sub-directives, same rewrites): only the method's own text (signature + default body) is
                // emitted; the template supplies the enclosing `trait T { .. }` (or `impl X { .. }`) block around the directive. Logged as
                // `R30-trait-provided-fn`; a required method (no default body) or an unknown trait / method makes vx exit 2.
                if idir.path.len() == 2 && idir.path[0].trim().starts_with("trait ") {
                    let tname = idir.path[0].trim()[6..].trim().to_string();
                    let fseg = idir.path[1].trim();
                    let fname = fseg.strip_prefix("fn ").unwrap_or(fseg).trim().to_string();
                    let mut hit: Vec<&syn::TraitItemFn> = vec![];
                    fn walk_traits<'x>(items: &'x [Item], tname: &str, fname: &str, cfg: &cfgeval::Cfg, hit: &mut Vec<&'x syn::TraitItemFn>) {
                        for it in items {
                            match it {
                                Item::Trait(t) if t.ident == tname && cfg.attrs_enabled(&t.attrs) => {
                                    for ti in &t.items {
                                        if let syn::TraitItem::Fn(x) = ti {
                                            if x.sig.ident == fname && x.default.is_some() && cfg.attrs_enabled(&x.attrs) {
                                                hit.push(x);
                                            }
                                        }
                                    }
                                }
                                Item::Mod(m) if cfg.attrs_enabled(&m.attrs) => {
                                    if let Some((_, its)) = &m.content {
                                        walk_traits(its, tname, fname, cfg, hit);
                                    }
                                }
                                _ => {}
                            }
                        }
                    }
                    walk_traits(&f.ast.items, &tname, &fname, cfg, &mut hit);
                    if hit.len() < idir.nth {
                        die(&format!("provided trait method not found: {} :: trait {} :: fn {}", idir.file, tname, fname));
                    }
                    let x = hit[idir.nth - 1];
                    let mut cx = Ctx { f, cfg, edits: vec![], constfold: vec![], log: vec![] };
                    let (s, e) = f.range(x.span());
                    cx.attrs(&x.attrs, (s, e), &[]);
                    let d = idir.fnd.clone().unwrap_or_default();
                    if d.external_body {
                        die("R30: `external_body` on a provided trait method is not supported");
                    }
                    process_fn(&mut cx, &x.sig, x.default.as_ref().unwrap(), &d, &format!("{}::{}", tname, fname));
                    let em = emit(f, s, e, &mut cx.edits);
                    let gen_start = out_line;
                    for (k, sl) in em.src_lines.iter().enumerate() {
                        if *sl > 0 {
                            linemap.push(serde_json::json!([gen_start + k, idir.file, sl]));
                        }
                    }
                    push(&mut out, &mut out_line, &format!("// @src {}:{}\n", idir.file, f.line_of(s)));
                    let gen_start = out_line;
                    push(&mut out, &mut out_line, &em.text);
                    push(&mut out, &mut out_line, "\n");
                    items_log.push(serde_json::json!({
                        "kind": "item", "file": idir.file, "path": idir.path.join(" :: "),
                        "src_lines": [f.line_of(s), f.line_of(e)], "gen_lines": [gen_start, out_line - 1],
                        "props": d.props.clone(), "external_body": false,
                    }));
                    for ed in &cx.edits {
                        *rule_counts.entry(ed.rule.to_string()).or_default() += 1;
                    }
                    *rule_counts.entry("R30-trait-provided-fn".to_string()).or_default() += 1;
                    edit_log.extend(cx.log);
                    constfold.extend(cx.constfold);
                    continue;
                }
                let found: Vec<&Item> =
                    find_in_items(&f.ast.items, &idir.path, f).into_iter().filter(|it| cfg.attrs_enabled(item_attrs(it))).collect();
                if found.len() < idir.nth {
                    die(&format!("item not found: {} :: {}", idir.file, idir.path.join(" :: ")));
                }
                let it = found[idir.nth - 1];
                let mut cx = Ctx { f, cfg, edits: vec![], constfold: vec![], log: vec![] };
                let (s, e) = f.range(it.span());
                match it {
                    Item::Fn(x) => {
                        cx.attrs(&x.attrs, (s, e), &[]);
                        cx.vis(&x.vis);
                        let d = idir.fnd.clone().unwrap_or_default();
                        process_fn(&mut cx, &x.sig, &x.block, &d, &x.sig.ident.to_string());
                        if d.external_body {
                            let (fs, _) = f.range(x.vis.span());
                            let fs = if matches!(x.vis, syn::Visibility::Inherited) { f.range(x.sig.span()).0 } else { fs };
                            cx.edit(fs, fs, "#[verifier::external_body]\n".to_string(), 5, "R7-external-body");
                        }
                    }
                    Item::Struct(x) => {
                        cx.attrs(&x.attrs, (s, e), &idir.keep_derive);
                        cx.vis(&x.vis);
                        if idir.make_pub && matches!(x.vis, syn::Visibility::Inherited) {
                            // R10 (opt-in `make-pub`): a private struct is widened to `pub` (Verus requires types named in
                            // the contract of a trait-impl / pub fn to be public); no extracted body changes meaning.
                            let (ks, _) = f.range(x.struct_token.span());
                            cx.edit(ks, ks, "pub ".to_string(), 0, "R10-vis");
                        }
                        for fld in x.fields.iter() {
                            let r = f.range(fld.span());
                            cx.attrs(&fld.attrs, r, &[]);
                            cx.vis(&fld.vis);
                            if idir.make_pub && matches!(fld.vis, syn::Visibility::Inherited) {
                                // R10 (opt-in `make-pub`): private field -> pub (a contract must be able to name the field)
                                let fs = match &fld.ident {
                                    Some(id) => f.range(id.span()).0,
                                    None => f.range(fld.ty.span()).0,
                                };
                                cx.edit(fs, fs, "pub ".to_string(), 0, "R10-vis");
                            }
                        }
                    }
                    Item::Const(x) => {
                        cx.attrs(&x.attrs, (s, e), &[]);
                        cx.vis(&x.vis);
                        fold_const(&mut cx, x);
                    }
                    Item::Static(x) => {
                        cx.attrs(&x.attrs, (s, e), &[]);
                        if !idir.spec.is_empty() || idir.fold_args.is_some() {
                            cx.vis(&x.vis);
                        }
                        if let Some(ty) = &idir.fold_args {
                            // R5 applied to the literal-only arguments of the initialiser call (opt-in `fold-args=<ty>`)
                            if let Expr::Call(c) = &*x.expr {
                                for a in c.args.iter() {
                                    if is_plain_lit(a) {
                                        continue;
                                    }
                                    if let Some(v) = const_eval(a) {
                                        let (as_, ae) = f.range(a.span());
                                        let orig = const_print(a, ty);
                                        cx.constfold.push(format!("    assert({} == {}{}) by (compute); // {} {}:{}", orig, v, ty, x.ident, f.rel, f.line_of(as_)));
                                        cx.edit(as_, ae, format!("{}", v), 0, "R5-const-fold");
                                    }
                                }
                            } else {
                                die("fold-args: static initialiser is not a call");
                            }
                        }
                        if !idir.spec.is_empty() {
                            // R12 for a static: `static X: T = e;` -> `exec static X: T <ensures> { e }`
                            let (ks, _) = f.range(x.static_token.span());
                            cx.edit(ks, ks, "exec ".to_string(), 0, "R12-exec-const");
                            let (qs, qe) = f.range(x.eq_token.span());
                            cx.edit(qs, qe, format!("\n{}\n{{", idir.spec.join("\n")), 0, "R12-exec-const");
                            let (ss, se) = f.range(x.semi_token.span());
                            cx.edit(ss, se, " }".to_string(), 0, "R12-exec-const");
                        }
                    }
                    Item::Type(x) => {
                        cx.attrs(&x.attrs, (s, e), &[]);
                    }
                    Item::Enum(x) => {
                        cx.attrs(&x.attrs, (s, e), &idir.keep_derive);
                        cx.vis(&x.vis);
                        // R1/R2 on the variants (a cfg'd-out variant is deleted together with its trailing comma)
                        for pair in x.variants.pairs() {
                            let v = pair.value();
                            let (vs, ve) = f.range(v.span());
                            let ve = pair.punct().map(|p| f.range(p.span()).1).unwrap_or(ve);
                            cx.attrs(&v.attrs, (vs, ve), &[]);
                        }
                    }
                    _ => die("unsupported item kind"),
                }
                let em = emit(f, s, e, &mut cx.edits);
                let gen_start = out_line;
                for (k, sl) in em.src_lines.iter().enumerate() {
                    if *sl > 0 {
                        linemap.push(serde_json::json!([gen_start + k, idir.file, sl]));
                    }
                }
                push(&mut out, &mut out_line, &format!("// @src {}:{}\n", idir.file, f.line_of(s)));
                let gen_start = out_line;
                let _ = gen_start;
                push(&mut out, &mut out_line, &em.text);
                push(&mut out, &mut out_line, "\n");
                items_log.push(serde_json::json!({
                    "kind": "item", "file": idir.file, "path": idir.path.join(" :: "),
                    "src_lines": [f.line_of(s), f.line_of(e)], "gen_lines": [gen_start, out_line - 1],
                    "props": idir.fnd.as_ref().and_then(|d| d.props.clone()),
                    "external_body": idir.fnd.as_ref().map(|d| d.external_body).unwrap_or(false),
                }));
                for ed in &cx.edits {
                    *rule_counts.entry(ed.rule.to_string()).or_default() += 1;
                }
                edit_log.extend(cx.log);
                constfold.extend(cx.constfold);
            }
            Segment::Impl(imd) => {
                if !files.contains_key(&imd.file) {
                    files.insert(imd.file.clone(), SrcFile::load(root, &imd.file));
                }
                let f = &files[&imd.file];
                let mut impls = vec![];
                match &imd.in_fn {
                    // R23 (`//@in-fn impl T :: fn f`): the impl block is an item statement inside the body of that fn
                    Some(spec) => {
                        for it in nested_items_of(&f.ast.items, spec, f) {
                            find_impls(std::slice::from_ref(it), &imd.selector, &cfg, f, &mut impls);
                        }
                        *rule_counts.entry("R23-hoist-items".to_string()).or_default() += 1;
                    }
                    None => find_impls(&f.ast.items, &imd.selector, &cfg, f, &mut impls),
                }
                if impls.is_empty() {
                    die(&format!("impl not found: {} :: {}", imd.file, imd.selector));
                }
                // header from first impl containing the first fn
                let mut emitted_header = false;
                let mut body = String::new();
                let mut body_map: Vec<(usize, String, usize, usize)> = vec![]; // placeholder
                let _ = &mut body_map;
                let mut pieces: Vec<(Emitted, usize, String, Option<String>, bool)> = vec![];
                let mut header_text = String::new();
                let mut type_items = String::new();
                for fd in &imd.fns {
                    let mut hit: Vec<(&syn::ItemImpl, &syn::ImplItemFn)> = vec![];
                    for im in &impls {
                        for ii in &im.items {
                            if let ImplItem::Fn(x) = ii {
                                if x.sig.ident == fd.name.as_str() && cfg.attrs_enabled(&x.attrs) {
                                    hit.push((im, x));
                                }
                            }
                        }
                    }
                    if hit.len() < fd.nth {
                        die(&format!("fn not found: {} :: {} :: {}", imd.file, imd.selector, fd.name));
                    }
                    let (im, x) = hit[fd.nth - 1];
                    if !emitted_header {
                        emitted_header = true;
                        let (is, _) = f.range(im.impl_token.span());
                        let (bs, _) = f.range(im.brace_token.span.open());
                        header_text = match &imd.header {
                            Some(h) => h.clone(),
                            None => {
                                let mut h = String::new();
                                if im.unsafety.is_some() {
                                    die("unsafe impl");
                                }
                                h.push_str(f.text[is..bs].trim_end());
                                h
                            }
                        };
                        for ii in &im.items {
                            if let ImplItem::Type(t) = ii {
                                type_items.push_str("    ");
                                type_items.push_str(f.slice(t.span()));
                                type_items.push('\n');
                            }
                        }
                    }
                    let mut cx = Ctx { f, cfg: &cfg, edits: vec![], constfold: vec![], log: vec![] };
                    let (s, e) = f.range(x.span());
                    cx.attrs(&x.attrs, (s, e), &[]);
                    cx.vis(&x.vis);
                    let fpath = format!("{}::{}", imd.selector, fd.name);
                    // R22 (always on for a re-homed impl, i.e. `//@header` without `keep-types`): a type `Self::X` where `type X = T;` is an associated
                    // type item of the extracted impl block is written as `T` (the same type by that very definition); an inherent impl cannot
                    // name `Self::X`. Only type positions (signature, where clauses, annotations) are rewritten.
                    if imd.header.is_some() && !imd.keep_types {
                        struct AssocUse<'x> { hits: Vec<&'x syn::TypePath> }
                        impl<'x> Visit<'x> for AssocUse<'x> {
                            fn visit_type_path(&mut self, tp: &'x syn::TypePath) {
                                if tp.qself.is_none() && tp.path.segments.len() == 2 && tp.path.segments[0].ident == "Self" {
                                    self.hits.push(tp);
                                }
                                syn::visit::visit_type_path(self, tp);
                            }
                        }
                        let mut au = AssocUse { hits: vec![] };
                        au.visit_impl_item_fn(x);
                        for tp in au.hits {
                            let nm = tp.path.segments[1].ident.to_string();
                            for ii in &im.items {
                                if let ImplItem::Type(t) = ii {
                                    if t.ident == nm.as_str() {
                                        let (ts, te) = f.range(tp.span());
                                        cx.edit(ts, te, f.slice(t.ty.span()).to_string(), 0, "R22-assoc-type");
                                    }
                                }
                            }
                        }
                    }
                    let mut d = fd.clone();
                    // `self` by value in `impl Trait for &T` is a reference operand
                    if let syn::Type::Reference(_) = &*im.self_ty {
                        d.self_is_ref = true;
                    }
                    process_fn(&mut cx, &x.sig, &x.block, &d, &fpath);
                    if d.external_body {
                        let fs = if matches!(x.vis, syn::Visibility::Inherited) { f.range(x.sig.span()).0 } else { f.range(x.vis.span()).0 };
                        cx.edit(fs, fs, "#[verifier::external_body]\n    ".to_string(), 5, "R7-external-body");
                    }
                    let em = emit(f, s, e, &mut cx.edits);
                    for ed in &cx.edits {
                        *rule_counts.entry(ed.rule.to_string()).or_default() += 1;
                    }
                    edit_log.extend(cx.log);
                    constfold.extend(cx.constfold);
                    pieces.push((em, f.line_of(s), fd.name.clone(), fd.props.clone(), fd.external_body));
                    let _ = e;
                }
                // assoc consts
                let mut const_text = String::new();
                for (cn0, cspec) in &imd.consts {
                    // opt-in `//@const NAME expand-repeat` (R16): an array-repeat initialiser `[lit; N]` (both literals, N <= 64) is written
                    // out as the explicit N-element array literal — the same value; Verus cannot evaluate `[e; N]` in a dual-mode const.
                    let (cn, expand_repeat) = match cn0.strip_suffix(" expand-repeat") {
                        Some(n) => (n.trim().to_string(), true),
                        None => (cn0.clone(), false),
                    };
                    let cn = &cn;
                    let mut ok = false;
                    for im in &impls {
                        for ii in &im.items {
                            if let ImplItem::Const(c) = ii {
                                if c.ident == cn.as_str() && cfg.attrs_enabled(&c.attrs) {
                                    let mut cx = Ctx { f, cfg: &cfg, edits: vec![], constfold: vec![], log: vec![] };
                                    let (s, e) = f.range(c.span());
                                    cx.attrs(&c.attrs, (s, e), &[]);
                                    cx.vis(&c.vis);
                                    if expand_repeat {
                                        let mut reps: Vec<&syn::ExprRepeat> = vec![];
                                        collect_repeats(&c.expr, &mut reps);
                                        for r in reps {
                                            let n: usize = match &*r.len {
                                                Expr::Lit(syn::ExprLit { lit: syn::Lit::Int(i), .. }) => i.base10_parse().unwrap_or_else(|_| die("expand-repeat: bad length")),
                                                _ => die("expand-repeat: length is not an integer literal"),
                                            };
                                            if n > 64 || !matches!(&*r.expr, Expr::Lit(_)) {
                                                die("expand-repeat: element must be a literal and N <= 64");
                                            }
                                            let el = f.slice(r.expr.span()).to_string();
                                            let (rs, re) = f.range(r.span());
                                            cx.edit(rs, re, format!("[{}]", vec![el; n].join(", ")), 0, "R16-repeat-literal");
                                        }
                                    }
                                    if !cspec.is_empty() {
                                        // R12: `const X: T = e;` -> `exec const X: T <ensures> { e }` (Verus' form of a
                                        // constant whose initialiser runs exec code and carries a postcondition)
                                        let (ks, _) = f.range(c.const_token.span());
                                        cx.edit(ks, ks, "exec ".to_string(), 0, "R12-exec-const");
                                        let (qs, qe) = f.range(c.eq_token.span());
                                        cx.edit(qs, qe, format!("\n{}\n    {{", cspec.join("\n")), 0, "R12-exec-const");
                                        let (ss, se) = f.range(c.semi_token.span());
                                        cx.edit(ss, se, " }".to_string(), 0, "R12-exec-const");
                                    }
                                    let em = emit(f, s, e, &mut cx.edits);
                                    for ed in &cx.edits {
                                        if ed.rule == "R16-repeat-literal" {
                                            *rule_counts.entry(ed.rule.to_string()).or_default() += 1;
                                        }
                                    }
                                    const_text.push_str("    ");
                                    const_text.push_str(&em.text);
                                    const_text.push('\n');
                                    ok = true;
                                }
                            }
                        }
                    }
                    if !ok {
                        die(&format!("assoc const not found: {}", cn));
                    }
                }
                push(&mut out, &mut out_line, &format!("// @src {} :: impl {}\n", imd.file, imd.selector));
                push(&mut out, &mut out_line, &format!("{} {{\n", header_text));
                if imd.header.is_none() || imd.keep_types {
                    push(&mut out, &mut out_line, &type_items);
                }
                push(&mut out, &mut out_line, &const_text);
                let _ = body;
                for (em, sl, name, props, ext) in pieces {
                    push(&mut out, &mut out_line, &format!("    // @src {}:{}\n    ", imd.file, sl));
                    let gen_start = out_line;
                    for (k, l) in em.src_lines.iter().enumerate() {
                        if *l > 0 {
                            linemap.push(serde_json::json!([gen_start + k, imd.file, l]));
                        }
                    }
                    push(&mut out, &mut out_line, &em.text);
                    push(&mut out, &mut out_line, "\n");
                    items_log.push(serde_json::json!({
                        "kind": "fn", "file": imd.file, "path": format!("{} :: {}", imd.selector, name),
                        "src_line": sl, "gen_lines": [gen_start, out_line - 1], "props": props, "external_body": ext,
                    }));
                }
                push(&mut out, &mut out_line, "}\n");
            }
        }
    }

    // constfold obligations
    let cf = if constfold.is_empty() {
        String::from("// (no R5 const folds in this unit)\n")
    } else {
        format!("proof fn vx_constfold_obligations() {{\n{}\n}}\n", constfold.join("\n"))
    };
    if out.contains("\u{0}CONSTFOLD\u{0}\n") {
        out = out.replace("\u{0}CONSTFOLD\u{0}\n", &cf);
        // line numbers after the marker shift; recompute is handled by driver via `// @src` markers + linemap rebuild
        // To keep linemap exact we require the marker to be the LAST directive in the template.
    } else if !constfold.is_empty() {
        die("R5 folds happened but template has no //@constfold-obligations marker");
    }

    std::fs::write(&args[3], &out).unwrap();
    let log = serde_json::json!({
        "unit": unit.name, "cfg": unit.cfg, "items": items_log, "edits": edit_log,
        "rule_counts": rule_counts, "constfold": constfold.len(), "linemap": linemap,
        "files": files.keys().collect::<Vec<_>>(),
    });
    std::fs::write(&args[4], serde_json::to_string_pretty(&log).unwrap()).unwrap();
}
