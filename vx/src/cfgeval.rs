//! R2: evaluation of #[cfg(...)] predicates for a unit's declared configuration
use crate::die;
use proc_macro2::{TokenStream, TokenTree};
use syn::Attribute;

pub struct Cfg {
    /// entries like `feature="zeroize"`, `curve25519_dalek_bits="64"`, `debug_assertions`
    set: Vec<String>,
}

fn norm(s: &str) -> String {
    s.chars().filter(|c| !c.is_whitespace()).collect()
}

impl Cfg {
    pub fn new(entries: &[String]) -> Cfg {
        let mut set = vec![];
        for e in entries {
            // a //@cfg line may hold several space-separated entries
            for p in split_entries(e) {
                set.push(norm(&p));
            }
        }
        Cfg { set }
    }

    pub fn attrs_enabled(&self, attrs: &[Attribute]) -> bool {
        for a in attrs {
            if a.path().is_ident("cfg") {
                if let syn::Meta::List(l) = &a.meta {
                    if !self.eval_tokens(l.tokens.clone()) {
                        return false;
                    }
                }
            }
        }
        true
    }

    pub fn eval_tokens(&self, ts: TokenStream) -> bool {
        let toks: Vec<TokenTree> = ts.into_iter().collect();
        self.eval(&toks)
    }

    fn eval(&self, toks: &[TokenTree]) -> bool {
        // forms: ident | ident = "lit" | all(...) | any(...) | not(...)
        match toks {
            [TokenTree::Ident(i)] => self.set.contains(&i.to_string()),
            [TokenTree::Ident(i), TokenTree::Punct(p), TokenTree::Literal(l)] if p.as_char() == '=' => {
                self.set.contains(&norm(&format!("{}={}", i, l)))
            }
            [TokenTree::Ident(i), TokenTree::Group(g)] => {
                let parts = split_commas(g.stream());
                match i.to_string().as_str() {
                    "all" => parts.iter().all(|p| self.eval(p)),
                    "any" => parts.iter().any(|p| self.eval(p)),
                    "not" => !self.eval(&parts[0]),
                    other => die(&format!("unknown cfg operator {}", other)),
                }
            }
            _ => die(&format!("cannot evaluate cfg predicate: {:?}", toks.iter().map(|t| t.to_string()).collect::<Vec<_>>())),
        }
    }
}

fn split_commas(ts: TokenStream) -> Vec<Vec<TokenTree>> {
    let mut out = vec![vec![]];
    for t in ts {
        match &t {
            TokenTree::Punct(p) if p.as_char() == ',' => out.push(vec![]),
            _ => out.last_mut().unwrap().push(t),
        }
    }
    if out.last().map(|v| v.is_empty()).unwrap_or(false) {
        out.pop();
    }
    out
}

fn split_entries(s: &str) -> Vec<String> {
    // split on whitespace outside quotes
    let mut out = vec![];
    let mut cur = String::new();
    let mut q = false;
    for c in s.chars() {
        if c == '"' {
            q = !q;
        }
        if c.is_whitespace() && !q {
            if !cur.is_empty() {
                out.push(std::mem::take(&mut cur));
            }
        } else {
            cur.push(c);
        }
    }
    if !cur.is_empty() {
        out.push(cur);
    }
    out
}
