//! Native replay of the REAL serial-u32 field and scalar kernels (files mounted from the repo under test, unmodified),
//! built with overflow checks and debug assertions ON. Protocol: one request per stdin line, one reply per stdout line.
#![allow(dead_code, unused_imports, non_snake_case)]
#[path = "/repo/curve25519-dalek/src/backend/serial/u32/field.rs"]
pub mod field;
#[path = "/repo/curve25519-dalek/src/backend/serial/u32/scalar.rs"]
pub mod scalar;
pub mod constants {
    use crate::scalar::Scalar29;
    include!("constants_gen.rs");
}
use field::FieldElement2625 as F;
use scalar::Scalar29 as S;
use std::io::BufRead;

fn nums(t: &[&str]) -> Vec<u128> { t.iter().map(|x| x.parse::<u128>().unwrap()).collect() }
fn f5(v: &[u128]) -> F { let mut a = [0u32; 10]; for i in 0..10 { a[i] = v[i] as u32; } F(a) }
fn s5(v: &[u128]) -> S { let mut a = [0u32; 9]; for i in 0..9 { a[i] = v[i] as u32; } S(a) }
fn hex(s: &str) -> Vec<u8> { (0..s.len() / 2).map(|i| u8::from_str_radix(&s[2 * i..2 * i + 2], 16).unwrap()).collect() }
fn out<T: std::fmt::Display>(v: &[T]) -> String { v.iter().map(|x| x.to_string()).collect::<Vec<_>>().join(" ") }
fn hx(b: &[u8]) -> String { b.iter().map(|x| format!("{:02x}", x)).collect() }

fn run(line: &str) -> String {
    let t: Vec<&str> = line.split_whitespace().collect();
    let op = t[0];
    match op {
        "f.mul" => { let v = nums(&t[1..]); out(&(&f5(&v[0..10]) * &f5(&v[10..20])).0) }
        "f.add" => { let v = nums(&t[1..]); out(&(&f5(&v[0..10]) + &f5(&v[10..20])).0) }
        "f.sub" => { let v = nums(&t[1..]); out(&(&f5(&v[0..10]) - &f5(&v[10..20])).0) }
        "f.neg" => { let v = nums(&t[1..]); out(&(-&f5(&v[0..10])).0) }
        "f.square" => { let v = nums(&t[1..]); out(&f5(&v[0..10]).square().0) }
        "f.square2" => { let v = nums(&t[1..]); out(&f5(&v[0..10]).square2().0) }
        "f.pow2k" => { let v = nums(&t[1..]); out(&f5(&v[0..10]).pow2k(v[10] as u32).0) }
        "f.from_bytes" => { let b = hex(t[1]); let mut a = [0u8; 32]; a.copy_from_slice(&b); out(&F::from_bytes(&a).0) }
        "f.as_bytes" => { let v = nums(&t[1..]); hx(&f5(&v[0..10]).as_bytes()) }
        "s.from_bytes" => { let b = hex(t[1]); let mut a = [0u8; 32]; a.copy_from_slice(&b); out(&S::from_bytes(&a).0) }
        "s.from_bytes_wide" => { let b = hex(t[1]); let mut a = [0u8; 64]; a.copy_from_slice(&b); out(&S::from_bytes_wide(&a).0) }
        "s.as_bytes" => { let v = nums(&t[1..]); hx(&s5(&v[0..9]).as_bytes()) }
        "s.add" => { let v = nums(&t[1..]); out(&S::add(&s5(&v[0..9]), &s5(&v[9..18])).0) }
        "s.sub" => { let v = nums(&t[1..]); out(&S::sub(&s5(&v[0..9]), &s5(&v[9..18])).0) }
        "s.mul" => { let v = nums(&t[1..]); out(&S::mul(&s5(&v[0..9]), &s5(&v[9..18])).0) }
        "s.square" => { let v = nums(&t[1..]); out(&s5(&v[0..9]).square().0) }
        "s.montgomery_mul" => { let v = nums(&t[1..]); out(&S::montgomery_mul(&s5(&v[0..9]), &s5(&v[9..18])).0) }
        "s.mul_internal" => { let v = nums(&t[1..]); out(&S::mul_internal(&s5(&v[0..9]), &s5(&v[9..18]))) }
        "s.montgomery_reduce" => { let v = nums(&t[1..]); let mut z = [0u64; 17]; for i in 0..17 { z[i] = v[i] as u64; } out(&S::montgomery_reduce(&z).0) }
        "s.as_montgomery" => { let v = nums(&t[1..]); out(&s5(&v[0..9]).as_montgomery().0) }
        "s.from_montgomery" => { let v = nums(&t[1..]); out(&s5(&v[0..9]).from_montgomery().0) }
        _ => "UNKNOWN-OP".to_string(),
    }
}

fn main() {
    std::panic::set_hook(Box::new(|_| {}));
    let stdin = std::io::stdin();
    for line in stdin.lock().lines() {
        let line = line.unwrap();
        if line.trim().is_empty() { continue; }
        let l2 = line.clone();
        match std::panic::catch_unwind(move || run(&l2)) {
            Ok(s) => println!("OK {}", s),
            Err(e) => {
                let msg = if let Some(s) = e.downcast_ref::<String>() { s.clone() } else if let Some(s) = e.downcast_ref::<&str>() { s.to_string() } else { "panic".to_string() };
                println!("PANIC {}", msg.replace('\n', " "))
            }
        }
    }
}
