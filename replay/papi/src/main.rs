//! Native replay of the PUBLIC API of the three real crates (built from the repo under test with overflow checks and
//! debug assertions ON; the run-time dispatcher picks the backend this host supports, i.e. AVX2 here).
//! One request per stdin line, one reply per stdout line. Used only to search for / re-run failing inputs.
#![allow(non_snake_case, deprecated)]
use curve25519_dalek::edwards::{CompressedEdwardsY, EdwardsPoint};
use curve25519_dalek::montgomery::MontgomeryPoint;
use curve25519_dalek::ristretto::{CompressedRistretto, RistrettoPoint};
use curve25519_dalek::scalar::Scalar;
use curve25519_dalek::traits::{VartimeMultiscalarMul, MultiscalarMul};
use ed25519_dalek::{Signature, SigningKey, VerifyingKey, Sha512, Digest};
use std::hash::{Hash, Hasher};
use std::io::BufRead;

fn hex(s: &str) -> Vec<u8> { if s == "-" { return vec![]; } (0..s.len() / 2).map(|i| u8::from_str_radix(&s[2 * i..2 * i + 2], 16).unwrap()).collect() }
fn hx(b: &[u8]) -> String { if b.is_empty() { return "-".into(); } b.iter().map(|x| format!("{:02x}", x)).collect() }
fn a32(s: &str) -> [u8; 32] { let v = hex(s); let mut a = [0u8; 32]; a.copy_from_slice(&v); a }
fn a64(s: &str) -> [u8; 64] { let v = hex(s); let mut a = [0u8; 64]; a.copy_from_slice(&v); a }
fn sc_bits(s: &str) -> Scalar { Scalar::from_bits(a32(s)) }
fn opt(p: Option<EdwardsPoint>) -> String { match p { Some(q) => hx(q.compress().as_bytes()), None => "NONE".into() } }

/// rng that hands out the given 32 bytes (then repeats): makes the secret of Ephemeral/ReusableSecret a chosen value
struct FixedRng([u8; 32], usize);
impl rand_core::RngCore for FixedRng {
    fn next_u32(&mut self) -> u32 { let mut b = [0u8; 4]; self.fill_bytes(&mut b); u32::from_le_bytes(b) }
    fn next_u64(&mut self) -> u64 { let mut b = [0u8; 8]; self.fill_bytes(&mut b); u64::from_le_bytes(b) }
    fn fill_bytes(&mut self, dest: &mut [u8]) { for d in dest.iter_mut() { *d = self.0[self.1 % 32]; self.1 += 1; } }
    fn try_fill_bytes(&mut self, dest: &mut [u8]) -> Result<(), rand_core::Error> { self.fill_bytes(dest); Ok(()) }
}
impl rand_core::CryptoRng for FixedRng {}

fn run(line: &str) -> String {
    let t: Vec<&str> = line.split_whitespace().collect();
    match t[0] {
        "ed.decompress" => opt(CompressedEdwardsY(a32(t[1])).decompress()),
        "ed.add" => { let p = CompressedEdwardsY(a32(t[1])).decompress().unwrap(); let q = CompressedEdwardsY(a32(t[2])).decompress().unwrap(); hx((p + q).compress().as_bytes()) }
        "ed.sub" => { let p = CompressedEdwardsY(a32(t[1])).decompress().unwrap(); let q = CompressedEdwardsY(a32(t[2])).decompress().unwrap(); hx((p - q).compress().as_bytes()) }
        "ed.eq" => { let p = CompressedEdwardsY(a32(t[1])).decompress().unwrap(); let q = CompressedEdwardsY(a32(t[2])).decompress().unwrap(); format!("{}", (p == q) as u8) }
        "ed.double" => { let p = CompressedEdwardsY(a32(t[1])).decompress().unwrap(); hx((p + p).compress().as_bytes()) }
        "ed.cofactor" => { let p = CompressedEdwardsY(a32(t[1])).decompress().unwrap(); format!("{} {} {}", hx(p.mul_by_cofactor().compress().as_bytes()), p.is_small_order() as u8, p.is_torsion_free() as u8) }
        "ed.mul" => { let p = CompressedEdwardsY(a32(t[1])).decompress().unwrap(); hx((p * sc_bits(t[2])).compress().as_bytes()) }
        "ed.mul_base" => hx(EdwardsPoint::mul_base(&sc_bits(t[1])).compress().as_bytes()),
        "ed.double_base" => { let p = CompressedEdwardsY(a32(t[1])).decompress().unwrap(); hx(EdwardsPoint::vartime_double_scalar_mul_basepoint(&sc_bits(t[2]), &p, &sc_bits(t[3])).compress().as_bytes()) }
        "ed.msm" | "ed.msm_vartime" | "ed.msm_opt" => {
            // ed.msm <n> <point> <scalar> ... ; points "NONE" allowed for msm_opt
            let n: usize = t[1].parse().unwrap();
            let mut ps = vec![]; let mut ss = vec![];
            for i in 0..n { let p = t[2 + 2 * i]; ps.push(if p == "NONE" { None } else { CompressedEdwardsY(a32(p)).decompress() }); ss.push(sc_bits(t[3 + 2 * i])); }
            match t[0] {
                "ed.msm" => hx(EdwardsPoint::multiscalar_mul(ss.iter(), ps.iter().map(|p| p.unwrap())).compress().as_bytes()),
                "ed.msm_vartime" => hx(EdwardsPoint::vartime_multiscalar_mul(ss.iter(), ps.iter().map(|p| p.unwrap())).compress().as_bytes()),
                _ => opt(EdwardsPoint::optional_multiscalar_mul(ss.iter(), ps.into_iter())),
            }
        }
        "ed.to_montgomery" => { let p = CompressedEdwardsY(a32(t[1])).decompress().unwrap(); hx(p.to_montgomery().as_bytes()) }
        "ris.decompress" => match CompressedRistretto(a32(t[1])).decompress() { Some(p) => hx(p.compress().as_bytes()), None => "NONE".into() },
        "ris.from_uniform" => hx(RistrettoPoint::from_uniform_bytes(&a64(t[1])).compress().as_bytes()),
        "mont.to_edwards" => opt(MontgomeryPoint(a32(t[1])).to_edwards(t[2].parse().unwrap())),
        "mont.eq" => format!("{}", (MontgomeryPoint(a32(t[1])) == MontgomeryPoint(a32(t[2]))) as u8),
        "mont.hash" => { let mut h = std::collections::hash_map::DefaultHasher::new(); MontgomeryPoint(a32(t[1])).hash(&mut h); format!("{}", h.finish()) }
        "mont.mul" => hx((MontgomeryPoint(a32(t[1])) * sc_bits(t[2])).as_bytes()),
        "mont.mul_clamped" => hx(MontgomeryPoint(a32(t[1])).mul_clamped(a32(t[2])).as_bytes()),
        "mont.mul_base_clamped" => hx(MontgomeryPoint::mul_base_clamped(a32(t[1])).as_bytes()),
        "x25519" => hx(&x25519_dalek::x25519(a32(t[1]), a32(t[2]))),
        "x25519.static_dh" => { let s = x25519_dalek::StaticSecret::from(a32(t[1])); let pk = x25519_dalek::PublicKey::from(a32(t[2])); let ss = s.diffie_hellman(&pk); format!("{} {}", hx(ss.as_bytes()), ss.was_contributory() as u8) }
        "x25519.ephemeral_dh" => { let s = x25519_dalek::EphemeralSecret::random_from_rng(FixedRng(a32(t[1]), 0)); let me = x25519_dalek::PublicKey::from(&s); let pk = x25519_dalek::PublicKey::from(a32(t[2])); let ss = s.diffie_hellman(&pk); format!("{} {} {}", hx(ss.as_bytes()), ss.was_contributory() as u8, hx(me.as_bytes())) }
        "x25519.reusable_dh" => { let s = x25519_dalek::ReusableSecret::random_from_rng(FixedRng(a32(t[1]), 0)); let me = x25519_dalek::PublicKey::from(&s); let pk = x25519_dalek::PublicKey::from(a32(t[2])); let ss = s.diffie_hellman(&pk); let ss2 = s.diffie_hellman(&pk); format!("{} {} {} {}", hx(ss.as_bytes()), ss.was_contributory() as u8, hx(me.as_bytes()), (ss.as_bytes() == ss2.as_bytes()) as u8) }
        "x25519.public" => { let s = x25519_dalek::StaticSecret::from(a32(t[1])); hx(x25519_dalek::PublicKey::from(&s).as_bytes()) }
        // ---- serde through real bincode (fixed-int little-endian): tuples of 32 u8 for the curve types, length-prefixed bytes for the ed25519 types
        "serde.ed_de" => match bincode::deserialize::<EdwardsPoint>(&hex(t[1])) { Ok(p) => hx(p.compress().as_bytes()), Err(_) => "ERR".into() },
        "serde.ris_de" => match bincode::deserialize::<RistrettoPoint>(&hex(t[1])) { Ok(p) => hx(p.compress().as_bytes()), Err(_) => "ERR".into() },
        "serde.cey_de" => match bincode::deserialize::<CompressedEdwardsY>(&hex(t[1])) { Ok(p) => hx(p.as_bytes()), Err(_) => "ERR".into() },
        "serde.cris_de" => match bincode::deserialize::<CompressedRistretto>(&hex(t[1])) { Ok(p) => hx(p.as_bytes()), Err(_) => "ERR".into() },
        "serde.mont_de" => match bincode::deserialize::<MontgomeryPoint>(&hex(t[1])) { Ok(p) => hx(p.as_bytes()), Err(_) => "ERR".into() },
        "serde.scalar_de" => match bincode::deserialize::<Scalar>(&hex(t[1])) { Ok(p) => hx(p.as_bytes()), Err(_) => "ERR".into() },
        "serde.ed_ser" => { let p = CompressedEdwardsY(a32(t[1])).decompress().unwrap(); hx(&bincode::serialize(&p).unwrap()) }
        "serde.ris_ser" => { let p = CompressedRistretto(a32(t[1])).decompress().unwrap(); hx(&bincode::serialize(&p).unwrap()) }
        "serde.scalar_ser" => hx(&bincode::serialize(&Scalar::from_bytes_mod_order(a32(t[1]))).unwrap()),
        "serde.mont_ser" => hx(&bincode::serialize(&MontgomeryPoint(a32(t[1]))).unwrap()),
        "serde.vk_ser" => match VerifyingKey::from_bytes(&a32(t[1])) { Ok(v) => hx(&bincode::serialize(&v).unwrap()), Err(_) => "BADKEY".into() },
        "serde.vk_de" => match bincode::deserialize::<VerifyingKey>(&hex(t[1])) { Ok(v) => hx(v.as_bytes()), Err(_) => "ERR".into() },
        "serde.sk_ser" => hx(&bincode::serialize(&SigningKey::from_bytes(&a32(t[1]))).unwrap()),
        "serde.sk_de" => match bincode::deserialize::<SigningKey>(&hex(t[1])) { Ok(v) => hx(&v.to_bytes()), Err(_) => "ERR".into() },
        "serde.sig_ser" => hx(&bincode::serialize(&Signature::from_bytes(&a64(t[1]))).unwrap()),
        "serde.sig_de" => match bincode::deserialize::<Signature>(&hex(t[1])) { Ok(v) => hx(&v.to_bytes()), Err(_) => "ERR".into() },
        // the self-describing route (serde_json: a JSON array of numbers reaches `visit_seq`, which bincode never does for `deserialize_bytes` types)
        "serde.json_de" => {
            let js = format!("[{}]", hex(t[2]).iter().map(|x| x.to_string()).collect::<Vec<_>>().join(","));
            match t[1] {
                "vk" => match serde_json::from_str::<VerifyingKey>(&js) { Ok(v) => hx(v.as_bytes()), Err(_) => "ERR".into() },
                "sk" => match serde_json::from_str::<SigningKey>(&js) { Ok(v) => hx(&v.to_bytes()), Err(_) => "ERR".into() },
                "ed" => match serde_json::from_str::<EdwardsPoint>(&js) { Ok(p) => hx(p.compress().as_bytes()), Err(_) => "ERR".into() },
                "ris" => match serde_json::from_str::<RistrettoPoint>(&js) { Ok(p) => hx(p.compress().as_bytes()), Err(_) => "ERR".into() },
                "cey" => match serde_json::from_str::<CompressedEdwardsY>(&js) { Ok(p) => hx(p.as_bytes()), Err(_) => "ERR".into() },
                "cris" => match serde_json::from_str::<CompressedRistretto>(&js) { Ok(p) => hx(p.as_bytes()), Err(_) => "ERR".into() },
                "mont" => match serde_json::from_str::<MontgomeryPoint>(&js) { Ok(p) => hx(p.as_bytes()), Err(_) => "ERR".into() },
                "scalar" => match serde_json::from_str::<Scalar>(&js) { Ok(p) => hx(p.as_bytes()), Err(_) => "ERR".into() },
                _ => "UNKNOWN".into(),
            }
        }
        "serde.xpk_rt" => { let pk = x25519_dalek::PublicKey::from(a32(t[1])); let b = bincode::serialize(&pk).unwrap(); let q: x25519_dalek::PublicKey = bincode::deserialize(&b).unwrap(); format!("{} {}", hx(&b), hx(q.as_bytes())) }
        "sc.from_canonical" => { let r = Scalar::from_canonical_bytes(a32(t[1])); if bool::from(r.is_some()) { hx(r.unwrap().as_bytes()) } else { "NONE".into() } }
        "sc.from_bits" => hx(sc_bits(t[1]).as_bytes()),
        "sc.reduce32" => hx(Scalar::from_bytes_mod_order(a32(t[1])).as_bytes()),
        "sc.reduce64" => hx(Scalar::from_bytes_mod_order_wide(&a64(t[1])).as_bytes()),
        "sc.add" => hx((Scalar::from_bytes_mod_order(a32(t[1])) + Scalar::from_bytes_mod_order(a32(t[2]))).as_bytes()),
        "sc.sub" => hx((Scalar::from_bytes_mod_order(a32(t[1])) - Scalar::from_bytes_mod_order(a32(t[2]))).as_bytes()),
        "sc.mul" => hx((Scalar::from_bytes_mod_order(a32(t[1])) * Scalar::from_bytes_mod_order(a32(t[2]))).as_bytes()),
        "sc.neg" => hx((-Scalar::from_bytes_mod_order(a32(t[1]))).as_bytes()),
        "sc.invert" => hx(Scalar::from_bytes_mod_order(a32(t[1])).invert().as_bytes()),
        "sc.from_u64" => hx(Scalar::from(t[1].parse::<u64>().unwrap()).as_bytes()),
        "sig.keypair" => { let sk = SigningKey::from_bytes(&a32(t[1])); hx(sk.verifying_key().as_bytes()) }
        "sig.sign" => { use ed25519_dalek::Signer; let sk = SigningKey::from_bytes(&a32(t[1])); hx(&sk.sign(&hex(t[2])).to_bytes()) }
        "sig.sign_ph" => { let sk = SigningKey::from_bytes(&a32(t[1])); let mut h = Sha512::new(); h.update(&hex(t[2])); let c = hex(t[3]); match sk.sign_prehashed(h, Some(&c)) { Ok(s) => hx(&s.to_bytes()), Err(_) => "ERR".into() } }
        "sig.sk_verify_strict" => { let sk = SigningKey::from_bytes(&a32(t[1])); let sig = Signature::from_bytes(&a64(t[2])); format!("{}", sk.verify_strict(&hex(t[3]), &sig).is_ok() as u8) }
        "sig.verify" | "sig.verify_strict" => {
            use ed25519_dalek::Verifier;
            let vk = match VerifyingKey::from_bytes(&a32(t[1])) { Ok(v) => v, Err(_) => return "BADKEY".into() };
            let sig = Signature::from_bytes(&a64(t[2]));
            let m = hex(t[3]);
            let ok = match t[0] { "sig.verify" => vk.verify(&m, &sig).is_ok(), _ => vk.verify_strict(&m, &sig).is_ok() };
            format!("{}", ok as u8)
        }
        "sig.verify_ph" | "sig.verify_ph_strict" => {
            let vk = match VerifyingKey::from_bytes(&a32(t[1])) { Ok(v) => v, Err(_) => return "BADKEY".into() };
            let sig = Signature::from_bytes(&a64(t[2]));
            let mut h = Sha512::new(); h.update(&hex(t[3])); let c = hex(t[4]);
            let ok = if t[0] == "sig.verify_ph" { vk.verify_prehashed(h, Some(&c), &sig).is_ok() } else { vk.verify_prehashed_strict(h, Some(&c), &sig).is_ok() };
            format!("{}", ok as u8)
        }
        "sig.vk_try_from" => { let b = hex(t[1]); match VerifyingKey::try_from(&b[..]) { Ok(v) => hx(v.as_bytes()), Err(_) => "ERR".into() } }
        "sig.sk_try_from" => { let b = hex(t[1]); match SigningKey::try_from(&b[..]) { Ok(v) => hx(&v.to_bytes()), Err(_) => "ERR".into() } }
        "sig.sig_from_slice" => { let b = hex(t[1]); match Signature::from_slice(&b[..]) { Ok(v) => hx(&v.to_bytes()), Err(_) => "ERR".into() } }
        "sig.esk_from_slice" => { let b = hex(t[1]); match ed25519_dalek::hazmat::ExpandedSecretKey::from_slice(&b[..]) { Ok(_) => "OK".into(), Err(_) => "ERR".into() } }
        "ed.from_slice" => { let b = hex(t[1]); match CompressedEdwardsY::from_slice(&b[..]) { Ok(v) => hx(v.as_bytes()), Err(_) => "ERR".into() } }
        "ris.from_slice" => { let b = hex(t[1]); match CompressedRistretto::from_slice(&b[..]) { Ok(v) => hx(v.as_bytes()), Err(_) => "ERR".into() } }
        // RNG-driven constructors through a deterministic rng that repeats a 32-byte seed (FixedRng): the 64 octets drawn are seed || seed
        "rnd.scalar" => { use group::ff::Field; let a = Scalar::random(&mut FixedRng(a32(t[1]), 0)); let b = <Scalar as Field>::random(FixedRng(a32(t[1]), 0)); format!("{} {}", hx(a.as_bytes()), hx(b.as_bytes())) }
        "rnd.ris" => { use group::Group; let a = RistrettoPoint::random(&mut FixedRng(a32(t[1]), 0)); let b = <RistrettoPoint as Group>::random(FixedRng(a32(t[1]), 0)); format!("{} {}", hx(a.compress().as_bytes()), hx(b.compress().as_bytes())) }
        // only called with a seed that is a valid non-identity encoding (the real loop would not terminate otherwise: every draw is the seed)
        "rnd.ed" => { use group::Group; let a = <EdwardsPoint as Group>::random(FixedRng(a32(t[1]), 0)); hx(a.compress().as_bytes()) }
        "grp.ed" => {
            // group-trait view of an Edwards point: trait is_torsion_free, into_subgroup.is_some, clear_cofactor, GroupEncoding round trip
            use group::cofactor::CofactorGroup; use group::GroupEncoding;
            let p = CompressedEdwardsY(a32(t[1])).decompress().unwrap();
            let tf = bool::from(CofactorGroup::is_torsion_free(&p)); let sub = bool::from(p.into_subgroup().is_some());
            let fb = <EdwardsPoint as GroupEncoding>::from_bytes(&a32(t[1]));
            format!("{} {} {} {}", tf as u8, sub as u8, hx(&group::GroupEncoding::to_bytes(&p.clear_cofactor())), if bool::from(fb.is_some()) { hx(&fb.unwrap().to_bytes()) } else { "NONE".into() })
        }
        "grp.ris_from_bytes" => { use group::GroupEncoding; let fb = <RistrettoPoint as GroupEncoding>::from_bytes(&a32(t[1])); if bool::from(fb.is_some()) { hx(&fb.unwrap().to_bytes()) } else { "NONE".into() } }
        "grp.scalar" => {
            use group::ff::{Field, PrimeField};
            let s = Scalar::from_bytes_mod_order(a32(t[1]));
            let inv = Field::invert(&s);
            let fr = <Scalar as PrimeField>::from_repr(a32(t[1])); let frv = <Scalar as PrimeField>::from_repr_vartime(a32(t[1]));
            format!("{} {} {} {}", if bool::from(inv.is_some()) { hx(inv.unwrap().as_bytes()) } else { "NONE".into() }, bool::from(fr.is_some()) as u8, frv.is_some() as u8, bool::from(s.is_odd()) as u8)
        }
        "grp.consts" => {
            use group::ff::PrimeField;
            format!("{} {} {} {} {}", hx(Scalar::ROOT_OF_UNITY.as_bytes()), hx(Scalar::ROOT_OF_UNITY_INV.as_bytes()), hx(Scalar::TWO_INV.as_bytes()), hx(Scalar::DELTA.as_bytes()), hx(Scalar::MULTIPLICATIVE_GENERATOR.as_bytes()))
        }
        "sig.keypair_import" => { let r = SigningKey::from_keypair_bytes(&a64(t[1])); format!("{}", r.is_ok() as u8) }
        _ => "UNKNOWN-OP".into(),
    }
}
fn main() {
    std::panic::set_hook(Box::new(|_| {}));
    let stdin = std::io::stdin();
    for line in stdin.lock().lines() {
        let line = line.unwrap();
        if line.trim().is_empty() { continue; }
        let l2 = line.clone();
        match std::panic::catch_unwind(move || run(&l2)) {
            Ok(s) => println!("OK {}", s),
            Err(e) => { let msg = if let Some(s) = e.downcast_ref::<String>() { s.clone() } else if let Some(s) = e.downcast_ref::<&str>() { s.to_string() } else { "panic".to_string() }; println!("PANIC {}", msg.replace('\n', " ")) }
        }
    }
}
