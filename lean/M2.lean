/-
  M2.lean — Lean 4 / Mathlib proof of the "square-root-of-ratio axiom" M2 of the Verus project
  (/verif/contracts/lib/axiom_sqrt_ratio.vx : `axiom_M2_sqrt_ratio`).

  Statement (RFC 9496 §4.2 / RFC 8032 §5.1.3 candidate root): in a finite field with q ≡ 5 (mod 8) elements, with
  i² = -1 and v ≠ 0, the candidate  r = (u v³)(u v⁷)^((q-5)/8)  satisfies  v r² ∈ {u, -u, i u, -(i u)},  and
  v r² ∈ {u, -u}  ⇔  ∃ x, v x² = u.

  Contents
    §1 definitions mirroring the Verus spec functions `sqrt_cand`, `is_sq_ratio`
    §2 the theorem over an ARBITRARY finite field `F` with `Fintype.card F % 8 = 5` and any `i` with `i^2 = -1`
    §3 instantiation at F = ZMod (2^255-19), i = `sqrt_m1()`, exponent `p58()`, assuming only `Nat.Prime (2^255-19)`
    §4 INTEGER level: the Verus spec functions transliterated over `ℤ` with `%`, and the axiom in exactly the Verus
       phrasing, derived from §3 — the int-mod-p ↔ ZMod p bridge is formal here
  No `sorry`, no extra axioms.
-/
import Mathlib

namespace M2

/-! ## §1 Definitions (mirror of lib/axiom_sqrt_ratio.vx) -/

section Defs
variable {F : Type*} [CommRing F]

/-- Verus `sqrt_cand(u, v)` with the exponent `p58()` as a parameter `m`:
    `let v3 = fmul(fsq(v), v); let v7 = fmul(fsq(v3), v); fmul(fmul(u, v3), fpow(fmul(u, v7), p58()))`. -/
def sqrtCand (m : ℕ) (u v : F) : F :=
  let v3 := v ^ 2 * v
  let v7 := v3 ^ 2 * v
  (u * v3) * (u * v7) ^ m

/-- Verus `is_sq_ratio(u, v) = exists|x: int| 0 <= x < p() && fmul(v, fsq(x)) == u`. -/
def isSqRatio (u v : F) : Prop := ∃ x : F, v * x ^ 2 = u

end Defs

/-! ## §2 The theorem over a finite field with q ≡ 5 (mod 8) elements -/

section Finite
variable {F : Type*} [Field F] [Fintype F]

/-- **M2 / `axiom_M2_sqrt_ratio`** over any finite field with `q % 8 = 5` elements.  Verus text:
    ```
    requires 0 <= u < p(), 0 < v < p()
    ensures ({ let c = fmul(v, fsq(sqrt_cand(u, v)));
       (c == u || c == fneg(u) || c == fmul(sqrt_m1(), u) || c == fneg(fmul(sqrt_m1(), u)))
       && ((c == u || c == fneg(u)) <==> is_sq_ratio(u, v)) })
    ``` -/
theorem m2_sqrt_ratio (hq : Fintype.card F % 8 = 5) (i : F) (hi : i ^ 2 = -1) (u v : F) (hv : v ≠ 0) :
    let c := v * (sqrtCand ((Fintype.card F - 5) / 8) u v) ^ 2
    (c = u ∨ c = -u ∨ c = i * u ∨ c = -(i * u)) ∧ ((c = u ∨ c = -u) ↔ isSqRatio u v) := by
  intro c
  obtain ⟨k, hk⟩ : ∃ k, Fintype.card F = 8 * k + 5 := ⟨Fintype.card F / 8, by omega⟩
  have hk' : (Fintype.card F - 5) / 8 = k := by omega
  have hF : ringChar F ≠ 2 := by
    intro h
    have := FiniteField.even_card_iff_char_two.mp h
    omega
  -- c = u * w^(2k+1)  with  w = u v^7
  have hc : c = u * (u * v ^ 7) ^ (2 * k + 1) := by
    show v * (sqrtCand ((Fintype.card F - 5) / 8) u v) ^ 2 = _
    rw [hk']
    simp only [sqrtCand]
    ring
  clear_value c
  subst hc
  by_cases hu : u = 0
  · subst hu
    have h0 : (0 : F) * (0 * v ^ 7) ^ (2 * k + 1) = 0 := by ring
    rw [h0]
    refine ⟨Or.inl rfl, ?_⟩
    constructor
    · intro _; exact ⟨0, by ring⟩
    · intro _; exact Or.inl rfl
  · have hw0 : u * v ^ 7 ≠ 0 := mul_ne_zero hu (pow_ne_zero 7 hv)
    generalize hw : u * v ^ 7 = w at hw0 ⊢
    generalize hz : w ^ (2 * k + 1) = z
    -- z is a 4th root of unity
    have hz4 : z ^ 4 = 1 := by
      rw [← hz, ← pow_mul]
      have e : (2 * k + 1) * 4 = Fintype.card F - 1 := by omega
      rw [e]
      exact FiniteField.pow_card_sub_one_eq_one w hw0
    have hz2 : z ^ 2 = 1 ∨ z ^ 2 = -1 := by
      have h : (z ^ 2 - 1) * (z ^ 2 + 1) = 0 := by linear_combination hz4
      rcases mul_eq_zero.mp h with h | h
      · left; linear_combination h
      · right; linear_combination h
    -- z^2 = 1  ⇔  z = ±1  ⇔  c = ±u
    have hpm : (u * z = u ∨ u * z = -u) ↔ z ^ 2 = 1 := by
      constructor
      · rintro (h | h)
        · have : z = 1 := mul_left_cancel₀ hu (by rw [h, mul_one])
          rw [this]; ring
        · have : z = -1 := mul_left_cancel₀ hu (by rw [h]; ring)
          rw [this]; ring
      · intro h
        have h' : (z - 1) * (z + 1) = 0 := by linear_combination h
        rcases mul_eq_zero.mp h' with h' | h'
        · left
          have : z = 1 := by linear_combination h'
          rw [this]; ring
        · right
          have : z = -1 := by linear_combination h'
          rw [this]; ring
    -- Euler's criterion:  z^2 = w^(q/2) = 1  ⇔  w is a square
    have heuler : z ^ 2 = 1 ↔ IsSquare w := by
      rw [FiniteField.isSquare_iff hF hw0, ← hz, ← pow_mul]
      have e : (2 * k + 1) * 2 = Fintype.card F / 2 := by omega
      rw [e]
    -- w = u v^7 is a square  ⇔  u / v is a square
    have hsq : IsSquare w ↔ isSqRatio u v := by
      constructor
      · rintro ⟨s, hs⟩
        refine ⟨s / v ^ 4, ?_⟩
        have hs' : s ^ 2 = u * v ^ 7 := by rw [hw, hs]; ring
        rw [div_pow, ← mul_div_assoc, hs']
        field_simp
      · rintro ⟨x, hx⟩
        exact ⟨v ^ 4 * x, by rw [← hw, ← hx]; ring⟩
    constructor
    · rcases hz2 with h | h
      · rcases hpm.mpr h with h' | h'
        · exact Or.inl h'
        · exact Or.inr (Or.inl h')
      · have h' : (z - i) * (z + i) = 0 := by linear_combination h - hi
        rcases mul_eq_zero.mp h' with h' | h'
        · right; right; left
          have : z = i := by linear_combination h'
          rw [this]; ring
        · right; right; right
          have : z = -i := by linear_combination h'
          rw [this]; ring
    · rw [hpm, heuler, hsq]

end Finite

/-! ## §3 Instantiation at F = ZMod (2^255 - 19) — assuming only that 2^255 - 19 is prime -/
namespace Inst25519

/-- Verus `p()` (lib/field_spec.vx). -/
abbrev P : ℕ := 57896044618658097711785492504343953926634992332820282019728792003956564819949
/-- Verus `sqrt_m1()` (lib/axiom_sqrt_ratio.vx) = `r255_sqrt_m1()` (lib/ris_spec.vx). -/
abbrev SQRT_M1 : ZMod P := 19681161376707505956807079304988542015446066515923890162744021073123829784752
/-- Verus `p58()` (lib/fg_spec.vx, lib/ed_fg_spec.vx, lib/ris_fg_spec.vx). -/
abbrev p58 : ℕ := 7237005577332262213973186563042994240829374041602535252466099000494570602493

theorem P_eq : P = 2 ^ 255 - 19 := by norm_num
theorem P_mod_8 : P % 8 = 5 := by norm_num
theorem p58_eq : p58 = (P - 5) / 8 := by norm_num

/-- `sqrt_m1()^2 = -1` (the Verus `m2_sanity` compute check), kernel-checked here. -/
theorem sqrt_m1_sq : SQRT_M1 ^ 2 = -1 := by reduce_mod_char

/-- Literal consistency: `sqrt_m1() = 2^((p-1)/4)` (RFC 8032 §5.1.3). -/
theorem sqrt_m1_eq : SQRT_M1 = 2 ^ ((P - 1) / 4) := by
  have : (P - 1) / 4 = 14474011154664524427946373126085988481658748083205070504932198000989141204987 := by
    norm_num
  rw [this]
  reduce_mod_char

/-- **`axiom_M2_sqrt_ratio`** over GF(2^255-19), with i = `sqrt_m1()` and the exponent `p58()`,
    assuming only that 2^255-19 is prime. -/
theorem m2_sqrt_ratio_25519 [Fact (Nat.Prime P)] (u v : ZMod P) (hv : v ≠ 0) :
    let c := v * (sqrtCand p58 u v) ^ 2
    (c = u ∨ c = -u ∨ c = SQRT_M1 * u ∨ c = -(SQRT_M1 * u)) ∧ ((c = u ∨ c = -u) ↔ isSqRatio u v) := by
  have hcard : Fintype.card (ZMod P) = P := ZMod.card P
  have h := m2_sqrt_ratio (F := ZMod P) (by rw [hcard]; exact P_mod_8) SQRT_M1 sqrt_m1_sq u v hv
  rw [hcard, ← p58_eq] at h
  exact h

/-! Sanity (vacuity guard, as `m2_sanity` on the Verus side; no primality needed): for u = 4, v = 1 (a square ratio)
    the check value is -u; for u = 2, v = 1 (2 is a non-residue) it is i*u. -/
theorem cand_v1 {F : Type*} [CommRing F] (m : ℕ) (u : F) : sqrtCand m u 1 = u * u ^ m := by
  simp [sqrtCand]

theorem pw4 : (4 : ZMod P) ^ p58
    = 9840580688353752978403539652494271007723033257961945081372010536561914892376 := by
  reduce_mod_char

theorem pw2 : (2 : ZMod P) ^ p58
    = 38788602997682801834296285904666247971040529424372086091236406538540197302351 := by
  reduce_mod_char

example : (1 : ZMod P) * (sqrtCand p58 4 1) ^ 2 = -4 := by
  rw [cand_v1, pw4]
  reduce_mod_char

example : (1 : ZMod P) * (sqrtCand p58 2 1) ^ 2 = SQRT_M1 * 2 := by
  rw [cand_v1, pw2]
  reduce_mod_char

/-! ## §4 INTEGER level — exact transliteration of lib/field_spec.vx / lib/axiom_sqrt_ratio.vx and of the axiom

The Verus spec functions are re-defined over `ℤ` with `%` (Lean's `%` on `ℤ` is the Euclidean remainder, like Verus's
`%` on `int` for a positive modulus) and `axiom_M2_sqrt_ratio` is proved in exactly the Verus phrasing from the
`ZMod P` theorem above; the int-mod-p ↔ ZMod p bridge is FORMAL here. -/
namespace IntLevel

/-- Verus `p()`. -/
def p : ℤ := 57896044618658097711785492504343953926634992332820282019728792003956564819949
/-- Verus `fneg(a) = (0 - a) % p()`. -/
def fneg (a : ℤ) : ℤ := (0 - a) % p
/-- Verus `fmul(a, b) = (a * b) % p()`. -/
def fmul (a b : ℤ) : ℤ := (a * b) % p
/-- Verus `fsq(a) = (a * a) % p()`. -/
def fsq (a : ℤ) : ℤ := (a * a) % p
/-- Verus `fpow(x, e) = if e == 0 { 1 } else { fmul(x, fpow(x, (e - 1) as nat)) }`. -/
def fpow (x : ℤ) : ℕ → ℤ
  | 0 => 1
  | e + 1 => fmul x (fpow x e)
/-- Verus `sqrt_m1()`. -/
def sqrt_m1 : ℤ := 19681161376707505956807079304988542015446066515923890162744021073123829784752
/-- Verus `is_sq_ratio(u, v) = exists|x: int| 0 <= x < p() && fmul(v, fsq(x)) == u`. -/
def is_sq_ratio (u v : ℤ) : Prop := ∃ x : ℤ, 0 ≤ x ∧ x < p ∧ fmul v (fsq x) = u
/-- Verus `sqrt_cand(u, v)`. -/
def sqrt_cand (u v : ℤ) : ℤ :=
  let v3 := fmul (fsq v) v
  let v7 := fmul (fsq v3) v
  fmul (fmul u v3) (fpow (fmul u v7) p58)

/-! ### The bridge -/

theorem p_eq : p = (P : ℤ) := by norm_num [p, P]
theorem p_pos : 0 < p := by norm_num [p]
theorem sqrt_m1_cast : ((sqrt_m1 : ℤ) : ZMod P) = SQRT_M1 := by norm_num [sqrt_m1, SQRT_M1]

/-- "canonical representative". -/
def canon (x : ℤ) : Prop := 0 ≤ x ∧ x < p

theorem canon_mod (a : ℤ) : canon (a % p) :=
  ⟨Int.emod_nonneg a p_pos.ne', Int.emod_lt_of_pos a p_pos⟩

theorem cast_mod (a : ℤ) : ((a % p : ℤ) : ZMod P) = (a : ZMod P) := by
  rw [p_eq, ZMod.intCast_mod]

/-- canonical integers are equal iff their classes are. -/
theorem cast_eq_iff {a b : ℤ} (ha : canon a) (hb : canon b) : (a : ZMod P) = (b : ZMod P) ↔ a = b := by
  constructor
  · intro h
    have h' := (ZMod.intCast_eq_intCast_iff' a b P).mp h
    rw [← p_eq, Int.emod_eq_of_lt ha.1 ha.2, Int.emod_eq_of_lt hb.1 hb.2] at h'
    exact h'
  · intro h; rw [h]

theorem cast_fneg (a : ℤ) : ((fneg a : ℤ) : ZMod P) = -(a : ZMod P) := by
  rw [fneg, cast_mod, Int.cast_sub, Int.cast_zero, zero_sub]
theorem cast_fmul (a b : ℤ) : ((fmul a b : ℤ) : ZMod P) = (a : ZMod P) * (b : ZMod P) := by
  rw [fmul, cast_mod, Int.cast_mul]
theorem cast_fsq (a : ℤ) : ((fsq a : ℤ) : ZMod P) = (a : ZMod P) ^ 2 := by
  rw [fsq, cast_mod, Int.cast_mul, sq]
theorem cast_fpow (x : ℤ) (e : ℕ) : ((fpow x e : ℤ) : ZMod P) = (x : ZMod P) ^ e := by
  induction e with
  | zero => simp [fpow]
  | succ e ih => rw [fpow, cast_fmul, ih, pow_succ, mul_comm]

/-- (generic exponent `m`, so that nothing tries to evaluate `fpow _ p58` by unfolding) -/
theorem cast_sqrt_cand_aux (m : ℕ) (u v : ℤ) :
    ((fmul (fmul u (fmul (fsq v) v)) (fpow (fmul u (fmul (fsq (fmul (fsq v) v)) v)) m) : ℤ) : ZMod P)
      = sqrtCand m (u : ZMod P) (v : ZMod P) := by
  simp only [sqrtCand, cast_fmul, cast_fsq, cast_fpow]

theorem cast_sqrt_cand (u v : ℤ) :
    ((sqrt_cand u v : ℤ) : ZMod P) = sqrtCand p58 (u : ZMod P) (v : ZMod P) :=
  cast_sqrt_cand_aux p58 u v

theorem is_sq_ratio_iff (u v : ℤ) (hu : canon u) :
    is_sq_ratio u v ↔ isSqRatio (u : ZMod P) (v : ZMod P) := by
  constructor
  · rintro ⟨x, _, _, hx⟩
    refine ⟨(x : ZMod P), ?_⟩
    rw [← hx, cast_fmul, cast_fsq]
  · rintro ⟨x, hx⟩
    have hlt : ((x.val : ℕ) : ℤ) < p := by
      rw [p_eq]; exact_mod_cast ZMod.val_lt x
    refine ⟨(x.val : ℤ), Int.natCast_nonneg _, hlt, ?_⟩
    apply (cast_eq_iff (a := fmul v (fsq (x.val : ℤ))) (canon_mod _) hu).mp
    rw [cast_fmul, cast_fsq, Int.cast_natCast, ZMod.natCast_zmod_val, hx]

/-- **M2 / `axiom_M2_sqrt_ratio`**, Verus phrasing:
    ```
    requires 0 <= u < p(), 0 < v < p()
    ensures ({ let c = fmul(v, fsq(sqrt_cand(u, v)));
       (c == u || c == fneg(u) || c == fmul(sqrt_m1(), u) || c == fneg(fmul(sqrt_m1(), u)))
       && ((c == u || c == fneg(u)) <==> is_sq_ratio(u, v)) })
    ``` -/
theorem axiom_M2_sqrt_ratio [Fact (Nat.Prime P)] (u v : ℤ) (hu0 : 0 ≤ u) (hu1 : u < p)
    (hv0 : 0 < v) (hv1 : v < p) :
    let c := fmul v (fsq (sqrt_cand u v))
    (c = u ∨ c = fneg u ∨ c = fmul sqrt_m1 u ∨ c = fneg (fmul sqrt_m1 u))
      ∧ ((c = u ∨ c = fneg u) ↔ is_sq_ratio u v) := by
  intro c
  have hu : canon u := ⟨hu0, hu1⟩
  have hc : canon c := canon_mod _
  have hv : (v : ZMod P) ≠ 0 := by
    intro h
    rw [ZMod.intCast_zmod_eq_zero_iff_dvd, ← p_eq] at h
    have := Int.le_of_dvd hv0 h
    omega
  have hcc : ((c : ℤ) : ZMod P) = (v : ZMod P) * (sqrtCand p58 (u : ZMod P) (v : ZMod P)) ^ 2 := by
    rw [cast_fmul, cast_fsq, cast_sqrt_cand]
  have e1 : c = u ↔ ((c : ℤ) : ZMod P) = (u : ZMod P) := (cast_eq_iff hc hu).symm
  have e2 : c = fneg u ↔ ((c : ℤ) : ZMod P) = -(u : ZMod P) := by
    rw [← cast_fneg]; exact (cast_eq_iff hc (canon_mod _)).symm
  have e3 : c = fmul sqrt_m1 u ↔ ((c : ℤ) : ZMod P) = SQRT_M1 * (u : ZMod P) := by
    rw [← sqrt_m1_cast, ← cast_fmul]; exact (cast_eq_iff hc (canon_mod _)).symm
  have e4 : c = fneg (fmul sqrt_m1 u) ↔ ((c : ℤ) : ZMod P) = -(SQRT_M1 * (u : ZMod P)) := by
    rw [← sqrt_m1_cast, ← cast_fmul, ← cast_fneg]; exact (cast_eq_iff hc (canon_mod _)).symm
  rw [e1, e2, e3, e4, is_sq_ratio_iff u v hu, hcc]
  exact m2_sqrt_ratio_25519 (u : ZMod P) (v : ZMod P) hv

end IntLevel

end Inst25519

end M2

#print axioms M2.m2_sqrt_ratio
#print axioms M2.Inst25519.sqrt_m1_sq
#print axioms M2.Inst25519.m2_sqrt_ratio_25519
#print axioms M2.Inst25519.IntLevel.axiom_M2_sqrt_ratio
