#!/usr/bin/env python3
# Helper (NOT part of the proof): recomputes the `linear_combination` cofactors used in M4.lean
# (`assoc_poly_x`, `assoc_poly_y`).  Run with a Python that has sympy (`python3-vt assoc_cofactors.py`).
# Method: write both coordinates of (P1+P2)+P3 and P1+(P2+P3) as single fractions N/D, form
# G = N_L*D_R - N_R*D_L and divide G by the three curve equations C_i = y_i^2 - x_i^2 - (1 + d x_i^2 y_i^2)
# over the coefficient field Q(d) with the grevlex order.  The leading monomials x_i^2 y_i^2 are pairwise coprime,
# so {C_1, C_2, C_3} is a Groebner basis and the remainder is 0 iff G is in the ideal; the quotients turn out to be
# polynomial in d (no denominators).  Lean re-checks  G = q1*C1 + q2*C2 + q3*C3  with `ring`, so nothing here is
# trusted.
from sympy import symbols, expand, Poly, QQ, reduced, sstr
x1,y1,x2,y2,x3,y3,d = symbols('x1 y1 x2 y2 x3 y3 d')
A12=x1*y2+y1*x2; B12=y1*y2+x1*x2; T12=d*((x1*x2)*(y1*y2))
A23=x2*y3+y2*x3; B23=y2*y3+x2*x3; T23=d*((x2*x3)*(y2*y3))
b=1+T12; e=1-T12; g=1+T23; k=1-T23
NxL=A12*y3*e+B12*x3*b; DxL=b*e+d*A12*x3*B12*y3
NyL=B12*y3*b+A12*x3*e; DyL=b*e-d*A12*x3*B12*y3
NxR=x1*B23*g+y1*A23*k; DxR=g*k+d*x1*A23*y1*B23
NyR=y1*B23*g+x1*A23*k; DyR=g*k-d*x1*A23*y1*B23
C=[y**2-x**2-(1+d*(x**2*y**2)) for (x,y) in ((x1,y1),(x2,y2),(x3,y3))]
def lean(e): return sstr(e).replace('**','^')
for name,G in (('x',NxL*DxR-NxR*DxL),('y',NyL*DyR-NyR*DyL)):
    G=expand(G)
    q,r=reduced(G,C,x1,y1,x2,y2,x3,y3,domain=QQ.frac_field(d),order='grevlex')
    assert r==0
    q=[expand(qi) for qi in q]
    assert expand(G-sum(qi*ci for qi,ci in zip(q,C)))==0
    print('--',name)
    print('    linear_combination')
    print('      ('+lean(q[0])+') * h1')
    print('      + ('+lean(q[1])+') * h2')
    print('      + ('+lean(q[2])+') * h3')
