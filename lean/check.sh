#!/usr/bin/env bash
# Checks /verif/lean/M3.lean with Lean 4 + Mathlib.  Prints LEAN-OK and exits 0 iff
#   * lean exits 0 with no `error` and no `declaration uses 'sorry'` in its output,
#   * the source contains no `sorry` / `axiom` / `native_decide` token outside comments,
#   * every `#print axioms` line is present and mentions only propext / Classical.choice / Quot.sound
#     (in particular no `sorryAx`, no `Lean.ofReduceBool`, no user axiom).
# Exit 1 otherwise.
set -u
HERE="$(cd "$(dirname "${BASH_SOURCE[0]}")" && pwd)"
FILE="${1:-$HERE/M3.lean}"
OUT="$(mktemp)"
TMO="${LEAN_TIMEOUT:-1800}"
trap 'rm -f "$OUT"' EXIT

start=$(date +%s)
( cd "$HERE" && timeout "$TMO" lean "$FILE" ) >"$OUT" 2>&1
rc=$?
if [ $rc -ne 0 ] && grep -q "unknown module prefix\|object file .* does not exist\|unknown package" "$OUT"; then
  # plain `lean` cannot see Mathlib: go through the Mathlib lake environment
  ( cd /opt/veriftools/mathlib4 && timeout "$TMO" lake env lean "$FILE" ) >"$OUT" 2>&1
  rc=$?
fi
end=$(date +%s)
cat "$OUT"
echo "[check.sh] lean exit code $rc, wall time $((end-start)) s"

fail() { echo "LEAN-FAIL: $1"; exit 1; }

[ $rc -eq 0 ] || fail "lean exit code $rc"
grep -q "error" "$OUT" && fail "error in lean output"
grep -qi "sorry" "$OUT" && fail "sorry / sorryAx in lean output"

# source-level: no sorry / axiom / native_decide outside comments (strip /- -/ blocks and -- comments)
STRIPPED="$(perl -0pe 's{/-.*?-/}{}gs; s{--[^\n]*}{}g' "$FILE")"
echo "$STRIPPED" | grep -nw "sorry\|admit\|native_decide" && fail "sorry/admit/native_decide token in source"
echo "$STRIPPED" | grep -n "^\s*axiom\b" && fail "axiom declaration in source"

EXPECTED="M3.completeness M3.closure M3.m3_add_pniels M3.m3_double M3.Inst25519.m3_add_pniels_25519 M3.Inst25519.m3_double_25519 M3.Inst25519.fdiv_eq"
for t in $EXPECTED; do
  line="$(grep -A3 "^'$t' depends on axioms:" "$OUT" | tr '\n' ' ' | sed 's/\].*/]/')"
  [ -n "$line" ] || fail "no '#print axioms' output for $t"
  axs="$(echo "$line" | sed 's/.*\[\(.*\)\].*/\1/' | tr ',' '\n' | sed 's/^ *//; s/ *$//' | grep -v '^$')"
  for a in $axs; do
    case "$a" in
      propext|Classical.choice|Quot.sound) ;;
      *) fail "$t depends on non-standard axiom: $a" ;;
    esac
  done
done
# any other axiom report must be clean as well
grep "depends on axioms" "$OUT" | grep -q "sorryAx" && fail "sorryAx"

echo "LEAN-OK"
exit 0
