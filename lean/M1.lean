/-
  M1.lean — Lean 4 / Mathlib proof of the two "field axioms" M1 of the Verus project
  (/verif/contracts/lib/axioms_field.vx : `axiom_m1_fermat`, `axiom_m1_no_zero_divisors`).

  Contents
    §1 field-level statements (trivial in any field)
    §2 `ZMod P`-level statements (P = 2^255-19), assuming only `Nat.Prime P`
    §3 INTEGER-level statements: an exact transliteration of the Verus spec functions `p`, `fmul`, `fpow`,
       `p_minus_2`, `finv` over `ℤ` (Lean's `%` on `ℤ` is the Euclidean remainder, as Verus's `%` on `int`
       for a positive modulus), and the two axioms in exactly the Verus phrasing (`x % p ≠ 0`, …).
       For M1 the "int-mod-p ↔ ZMod p" bridge is therefore FORMAL, not informal.
  No `sorry`, no extra axioms.  The only assumption is `[Fact (Nat.Prime P)]`.
-/
import Mathlib

namespace M1

/-! ## §1 Field level -/
section FieldLevel
variable {F : Type*} [Field F]

/-- `axiom_m1_fermat` in a field where `finv` is the inverse. -/
theorem fermat_field (x : F) (hx : x ≠ 0) : x * x⁻¹ = 1 := mul_inv_cancel₀ hx

/-- `axiom_m1_no_zero_divisors` in a field. -/
theorem no_zero_divisors_field (a b : F) (h : a * b = 0) : a = 0 ∨ b = 0 := mul_eq_zero.mp h

end FieldLevel

namespace Inst25519

/-! ## §2 `ZMod P` level -/

/-- Verus `p()` (lib/field_spec.vx), as a natural number. -/
abbrev P : ℕ := 57896044618658097711785492504343953926634992332820282019728792003956564819949

theorem P_eq : P = 2 ^ 255 - 19 := by norm_num

/-- Verus `finv(x) = fpow(x, p - 2)` is the field inverse, with `finv(0) = 0` like Lean's `0⁻¹ = 0`. -/
theorem finv_eq [Fact (Nat.Prime P)] (x : ZMod P) : x ^ (P - 2) = x⁻¹ := by
  by_cases hx : x = 0
  · subst hx; simp
  · apply eq_inv_of_mul_eq_one_left
    rw [← pow_succ]
    exact ZMod.pow_card_sub_one_eq_one hx

/-- Fermat in `ZMod P`:  `x ≠ 0 → x * x^(P-2) = 1`. -/
theorem m1_fermat_zmod [Fact (Nat.Prime P)] (x : ZMod P) (hx : x ≠ 0) : x * x ^ (P - 2) = 1 := by
  rw [finv_eq]; exact mul_inv_cancel₀ hx

/-- No zero divisors in `ZMod P`. -/
theorem m1_no_zero_divisors_zmod [Fact (Nat.Prime P)] (a b : ZMod P) (h : a * b = 0) : a = 0 ∨ b = 0 :=
  mul_eq_zero.mp h

/-! ## §3 Integer level — transliteration of lib/field_spec.vx, lib/edwards_spec.vx -/

/-- Verus `p()`: `spec_literal_int("57896…819949")`. -/
def p : ℤ := 57896044618658097711785492504343953926634992332820282019728792003956564819949

/-- Verus `fmul(a, b) = (a * b) % p()`. -/
def fmul (a b : ℤ) : ℤ := (a * b) % p

/-- Verus `fpow(x, e) = if e == 0 { 1 } else { fmul(x, fpow(x, (e - 1) as nat)) }`. -/
def fpow (x : ℤ) : ℕ → ℤ
  | 0 => 1
  | e + 1 => fmul x (fpow x e)

/-- Verus `p_minus_2()`: `spec_literal_int("57896…819947") as nat`. -/
def p_minus_2 : ℕ := 57896044618658097711785492504343953926634992332820282019728792003956564819947

/-- Verus `finv(x) = fpow(x, p_minus_2())`. -/
def finv (x : ℤ) : ℤ := fpow x p_minus_2

theorem p_eq : p = (P : ℤ) := by norm_num [p, P]
theorem p_minus_2_eq : p_minus_2 = P - 2 := by norm_num [p_minus_2, P]

theorem cast_fmul (a b : ℤ) : ((fmul a b : ℤ) : ZMod P) = (a : ZMod P) * (b : ZMod P) := by
  rw [fmul, p_eq, ZMod.intCast_mod]; push_cast; rfl

theorem cast_fpow (x : ℤ) (e : ℕ) : ((fpow x e : ℤ) : ZMod P) = (x : ZMod P) ^ e := by
  induction e with
  | zero => simp [fpow]
  | succ e ih => rw [fpow, cast_fmul, ih, pow_succ, mul_comm]

theorem cast_eq_zero_iff (x : ℤ) : (x : ZMod P) = 0 ↔ x % p = 0 := by
  rw [ZMod.intCast_zmod_eq_zero_iff_dvd, p_eq]
  exact ⟨Int.emod_eq_zero_of_dvd, Int.dvd_of_emod_eq_zero⟩

/-- **M1 / `axiom_m1_fermat`**, Verus text:
    `requires x % p() != 0   ensures fmul(x, finv(x)) == 1`. -/
theorem axiom_m1_fermat [Fact (Nat.Prime P)] (x : ℤ) (hx : x % p ≠ 0) : fmul x (finv x) = 1 := by
  have hx' : (x : ZMod P) ≠ 0 := fun h => hx ((cast_eq_zero_iff x).mp h)
  have h : ((x * finv x : ℤ) : ZMod P) = ((1 : ℤ) : ZMod P) := by
    push_cast
    rw [finv, cast_fpow, p_minus_2_eq]
    exact m1_fermat_zmod _ hx'
  have h' := (ZMod.intCast_eq_intCast_iff' _ _ _).mp h
  rw [fmul, p_eq, h']
  norm_num [P]

/-- **M1 / `axiom_m1_no_zero_divisors`**, Verus text:
    `requires fmul(a, b) == 0   ensures a % p() == 0 || b % p() == 0`. -/
theorem axiom_m1_no_zero_divisors [Fact (Nat.Prime P)] (a b : ℤ) (h : fmul a b = 0) :
    a % p = 0 ∨ b % p = 0 := by
  have h0 : (a : ZMod P) * (b : ZMod P) = 0 := by
    rw [← cast_fmul, h]; simp
  rcases mul_eq_zero.mp h0 with h1 | h1
  · exact Or.inl ((cast_eq_zero_iff a).mp h1)
  · exact Or.inr ((cast_eq_zero_iff b).mp h1)

/-! Non-vacuity / sanity: the transliterated functions compute (no primality needed). -/
example : fmul 2 3 = 6 := by decide
example : fpow 2 3 = 8 := by decide
example : fmul p 5 = 0 := by decide

end Inst25519

end M1

#print axioms M1.fermat_field
#print axioms M1.no_zero_divisors_field
#print axioms M1.Inst25519.m1_fermat_zmod
#print axioms M1.Inst25519.m1_no_zero_divisors_zmod
#print axioms M1.Inst25519.axiom_m1_fermat
#print axioms M1.Inst25519.axiom_m1_no_zero_divisors
