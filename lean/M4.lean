/-
  M4.lean — Lean 4 / Mathlib proof of the five "group axioms" M4 of the Verus project
  (/verif/contracts/lib/sm_axioms.vx : `axiom_m4_closure`, `axiom_m4_assoc`, `axiom_m4_comm`, `axiom_m4_identity`,
  `axiom_m4_inverse`) for the twisted Edwards curve  -x^2 + y^2 = 1 + d x^2 y^2  over an ARBITRARY field `F`
  with  2 ≠ 0,  d a non-square,  -1 a square:  the on-curve points form an abelian group under `ed_add_affine`
  with identity (0, 1) and inverse (x, y) ↦ (-x, y).

  Contents
    §1 definitions (copied from M3.lean, plus `edNeg`, `edId`, `onCurveP`)
    §2 completeness and closure (copied from M3.lean so that this file is self-contained)
    §3 closure / commutativity / identity / inverse in the M4 form
    §4 ASSOCIATIVITY: the two coordinates of (a+b)+c and a+(b+c) are written as single fractions; the
       cross-multiplied polynomial identities are `linear_combination`s of the three curve equations with explicit
       cofactors (found with sympy: multivariate division by the three curve equations over Q(d), grevlex;
       the leading monomials x_i^2 y_i^2 are pairwise coprime, so the three equations are a Gröbner basis).
    §5 instantiation at F = ZMod (2^255-19), d = ed_d(), assuming only `Nat.Prime (2^255-19)`
    §6 INTEGER level: the Verus spec functions transliterated over `ℤ` with `%`, and the five axioms in exactly
       the Verus phrasing (`on_curve` with its range clause, `==` on pairs of `int`), derived from §5 —
       the int-mod-p ↔ ZMod p bridge is formal here
  No `sorry`, no extra axioms.
-/
import Mathlib

namespace M4

variable {F : Type*} [Field F]

/-! ## §1 Definitions (mirror of lib/edwards_spec.vx) -/

/-- Verus `on_curve((x, y))` without the range clause:
    `fsub(fsq(y), fsq(x)) == fadd(1, fmul(ed_d(), fmul(fsq(x), fsq(y))))`. -/
def onCurve (d x y : F) : Prop := y ^ 2 - x ^ 2 = 1 + d * (x ^ 2 * y ^ 2)

/-- Verus `on_curve(a)` on a pair. -/
def onCurveP (d : F) (a : F × F) : Prop := onCurve d a.1 a.2

/-- Verus `ed_add_affine(a, b)` (see M3.lean). -/
def edAdd (d : F) (a b : F × F) : F × F :=
  let t := d * ((a.1 * b.1) * (a.2 * b.2))
  ((a.1 * b.2 + a.2 * b.1) / (1 + t), (a.2 * b.2 + a.1 * b.1) / (1 - t))

/-- Verus `ed_neg_affine(a) = (fneg(a.0), a.1)`. -/
def edNeg (a : F × F) : F × F := (-a.1, a.2)

/-- Verus `ed_id() = (0, 1)`. -/
def edId : F × F := (0, 1)

/-! ## §2 Completeness and closure (verbatim from M3.lean) -/

theorem compl_aux (d : F) (h2 : (2 : F) ≠ 0) (hd : ¬ ∃ r : F, r ^ 2 = d) (hi : ∃ i : F, i ^ 2 = -1)
    {x1 y1 x2 y2 e : F} (h1 : onCurve d x1 y1) (hq : onCurve d x2 y2)
    (he : e = d * x1 * x2 * y1 * y2) (hee : e ^ 2 = 1) : False := by
  obtain ⟨i, hi⟩ := hi
  unfold onCurve at h1 hq
  have hx1 : x1 ≠ 0 := by rintro rfl; simp [he] at hee
  have hy1 : y1 ≠ 0 := by rintro rfl; simp [he] at hee
  have hy2 : y2 ≠ 0 := by rintro rfl; simp [he] at hee
  have key : ∀ s : F, s ^ 2 = 1 →
      (i * x1 + s * e * y1) ^ 2 = d * (x1 * y1 * (i * x2 + s * y2)) ^ 2 := by
    intro s hs
    linear_combination (2 * i * s * x1 * y1 + e + d * x1 * x2 * y1 * y2) * he
      + (x1 ^ 2 - d * x1 ^ 2 * y1 ^ 2 * x2 ^ 2) * hi
      + (e ^ 2 * y1 ^ 2 - d * x1 ^ 2 * y1 ^ 2 * y2 ^ 2) * hs
      + (y1 ^ 2 - 1) * hee - d * x1 ^ 2 * y1 ^ 2 * hq + h1
  have nz : ∀ s : F, s ^ 2 = 1 → i * x2 + s * y2 = 0 := by
    intro s hs
    by_contra hne
    apply hd
    refine ⟨(i * x1 + s * e * y1) / (x1 * y1 * (i * x2 + s * y2)), ?_⟩
    have hden : x1 * y1 * (i * x2 + s * y2) ≠ 0 := mul_ne_zero (mul_ne_zero hx1 hy1) hne
    rw [div_pow, key s hs]
    field_simp
  have a := nz 1 (by ring)
  have b := nz (-1) (by ring)
  apply hy2
  have : 2 * y2 = 0 := by linear_combination a - b
  exact (mul_eq_zero.mp this).resolve_left h2

/-- Completeness of the addition law: both denominators are non-zero for any two points ON the curve. -/
theorem completeness (d : F) (h2 : (2 : F) ≠ 0) (hd : ¬ ∃ r : F, r ^ 2 = d) (hi : ∃ i : F, i ^ 2 = -1)
    {x1 y1 x2 y2 : F} (h1 : onCurve d x1 y1) (hq : onCurve d x2 y2) :
    1 + d * x1 * x2 * y1 * y2 ≠ 0 ∧ 1 - d * x1 * x2 * y1 * y2 ≠ 0 := by
  constructor
  · intro h
    exact compl_aux d h2 hd hi h1 hq rfl (by linear_combination (d * x1 * x2 * y1 * y2 - 1) * h)
  · intro h
    exact compl_aux d h2 hd hi h1 hq rfl (by linear_combination (-d * x1 * x2 * y1 * y2 - 1) * h)

/-- Completeness, with the denominators in the shape they have in `edAdd`. -/
theorem den_ne (d : F) (h2 : (2 : F) ≠ 0) (hd : ¬ ∃ r : F, r ^ 2 = d) (hi : ∃ i : F, i ^ 2 = -1)
    {x1 y1 x2 y2 : F} (h1 : onCurve d x1 y1) (hq : onCurve d x2 y2) :
    1 + d * ((x1 * x2) * (y1 * y2)) ≠ 0 ∧ 1 - d * ((x1 * x2) * (y1 * y2)) ≠ 0 := by
  obtain ⟨hD1', hD2'⟩ := completeness d h2 hd hi h1 hq
  exact ⟨fun h => hD1' (by linear_combination h), fun h => hD2' (by linear_combination h)⟩

theorem frac_aux (d N1 N2 D1 D2 : F) (hD1 : D1 ≠ 0) (hD2 : D2 ≠ 0)
    (h : N2 ^ 2 * D1 ^ 2 - N1 ^ 2 * D2 ^ 2 = D1 ^ 2 * D2 ^ 2 + d * (N1 ^ 2 * N2 ^ 2)) :
    (N2 / D2) ^ 2 - (N1 / D1) ^ 2 = 1 + d * ((N1 / D1) ^ 2 * (N2 / D2) ^ 2) := by
  field_simp
  linear_combination h

theorem closure (d : F) {x1 y1 x2 y2 : F} (h1 : onCurve d x1 y1) (hq : onCurve d x2 y2)
    (hD1 : 1 + d * ((x1 * x2) * (y1 * y2)) ≠ 0) (hD2 : 1 - d * ((x1 * x2) * (y1 * y2)) ≠ 0) :
    onCurve d ((x1 * y2 + y1 * x2) / (1 + d * ((x1 * x2) * (y1 * y2))))
              ((y1 * y2 + x1 * x2) / (1 - d * ((x1 * x2) * (y1 * y2)))) := by
  unfold onCurve at *
  have hpoly :
      (y1 * y2 + x1 * x2) ^ 2 * (1 + d * ((x1 * x2) * (y1 * y2))) ^ 2
        - (x1 * y2 + y1 * x2) ^ 2 * (1 - d * ((x1 * x2) * (y1 * y2))) ^ 2
      = (1 + d * ((x1 * x2) * (y1 * y2))) ^ 2 * (1 - d * ((x1 * x2) * (y1 * y2))) ^ 2
        + d * ((x1 * y2 + y1 * x2) ^ 2 * (y1 * y2 + x1 * x2) ^ 2) := by
    linear_combination
      ((1 + (d * (x1 * y1) * (x2 * y2)) ^ 2) * (y2 ^ 2 - x2 ^ 2)
          - d * (x2 * y2) ^ 2 * ((y1 ^ 2 - x1 ^ 2) + (1 + d * (x1 ^ 2 * y1 ^ 2)))) * h1
      + ((1 + (d * (x1 * y1) * (x2 * y2)) ^ 2) * (1 + d * (x1 ^ 2 * y1 ^ 2))
          - d * (x1 * y1) ^ 2 * ((y2 ^ 2 - x2 ^ 2) + (1 + d * (x2 ^ 2 * y2 ^ 2)))) * hq
  exact frac_aux d _ _ _ _ hD1 hD2 hpoly

/-! ## §3 Closure, commutativity, identity, inverse in the M4 form -/

/-- **M4 / `axiom_m4_closure`**:  `requires on_curve(a), on_curve(b)  ensures on_curve(ed_add_affine(a, b))`. -/
theorem m4_closure (d : F) (h2 : (2 : F) ≠ 0) (hd : ¬ ∃ r : F, r ^ 2 = d) (hi : ∃ i : F, i ^ 2 = -1)
    (a b : F × F) (ha : onCurveP d a) (hb : onCurveP d b) : onCurveP d (edAdd d a b) := by
  obtain ⟨x1, y1⟩ := a
  obtain ⟨x2, y2⟩ := b
  simp only [onCurveP] at ha hb
  obtain ⟨hD1, hD2⟩ := den_ne d h2 hd hi ha hb
  exact closure d ha hb hD1 hD2

/-- **M4 / `axiom_m4_comm`**:  `ensures ed_add_affine(a, b) == ed_add_affine(b, a)`
    (holds for arbitrary pairs; the on-curve hypotheses of the Verus axiom are not needed). -/
theorem m4_comm (d : F) (a b : F × F) : edAdd d a b = edAdd d b a := by
  obtain ⟨x1, y1⟩ := a
  obtain ⟨x2, y2⟩ := b
  simp only [edAdd]
  congr 1 <;> ring

/-- **M4 / `axiom_m4_identity`**:  `ensures ed_add_affine(a, ed_id()) == a`
    (holds for arbitrary pairs of field elements). -/
theorem m4_identity (d : F) (a : F × F) : edAdd d a edId = a := by
  obtain ⟨x, y⟩ := a
  simp [edAdd, edId]

/-- `-P` is on the curve (a lemma on the Verus side, needed here for completeness at `(P, -P)`). -/
theorem neg_onCurve (d : F) (a : F × F) (ha : onCurveP d a) : onCurveP d (edNeg a) := by
  obtain ⟨x, y⟩ := a
  simp only [onCurveP, onCurve, edNeg] at *
  linear_combination ha

/-- **M4 / `axiom_m4_inverse`**:  `requires on_curve(a)  ensures ed_add_affine(a, ed_neg_affine(a)) == ed_id()`. -/
theorem m4_inverse (d : F) (h2 : (2 : F) ≠ 0) (hd : ¬ ∃ r : F, r ^ 2 = d) (hi : ∃ i : F, i ^ 2 = -1)
    (a : F × F) (ha : onCurveP d a) : edAdd d a (edNeg a) = edId := by
  have hn := neg_onCurve d a ha
  obtain ⟨x, y⟩ := a
  simp only [onCurveP, edNeg] at ha hn
  obtain ⟨_, hD2⟩ := den_ne d h2 hd hi ha hn
  simp only [edAdd, edNeg, edId]
  unfold onCurve at ha
  have e1 : x * y + y * -x = 0 := by ring
  have e2 : y * y + x * -x = 1 - d * (x * -x * (y * y)) := by linear_combination ha
  rw [e1, zero_div, e2, div_self hD2]

/-! ## §4 Associativity -/

/-- `(a/b, c/e) + (x, y)` as a pair of single fractions. -/
theorem edAdd_frac_left (d a b c e x y : F) (hb : b ≠ 0) (he : e ≠ 0) :
    edAdd d (a / b, c / e) (x, y)
      = ((a * y * e + c * x * b) / (b * e + d * a * x * c * y),
         (c * y * b + a * x * e) / (b * e - d * a * x * c * y)) := by
  have hbe : b * e ≠ 0 := mul_ne_zero hb he
  have e1 : a / b * y + c / e * x = (a * y * e + c * x * b) / (b * e) := by field_simp
  have e2 : 1 + d * (a / b * x * (c / e * y)) = (b * e + d * a * x * c * y) / (b * e) := by field_simp
  have e3 : c / e * y + a / b * x = (c * y * b + a * x * e) / (b * e) := by field_simp
  have e4 : 1 - d * (a / b * x * (c / e * y)) = (b * e - d * a * x * c * y) / (b * e) := by field_simp
  simp only [edAdd]
  rw [e1, e2, e3, e4, div_div_div_cancel_right₀ hbe, div_div_div_cancel_right₀ hbe]

/-- `(x, y) + (f/g, h/k)` as a pair of single fractions. -/
theorem edAdd_frac_right (d x y f g h k : F) (hg : g ≠ 0) (hk : k ≠ 0) :
    edAdd d (x, y) (f / g, h / k)
      = ((x * h * g + y * f * k) / (g * k + d * x * f * y * h),
         (y * h * g + x * f * k) / (g * k - d * x * f * y * h)) := by
  have hgk : g * k ≠ 0 := mul_ne_zero hg hk
  have e1 : x * (h / k) + y * (f / g) = (x * h * g + y * f * k) / (g * k) := by field_simp
  have e2 : 1 + d * (x * (f / g) * (y * (h / k))) = (g * k + d * x * f * y * h) / (g * k) := by field_simp
  have e3 : y * (h / k) + x * (f / g) = (y * h * g + x * f * k) / (g * k) := by field_simp
  have e4 : 1 - d * (x * (f / g) * (y * (h / k))) = (g * k - d * x * f * y * h) / (g * k) := by field_simp
  simp only [edAdd]
  rw [e1, e2, e3, e4, div_div_div_cancel_right₀ hgk, div_div_div_cancel_right₀ hgk]

theorem den_left_ne (d a b c e x y : F) (hb : b ≠ 0) (he : e ≠ 0)
    (hp : 1 + d * (a / b) * x * (c / e) * y ≠ 0) (hm : 1 - d * (a / b) * x * (c / e) * y ≠ 0) :
    b * e + d * a * x * c * y ≠ 0 ∧ b * e - d * a * x * c * y ≠ 0 := by
  have e1 : b * e + d * a * x * c * y = b * e * (1 + d * (a / b) * x * (c / e) * y) := by field_simp
  have e2 : b * e - d * a * x * c * y = b * e * (1 - d * (a / b) * x * (c / e) * y) := by field_simp
  rw [e1, e2]
  exact ⟨mul_ne_zero (mul_ne_zero hb he) hp, mul_ne_zero (mul_ne_zero hb he) hm⟩

theorem den_right_ne (d x y f g h k : F) (hg : g ≠ 0) (hk : k ≠ 0)
    (hp : 1 + d * x * (f / g) * y * (h / k) ≠ 0) (hm : 1 - d * x * (f / g) * y * (h / k) ≠ 0) :
    g * k + d * x * f * y * h ≠ 0 ∧ g * k - d * x * f * y * h ≠ 0 := by
  have e1 : g * k + d * x * f * y * h = g * k * (1 + d * x * (f / g) * y * (h / k)) := by field_simp
  have e2 : g * k - d * x * f * y * h = g * k * (1 - d * x * (f / g) * y * (h / k)) := by field_simp
  rw [e1, e2]
  exact ⟨mul_ne_zero (mul_ne_zero hg hk) hp, mul_ne_zero (mul_ne_zero hg hk) hm⟩

/-- x-coordinate: `Nx((a+b)+c) * Dx(a+(b+c)) = Nx(a+(b+c)) * Dx((a+b)+c)` on the curve.
    Cofactors computed by sympy (`reduced`, grevlex, coefficient field Q(d)); remainder 0. -/
theorem assoc_poly_x (d x1 y1 x2 y2 x3 y3 : F)
    (h1 : y1 ^ 2 - x1 ^ 2 = 1 + d * (x1 ^ 2 * y1 ^ 2))
    (h2 : y2 ^ 2 - x2 ^ 2 = 1 + d * (x2 ^ 2 * y2 ^ 2))
    (h3 : y3 ^ 2 - x3 ^ 2 = 1 + d * (x3 ^ 2 * y3 ^ 2)) :
    ((x1 * y2 + y1 * x2) * y3 * (1 - d * ((x1 * x2) * (y1 * y2)))
        + (y1 * y2 + x1 * x2) * x3 * (1 + d * ((x1 * x2) * (y1 * y2))))
      * ((1 + d * ((x2 * x3) * (y2 * y3))) * (1 - d * ((x2 * x3) * (y2 * y3)))
        + d * x1 * (x2 * y3 + y2 * x3) * y1 * (y2 * y3 + x2 * x3))
    = (x1 * (y2 * y3 + x2 * x3) * (1 + d * ((x2 * x3) * (y2 * y3)))
        + y1 * (x2 * y3 + y2 * x3) * (1 - d * ((x2 * x3) * (y2 * y3))))
      * ((1 + d * ((x1 * x2) * (y1 * y2))) * (1 - d * ((x1 * x2) * (y1 * y2)))
        + d * (x1 * y2 + y1 * x2) * x3 * (y1 * y2 + x1 * x2) * y3) := by
    linear_combination
      (-d^2*x1*x2^4*x3^2*y2^3*y3 - d^2*x1*x2^3*x3*y2^4*y3^2 + d^2*x2^4*x3*y1*y2^3*y3^2
          + d^2*x2^3*x3^2*y1*y2^4*y3 - d*x1*x2^4*x3^2*y2*y3 - d*x1*x2^3*x3^3*y2^2 - d*x1*x2^3*x3*y2^2
          + d*x1*x2^2*y2^3*y3^3 - d*x1*x2^2*y2^3*y3 + d*x1*x2*x3*y2^4*y3^2 + d*x2^4*x3*y1*y2*y3^2
          + d*x2^3*y1*y2^2*y3^3 - d*x2^3*y1*y2^2*y3 - d*x2^2*x3^3*y1*y2^3 - d*x2^2*x3*y1*y2^3
          - d*x2*x3^2*y1*y2^4*y3) * h1
      + (d^2*x1^2*x2^2*x3^3*y1*y2*y3^2 - d^2*x1^2*x2*x3^2*y1*y2^2*y3^3 - d^2*x1*x2^2*x3^2*y1^2*y2*y3^3
          + d^2*x1*x2*x3^3*y1^2*y2^2*y3^2 + d*x1^3*x2^2*x3^2*y2*y3 + d*x1^3*x2*x3^3*y3^2
          + d*x1^3*x2*x3*y2^2*y3^2 + d*x1^3*x3^2*y2*y3^3 - d*x1^2*x2^2*x3*y1*y2*y3^2
          - d*x1^2*x2*x3^2*y1*y2^2*y3 + d*x1^2*x2*x3^2*y1*y3^3 + d*x1^2*x3^3*y1*y2*y3^2
          - d*x1*x2^2*x3^2*y1^2*y2*y3 + d*x1*x2^2*x3^2*y2*y3 - d*x1*x2*x3^3*y1^2*y3^2 + d*x1*x2*x3^3*y3^2
          - d*x1*x2*x3*y1^2*y2^2*y3^2 + d*x1*x2*x3*y2^2*y3^2 - d*x1*x3^2*y1^2*y2*y3^3 + d*x1*x3^2*y2*y3^3
          + d*x2^2*x3*y1^3*y2*y3^2 - d*x2^2*x3*y1*y2*y3^2 + d*x2*x3^2*y1^3*y2^2*y3 - d*x2*x3^2*y1^3*y3^3
          - d*x2*x3^2*y1*y2^2*y3 + d*x2*x3^2*y1*y3^3 - d*x3^3*y1^3*y2*y3^2 + d*x3^3*y1*y2*y3^2
          + x1^3*x2*x3^3 - x1^3*x2*x3*y3^2 + x1^3*x2*x3 + x1^3*x3^2*y2*y3 - x1^3*y2*y3^3 + x1^3*y2*y3
          + x1^2*x2*x3^2*y1*y3 - x1^2*x2*y1*y3^3 + x1^2*x2*y1*y3 + x1^2*x3^3*y1*y2 - x1^2*x3*y1*y2*y3^2
          + x1^2*x3*y1*y2 - x1*x2*x3^3*y1^2 + x1*x2*x3^3 + x1*x2*x3*y1^2*y3^2 - x1*x2*x3*y1^2
          - x1*x2*x3*y3^2 + x1*x2*x3 - x1*x3^2*y1^2*y2*y3 + x1*x3^2*y2*y3 + x1*y1^2*y2*y3^3 - x1*y1^2*y2*y3
          - x1*y2*y3^3 + x1*y2*y3 - x2*x3^2*y1^3*y3 + x2*x3^2*y1*y3 + x2*y1^3*y3^3 - x2*y1^3*y3 - x2*y1*y3^3
          + x2*y1*y3 - x3^3*y1^3*y2 + x3^3*y1*y2 + x3*y1^3*y2*y3^2 - x3*y1^3*y2 - x3*y1*y2*y3^2
          + x3*y1*y2) * h2
      + (-d*x1^2*x2^2*x3*y1*y2 + d*x1^2*x2*y1*y2^2*y3 + d*x1*x2^2*y1^2*y2*y3 - d*x1*x2*x3*y1^2*y2^2
          - x1^3*x2^3*x3 - x1^3*x2^2*y2*y3 + x1^3*x2*x3*y2^2 - x1^3*x2*x3 + x1^3*y2^3*y3 - x1^3*y2*y3
          - x1^2*x2^3*y1*y3 - x1^2*x2^2*x3*y1*y2 + x1^2*x2*y1*y2^2*y3 - x1^2*x2*y1*y3 + x1^2*x3*y1*y2^3
          - x1^2*x3*y1*y2 + x1*x2^3*x3*y1^2 - x1*x2^3*x3 + x1*x2^2*y1^2*y2*y3 - x1*x2^2*y2*y3
          - x1*x2*x3*y1^2*y2^2 + x1*x2*x3*y1^2 + x1*x2*x3*y2^2 - x1*x2*x3 - x1*y1^2*y2^3*y3 + x1*y1^2*y2*y3
          + x1*y2^3*y3 - x1*y2*y3 + x2^3*y1^3*y3 - x2^3*y1*y3 + x2^2*x3*y1^3*y2 - x2^2*x3*y1*y2
          - x2*y1^3*y2^2*y3 + x2*y1^3*y3 + x2*y1*y2^2*y3 - x2*y1*y3 - x3*y1^3*y2^3 + x3*y1^3*y2 + x3*y1*y2^3
          - x3*y1*y2) * h3

/-- y-coordinate: `Ny((a+b)+c) * Dy(a+(b+c)) = Ny(a+(b+c)) * Dy((a+b)+c)` on the curve. -/
theorem assoc_poly_y (d x1 y1 x2 y2 x3 y3 : F)
    (h1 : y1 ^ 2 - x1 ^ 2 = 1 + d * (x1 ^ 2 * y1 ^ 2))
    (h2 : y2 ^ 2 - x2 ^ 2 = 1 + d * (x2 ^ 2 * y2 ^ 2))
    (h3 : y3 ^ 2 - x3 ^ 2 = 1 + d * (x3 ^ 2 * y3 ^ 2)) :
    ((y1 * y2 + x1 * x2) * y3 * (1 + d * ((x1 * x2) * (y1 * y2)))
        + (x1 * y2 + y1 * x2) * x3 * (1 - d * ((x1 * x2) * (y1 * y2))))
      * ((1 + d * ((x2 * x3) * (y2 * y3))) * (1 - d * ((x2 * x3) * (y2 * y3)))
        - d * x1 * (x2 * y3 + y2 * x3) * y1 * (y2 * y3 + x2 * x3))
    = (y1 * (y2 * y3 + x2 * x3) * (1 + d * ((x2 * x3) * (y2 * y3)))
        + x1 * (x2 * y3 + y2 * x3) * (1 - d * ((x2 * x3) * (y2 * y3))))
      * ((1 + d * ((x1 * x2) * (y1 * y2))) * (1 - d * ((x1 * x2) * (y1 * y2)))
        - d * (x1 * y2 + y1 * x2) * x3 * (y1 * y2 + x1 * x2) * y3) := by
    linear_combination
      (d^2*x1*x2^4*x3*y2^3*y3^2 + d^2*x1*x2^3*x3^2*y2^4*y3 - d^2*x2^4*x3^2*y1*y2^3*y3
          - d^2*x2^3*x3*y1*y2^4*y3^2 + d*x1*x2^4*x3*y2*y3^2 + d*x1*x2^3*y2^2*y3^3 - d*x1*x2^3*y2^2*y3
          - d*x1*x2^2*x3^3*y2^3 - d*x1*x2^2*x3*y2^3 - d*x1*x2*x3^2*y2^4*y3 - d*x2^4*x3^2*y1*y2*y3
          - d*x2^3*x3^3*y1*y2^2 - d*x2^3*x3*y1*y2^2 + d*x2^2*y1*y2^3*y3^3 - d*x2^2*y1*y2^3*y3
          + d*x2*x3*y1*y2^4*y3^2) * h1
      + (d^2*x1^2*x2^2*x3^2*y1*y2*y3^3 - d^2*x1^2*x2*x3^3*y1*y2^2*y3^2 - d^2*x1*x2^2*x3^3*y1^2*y2*y3^2
          + d^2*x1*x2*x3^2*y1^2*y2^2*y3^3 - d*x1^3*x2^2*x3*y2*y3^2 - d*x1^3*x2*x3^2*y2^2*y3
          + d*x1^3*x2*x3^2*y3^3 + d*x1^3*x3^3*y2*y3^2 + d*x1^2*x2^2*x3^2*y1*y2*y3 + d*x1^2*x2*x3^3*y1*y3^2
          + d*x1^2*x2*x3*y1*y2^2*y3^2 + d*x1^2*x3^2*y1*y2*y3^3 + d*x1*x2^2*x3*y1^2*y2*y3^2
          - d*x1*x2^2*x3*y2*y3^2 + d*x1*x2*x3^2*y1^2*y2^2*y3 - d*x1*x2*x3^2*y1^2*y3^3 - d*x1*x2*x3^2*y2^2*y3
          + d*x1*x2*x3^2*y3^3 - d*x1*x3^3*y1^2*y2*y3^2 + d*x1*x3^3*y2*y3^2 - d*x2^2*x3^2*y1^3*y2*y3
          + d*x2^2*x3^2*y1*y2*y3 - d*x2*x3^3*y1^3*y3^2 + d*x2*x3^3*y1*y3^2 - d*x2*x3*y1^3*y2^2*y3^2
          + d*x2*x3*y1*y2^2*y3^2 - d*x3^2*y1^3*y2*y3^3 + d*x3^2*y1*y2*y3^3 + x1^3*x2*x3^2*y3 - x1^3*x2*y3^3
          + x1^3*x2*y3 + x1^3*x3^3*y2 - x1^3*x3*y2*y3^2 + x1^3*x3*y2 + x1^2*x2*x3^3*y1 - x1^2*x2*x3*y1*y3^2
          + x1^2*x2*x3*y1 + x1^2*x3^2*y1*y2*y3 - x1^2*y1*y2*y3^3 + x1^2*y1*y2*y3 - x1*x2*x3^2*y1^2*y3
          + x1*x2*x3^2*y3 + x1*x2*y1^2*y3^3 - x1*x2*y1^2*y3 - x1*x2*y3^3 + x1*x2*y3 - x1*x3^3*y1^2*y2
          + x1*x3^3*y2 + x1*x3*y1^2*y2*y3^2 - x1*x3*y1^2*y2 - x1*x3*y2*y3^2 + x1*x3*y2 - x2*x3^3*y1^3
          + x2*x3^3*y1 + x2*x3*y1^3*y3^2 - x2*x3*y1^3 - x2*x3*y1*y3^2 + x2*x3*y1 - x3^2*y1^3*y2*y3
          + x3^2*y1*y2*y3 + y1^3*y2*y3^3 - y1^3*y2*y3 - y1*y2*y3^3 + y1*y2*y3) * h2
      + (-d*x1^2*x2^2*y1*y2*y3 + d*x1^2*x2*x3*y1*y2^2 + d*x1*x2^2*x3*y1^2*y2 - d*x1*x2*y1^2*y2^2*y3
          - x1^3*x2^3*y3 - x1^3*x2^2*x3*y2 + x1^3*x2*y2^2*y3 - x1^3*x2*y3 + x1^3*x3*y2^3 - x1^3*x3*y2
          - x1^2*x2^3*x3*y1 - x1^2*x2^2*y1*y2*y3 + x1^2*x2*x3*y1*y2^2 - x1^2*x2*x3*y1 + x1^2*y1*y2^3*y3
          - x1^2*y1*y2*y3 + x1*x2^3*y1^2*y3 - x1*x2^3*y3 + x1*x2^2*x3*y1^2*y2 - x1*x2^2*x3*y2
          - x1*x2*y1^2*y2^2*y3 + x1*x2*y1^2*y3 + x1*x2*y2^2*y3 - x1*x2*y3 - x1*x3*y1^2*y2^3 + x1*x3*y1^2*y2
          + x1*x3*y2^3 - x1*x3*y2 + x2^3*x3*y1^3 - x2^3*x3*y1 + x2^2*y1^3*y2*y3 - x2^2*y1*y2*y3
          - x2*x3*y1^3*y2^2 + x2*x3*y1^3 + x2*x3*y1*y2^2 - x2*x3*y1 - y1^3*y2^3*y3 + y1^3*y2*y3 + y1*y2^3*y3
          - y1*y2*y3) * h3

/-- **M4 / `axiom_m4_assoc`**:  `requires on_curve(a), on_curve(b), on_curve(c)`
    `ensures ed_add_affine(ed_add_affine(a, b), c) == ed_add_affine(a, ed_add_affine(b, c))`. -/
theorem m4_assoc (d : F) (h2 : (2 : F) ≠ 0) (hd : ¬ ∃ r : F, r ^ 2 = d) (hi : ∃ i : F, i ^ 2 = -1)
    (a b c : F × F) (ha : onCurveP d a) (hb : onCurveP d b) (hc : onCurveP d c) :
    edAdd d (edAdd d a b) c = edAdd d a (edAdd d b c) := by
  have h12 := m4_closure d h2 hd hi a b ha hb
  have h23 := m4_closure d h2 hd hi b c hb hc
  obtain ⟨x1, y1⟩ := a
  obtain ⟨x2, y2⟩ := b
  obtain ⟨x3, y3⟩ := c
  simp only [onCurveP] at ha hb hc
  -- inner denominators
  obtain ⟨nb, ne⟩ := den_ne d h2 hd hi ha hb
  obtain ⟨ng, nk⟩ := den_ne d h2 hd hi hb hc
  -- the inner sums, unfolded
  have e12 : edAdd d (x1, y1) (x2, y2)
      = ((x1 * y2 + y1 * x2) / (1 + d * ((x1 * x2) * (y1 * y2))),
         (y1 * y2 + x1 * x2) / (1 - d * ((x1 * x2) * (y1 * y2)))) := rfl
  have e23 : edAdd d (x2, y2) (x3, y3)
      = ((x2 * y3 + y2 * x3) / (1 + d * ((x2 * x3) * (y2 * y3))),
         (y2 * y3 + x2 * x3) / (1 - d * ((x2 * x3) * (y2 * y3)))) := rfl
  rw [e12] at h12
  rw [e23] at h23
  simp only [onCurveP] at h12 h23
  -- outer denominators (completeness again, the inner sums being on the curve)
  obtain ⟨hLp, hLm⟩ := completeness d h2 hd hi h12 hc
  obtain ⟨hRp, hRm⟩ := completeness d h2 hd hi ha h23
  obtain ⟨nLp, nLm⟩ := den_left_ne d _ _ _ _ _ _ nb ne hLp hLm
  obtain ⟨nRp, nRm⟩ := den_right_ne d _ _ _ _ _ _ ng nk hRp hRm
  rw [e12, e23, edAdd_frac_left d _ _ _ _ _ _ nb ne, edAdd_frac_right d _ _ _ _ _ _ ng nk]
  unfold onCurve at ha hb hc
  congr 1
  · rw [div_eq_div_iff nLp nRp]
    linear_combination assoc_poly_x d x1 y1 x2 y2 x3 y3 ha hb hc
  · rw [div_eq_div_iff nLm nRm]
    linear_combination assoc_poly_y d x1 y1 x2 y2 x3 y3 ha hb hc

/-! ### Non-vacuity: the identity is on the curve -/
example (d : F) : onCurveP d (edId : F × F) := by simp [onCurveP, onCurve, edId]

/-! ## §5 Instantiation at F = ZMod (2^255 - 19), d = ed_d() — assuming only that 2^255 - 19 is prime -/
namespace Inst25519

/-- Verus `p()` (lib/field_spec.vx). -/
abbrev P : ℕ := 57896044618658097711785492504343953926634992332820282019728792003956564819949
/-- Verus `ed_d()` (lib/edwards_spec.vx). -/
abbrev D : ZMod P := 37095705934669439343138083508754565189542113879843219016388785533085940283555

theorem P_eq : P = 2 ^ 255 - 19 := by norm_num
theorem D_eq : D * 121666 = -121665 := by reduce_mod_char

theorem two_ne_zero' [Fact (Nat.Prime P)] : (2 : ZMod P) ≠ 0 := by
  intro h
  have h' : ((2 : ℕ) : ZMod P) = 0 := by exact_mod_cast h
  rw [ZMod.natCast_eq_zero_iff] at h'
  exact absurd (Nat.le_of_dvd (by norm_num) h') (by norm_num)

theorem D_pow : D ^ (P / 2) = -1 := by
  have : P / 2 = 28948022309329048855892746252171976963317496166410141009864396001978282409974 := by
    norm_num
  rw [this]
  reduce_mod_char

theorem D_nonsquare [Fact (Nat.Prime P)] : ¬ ∃ r : ZMod P, r ^ 2 = D := by
  rintro ⟨r, hr⟩
  have hsq : IsSquare D := ⟨r, by rw [← hr, sq]⟩
  have hD0 : D ≠ 0 := by
    intro h0
    have := D_pow
    rw [h0, zero_pow (by norm_num)] at this
    have h2 : (2 : ZMod P) = 0 := by linear_combination (2 : ZMod P) * this
    exact two_ne_zero' h2
  rw [ZMod.euler_criterion P hD0, D_pow] at hsq
  have h2 : (2 : ZMod P) = 0 := by linear_combination (-1 : ZMod P) * hsq
  exact two_ne_zero' h2

theorem neg_one_square [Fact (Nat.Prime P)] : ∃ i : ZMod P, i ^ 2 = -1 := by
  have h : IsSquare (-1 : ZMod P) := ZMod.exists_sq_eq_neg_one_iff.mpr (by norm_num)
  obtain ⟨i, hi⟩ := h
  exact ⟨i, by rw [hi, sq]⟩

section Field25519
variable [Fact (Nat.Prime P)]

theorem m4_closure_25519 (a b : ZMod P × ZMod P) (ha : onCurveP D a) (hb : onCurveP D b) :
    onCurveP D (edAdd D a b) :=
  m4_closure D two_ne_zero' D_nonsquare neg_one_square a b ha hb

theorem m4_assoc_25519 (a b c : ZMod P × ZMod P) (ha : onCurveP D a) (hb : onCurveP D b)
    (hc : onCurveP D c) : edAdd D (edAdd D a b) c = edAdd D a (edAdd D b c) :=
  m4_assoc D two_ne_zero' D_nonsquare neg_one_square a b c ha hb hc

theorem m4_comm_25519 (a b : ZMod P × ZMod P) (_ha : onCurveP D a) (_hb : onCurveP D b) :
    edAdd D a b = edAdd D b a :=
  m4_comm D a b

theorem m4_identity_25519 (a : ZMod P × ZMod P) (_ha : onCurveP D a) : edAdd D a edId = a :=
  m4_identity D a

theorem m4_inverse_25519 (a : ZMod P × ZMod P) (ha : onCurveP D a) : edAdd D a (edNeg a) = edId :=
  m4_inverse D two_ne_zero' D_nonsquare neg_one_square a ha

end Field25519

/-! ## §6 INTEGER level — exact transliteration of lib/field_spec.vx / lib/edwards_spec.vx and of the five axioms

Here the "int-mod-p ↔ ZMod p" bridge is FORMAL: the Verus spec functions are re-defined over `ℤ` with `%`
(Lean's `%` on `ℤ` is the Euclidean remainder, like Verus's `%` on `int` for a positive modulus), and the five
axioms are proved in exactly the Verus phrasing from the `ZMod P` theorems above. -/
namespace IntLevel

/-- Verus `p()`. -/
def p : ℤ := 57896044618658097711785492504343953926634992332820282019728792003956564819949
/-- Verus `fadd(a, b) = (a + b) % p()`. -/
def fadd (a b : ℤ) : ℤ := (a + b) % p
/-- Verus `fsub(a, b) = (a - b) % p()`. -/
def fsub (a b : ℤ) : ℤ := (a - b) % p
/-- Verus `fneg(a) = (0 - a) % p()`. -/
def fneg (a : ℤ) : ℤ := (0 - a) % p
/-- Verus `fmul(a, b) = (a * b) % p()`. -/
def fmul (a b : ℤ) : ℤ := (a * b) % p
/-- Verus `fsq(a) = (a * a) % p()`. -/
def fsq (a : ℤ) : ℤ := (a * a) % p
/-- Verus `fpow(x, e) = if e == 0 { 1 } else { fmul(x, fpow(x, (e - 1) as nat)) }`. -/
def fpow (x : ℤ) : ℕ → ℤ
  | 0 => 1
  | e + 1 => fmul x (fpow x e)
/-- Verus `p_minus_2()`. -/
def p_minus_2 : ℕ := 57896044618658097711785492504343953926634992332820282019728792003956564819947
/-- Verus `finv(x) = fpow(x, p_minus_2())`. -/
def finv (x : ℤ) : ℤ := fpow x p_minus_2
/-- Verus `fdiv(a, b) = fmul(a, finv(b))`. -/
def fdiv (a b : ℤ) : ℤ := fmul a (finv b)
/-- Verus `ed_d()`. -/
def ed_d : ℤ := 37095705934669439343138083508754565189542113879843219016388785533085940283555
/-- Verus `on_curve(a)`:
    `0 <= x < p() && 0 <= y < p() && fsub(fsq(y), fsq(x)) == fadd(1, fmul(ed_d(), fmul(fsq(x), fsq(y))))`. -/
def on_curve (a : ℤ × ℤ) : Prop :=
  0 ≤ a.1 ∧ a.1 < p ∧ 0 ≤ a.2 ∧ a.2 < p
    ∧ fsub (fsq a.2) (fsq a.1) = fadd 1 (fmul ed_d (fmul (fsq a.1) (fsq a.2)))
/-- Verus `ed_add_affine(a, b)`. -/
def ed_add_affine (a b : ℤ × ℤ) : ℤ × ℤ :=
  let t := fmul ed_d (fmul (fmul a.1 b.1) (fmul a.2 b.2))
  (fdiv (fadd (fmul a.1 b.2) (fmul a.2 b.1)) (fadd 1 t),
   fdiv (fadd (fmul a.2 b.2) (fmul a.1 b.1)) (fsub 1 t))
/-- Verus `ed_neg_affine(a) = (fneg(a.0), a.1)`. -/
def ed_neg_affine (a : ℤ × ℤ) : ℤ × ℤ := (fneg a.1, a.2)
/-- Verus `ed_id() = (0, 1)`. -/
def ed_id : ℤ × ℤ := (0, 1)

/-! ### The bridge -/

theorem p_eq : p = (P : ℤ) := by norm_num [p, P]
theorem p_pos : 0 < p := by norm_num [p]
theorem p_minus_2_eq : p_minus_2 = P - 2 := by norm_num [p_minus_2, P]
theorem ed_d_cast : ((ed_d : ℤ) : ZMod P) = D := by norm_num [ed_d, D]

/-- "canonical representative". -/
def canon (x : ℤ) : Prop := 0 ≤ x ∧ x < p

theorem canon_mod (a : ℤ) : canon (a % p) :=
  ⟨Int.emod_nonneg a p_pos.ne', Int.emod_lt_of_pos a p_pos⟩

theorem cast_mod (a : ℤ) : ((a % p : ℤ) : ZMod P) = (a : ZMod P) := by
  rw [p_eq, ZMod.intCast_mod]

/-- canonical integers are equal iff their classes are. -/
theorem eq_of_cast_eq {a b : ℤ} (ha : canon a) (hb : canon b) (h : (a : ZMod P) = (b : ZMod P)) :
    a = b := by
  have h' := (ZMod.intCast_eq_intCast_iff' a b P).mp h
  rw [← p_eq, Int.emod_eq_of_lt ha.1 ha.2, Int.emod_eq_of_lt hb.1 hb.2] at h'
  exact h'

theorem cast_fadd (a b : ℤ) : ((fadd a b : ℤ) : ZMod P) = (a : ZMod P) + (b : ZMod P) := by
  rw [fadd, cast_mod, Int.cast_add]
theorem cast_fsub (a b : ℤ) : ((fsub a b : ℤ) : ZMod P) = (a : ZMod P) - (b : ZMod P) := by
  rw [fsub, cast_mod, Int.cast_sub]
theorem cast_fneg (a : ℤ) : ((fneg a : ℤ) : ZMod P) = -(a : ZMod P) := by
  rw [fneg, cast_mod, Int.cast_sub, Int.cast_zero, zero_sub]
theorem cast_fmul (a b : ℤ) : ((fmul a b : ℤ) : ZMod P) = (a : ZMod P) * (b : ZMod P) := by
  rw [fmul, cast_mod, Int.cast_mul]
theorem cast_fsq (a : ℤ) : ((fsq a : ℤ) : ZMod P) = (a : ZMod P) ^ 2 := by
  rw [fsq, cast_mod, Int.cast_mul, sq]
theorem cast_fpow (x : ℤ) (e : ℕ) : ((fpow x e : ℤ) : ZMod P) = (x : ZMod P) ^ e := by
  induction e with
  | zero => simp [fpow]
  | succ e ih => rw [fpow, cast_fmul, ih, pow_succ, mul_comm]

/-- class of a pair. -/
def cp (a : ℤ × ℤ) : ZMod P × ZMod P := ((a.1 : ZMod P), (a.2 : ZMod P))

theorem canon_ed_add (a b : ℤ × ℤ) : canon (ed_add_affine a b).1 ∧ canon (ed_add_affine a b).2 :=
  ⟨canon_mod _, canon_mod _⟩

/-- Non-vacuity: the identity satisfies the integer-level `on_curve` (pure computation). -/
theorem on_curve_id : on_curve ed_id := by
  simp only [on_curve, ed_id, fsub, fsq, fadd, fmul, p, ed_d]
  norm_num

variable [Fact (Nat.Prime P)]

theorem cp_ed_neg (a : ℤ × ℤ) : cp (ed_neg_affine a) = edNeg (cp a) := by
  simp only [cp, ed_neg_affine, edNeg, cast_fneg]

theorem cp_ed_id : cp ed_id = (edId : ZMod P × ZMod P) := by
  simp [cp, ed_id, edId]

theorem on_curve_iff (a : ℤ × ℤ) : on_curve a ↔ canon a.1 ∧ canon a.2 ∧ onCurveP D (cp a) := by
  have hcast : ((fsub (fsq a.2) (fsq a.1) : ℤ) : ZMod P)
        = ((fadd 1 (fmul ed_d (fmul (fsq a.1) (fsq a.2))) : ℤ) : ZMod P)
      ↔ onCurveP D (cp a) := by
    simp only [cast_fsub, cast_fadd, cast_fmul, cast_fsq, ed_d_cast, Int.cast_one, onCurveP, onCurve, cp]
  constructor
  · rintro ⟨h1, h2, h3, h4, h5⟩
    exact ⟨⟨h1, h2⟩, ⟨h3, h4⟩, hcast.mp (congrArg _ h5)⟩
  · rintro ⟨⟨h1, h2⟩, ⟨h3, h4⟩, h5⟩
    exact ⟨h1, h2, h3, h4, eq_of_cast_eq (canon_mod _) (canon_mod _) (hcast.mpr h5)⟩

omit [Fact (Nat.Prime P)] in
theorem pair_eq_of_cp_eq {a b : ℤ × ℤ} (ha1 : canon a.1) (ha2 : canon a.2) (hb1 : canon b.1)
    (hb2 : canon b.2) (h : cp a = cp b) : a = b :=
  Prod.ext (eq_of_cast_eq ha1 hb1 (congrArg Prod.fst h)) (eq_of_cast_eq ha2 hb2 (congrArg Prod.snd h))

theorem finv_eq (x : ZMod P) : x ^ (P - 2) = x⁻¹ := by
  by_cases hx : x = 0
  · subst hx; simp
  · apply eq_inv_of_mul_eq_one_left
    rw [← pow_succ]
    exact ZMod.pow_card_sub_one_eq_one hx

theorem cast_finv (x : ℤ) : ((finv x : ℤ) : ZMod P) = (x : ZMod P)⁻¹ := by
  rw [finv, cast_fpow, p_minus_2_eq, finv_eq]
theorem cast_fdiv (a b : ℤ) : ((fdiv a b : ℤ) : ZMod P) = (a : ZMod P) / (b : ZMod P) := by
  rw [fdiv, cast_fmul, cast_finv, div_eq_mul_inv]

theorem cp_ed_add (a b : ℤ × ℤ) : cp (ed_add_affine a b) = edAdd D (cp a) (cp b) := by
  simp only [cp, ed_add_affine, edAdd, cast_fdiv, cast_fadd, cast_fsub, cast_fmul, ed_d_cast, Int.cast_one]

/-! ### The five M4 axioms, Verus phrasing -/

/-- `axiom_m4_closure`: `requires on_curve(a), on_curve(b)  ensures on_curve(ed_add_affine(a, b))`. -/
theorem axiom_m4_closure (a b : ℤ × ℤ) (ha : on_curve a) (hb : on_curve b) :
    on_curve (ed_add_affine a b) := by
  rw [on_curve_iff] at ha hb ⊢
  refine ⟨(canon_ed_add a b).1, (canon_ed_add a b).2, ?_⟩
  rw [cp_ed_add]
  exact m4_closure_25519 _ _ ha.2.2 hb.2.2

/-- `axiom_m4_assoc`: `requires on_curve(a), on_curve(b), on_curve(c)`
    `ensures ed_add_affine(ed_add_affine(a, b), c) == ed_add_affine(a, ed_add_affine(b, c))`. -/
theorem axiom_m4_assoc (a b c : ℤ × ℤ) (ha : on_curve a) (hb : on_curve b) (hc : on_curve c) :
    ed_add_affine (ed_add_affine a b) c = ed_add_affine a (ed_add_affine b c) := by
  rw [on_curve_iff] at ha hb hc
  apply pair_eq_of_cp_eq (canon_ed_add _ _).1 (canon_ed_add _ _).2 (canon_ed_add _ _).1 (canon_ed_add _ _).2
  rw [cp_ed_add, cp_ed_add, cp_ed_add, cp_ed_add]
  exact m4_assoc_25519 _ _ _ ha.2.2 hb.2.2 hc.2.2

/-- `axiom_m4_comm`: `requires on_curve(a), on_curve(b)  ensures ed_add_affine(a, b) == ed_add_affine(b, a)`. -/
theorem axiom_m4_comm (a b : ℤ × ℤ) (_ha : on_curve a) (_hb : on_curve b) :
    ed_add_affine a b = ed_add_affine b a := by
  apply pair_eq_of_cp_eq (canon_ed_add _ _).1 (canon_ed_add _ _).2 (canon_ed_add _ _).1 (canon_ed_add _ _).2
  rw [cp_ed_add, cp_ed_add]
  exact m4_comm D _ _

/-- `axiom_m4_identity`: `requires on_curve(a)  ensures ed_add_affine(a, ed_id()) == a`. -/
theorem axiom_m4_identity (a : ℤ × ℤ) (ha : on_curve a) : ed_add_affine a ed_id = a := by
  rw [on_curve_iff] at ha
  apply pair_eq_of_cp_eq (canon_ed_add _ _).1 (canon_ed_add _ _).2 ha.1 ha.2.1
  rw [cp_ed_add, cp_ed_id]
  exact m4_identity D _

/-- `axiom_m4_inverse`: `requires on_curve(a)  ensures ed_add_affine(a, ed_neg_affine(a)) == ed_id()`. -/
theorem axiom_m4_inverse (a : ℤ × ℤ) (ha : on_curve a) : ed_add_affine a (ed_neg_affine a) = ed_id := by
  rw [on_curve_iff] at ha
  have c0 : canon (0 : ℤ) := ⟨le_refl 0, p_pos⟩
  have c1 : canon (1 : ℤ) := ⟨by norm_num, by norm_num [p]⟩
  apply pair_eq_of_cp_eq (canon_ed_add _ _).1 (canon_ed_add _ _).2 c0 c1
  rw [cp_ed_add, cp_ed_neg, cp_ed_id]
  exact m4_inverse_25519 _ ha.2.2

end IntLevel

end Inst25519

end M4

#print axioms M4.m4_closure
#print axioms M4.m4_assoc
#print axioms M4.m4_comm
#print axioms M4.m4_identity
#print axioms M4.m4_inverse
#print axioms M4.Inst25519.m4_closure_25519
#print axioms M4.Inst25519.m4_assoc_25519
#print axioms M4.Inst25519.m4_comm_25519
#print axioms M4.Inst25519.m4_identity_25519
#print axioms M4.Inst25519.m4_inverse_25519
#print axioms M4.Inst25519.IntLevel.axiom_m4_closure
#print axioms M4.Inst25519.IntLevel.axiom_m4_assoc
#print axioms M4.Inst25519.IntLevel.axiom_m4_comm
#print axioms M4.Inst25519.IntLevel.axiom_m4_identity
#print axioms M4.Inst25519.IntLevel.axiom_m4_inverse
