/-
  M3.lean — Lean 4 / Mathlib proof of the two "formula axioms" M3 of the Verus project
  (/verif/contracts/lib/ed_axioms.vx : `axiom_m3_add_pniels`, `axiom_m3_double`)
  for the twisted Edwards curve  -x^2 + y^2 = 1 + d x^2 y^2  (a = -1) over an ARBITRARY field `F`
  with  2 ≠ 0,  d a non-square,  -1 a square.

  Contents
    §1 definitions mirroring the Verus spec functions
    §2 completeness (Bernstein–Lange): the two denominators of the addition law never vanish on the curve
    §3 closure of the affine law (the sum is on the curve)
    §4 theorem m3_add_pniels
    §5 theorem m3_double
    §6 (bonus) instantiation at F = ZMod (2^255-19), d = ed_d(), assuming only `Nat.Prime (2^255-19)`
  No `sorry`, no extra axioms (see the `#print axioms` at the end and check.sh).
-/
import Mathlib

namespace M3

variable {F : Type*} [Field F]

/-! ## §1 Definitions (mirror of lib/edwards_spec.vx, lib/ed_models_spec.vx, lib/ed_axioms.vx) -/

/-- Verus `on_curve((x, y))` without the range clause `0 <= x < p && 0 <= y < p` (which is what makes an `int`
    an element of the field):  `fsub(fsq(y), fsq(x)) == fadd(1, fmul(ed_d(), fmul(fsq(x), fsq(y))))`. -/
def onCurve (d x y : F) : Prop := y ^ 2 - x ^ 2 = 1 + d * (x ^ 2 * y ^ 2)

/-- Verus `ed_add_affine(a, b)`:
    `t = fmul(d, fmul(fmul(x1, x2), fmul(y1, y2)))`,
    `(fdiv(fadd(fmul(x1,y2), fmul(y1,x2)), fadd(1,t)), fdiv(fadd(fmul(y1,y2), fmul(x1,x2)), fsub(1,t)))`.
    `fdiv(a, b) = a * b^(p-2)`, so `fdiv(a, 0) = 0` exactly as Lean's `a / 0 = 0`. -/
def edAdd (d : F) (a b : F × F) : F × F :=
  let t := d * ((a.1 * b.1) * (a.2 * b.2))
  ((a.1 * b.2 + a.2 * b.1) / (1 + t), (a.2 * b.2 + a.1 * b.1) / (1 - t))

/-- Verus `ed_double_affine(a) = ed_add_affine(a, a)`. -/
def edDouble (d : F) (a : F × F) : F × F := edAdd d a a

/-- Verus `aff2(x, y, z) = (fdiv(x, z), fdiv(y, z))`. -/
def aff2 (x y z : F) : F × F := (x / z, y / z)

/-- Verus `ext_vals_valid(x, y, z, t) = z != 0 && on_curve(aff2(x, y, z)) && fmul(x, y) == fmul(z, t)`. -/
def extValsValid (d x y z t : F) : Prop :=
  z ≠ 0 ∧ onCurve d (aff2 x y z).1 (aff2 x y z).2 ∧ x * y = z * t

/-- Verus `proj_vals_valid(x, y, z) = z != 0 && on_curve(aff2(x, y, z))`. -/
def projValsValid (d x y z : F) : Prop :=
  z ≠ 0 ∧ onCurve d (aff2 x y z).1 (aff2 x y z).2

/-- Verus `compl_vals_affine(c) = (fdiv(c.0, c.2), fdiv(c.1, c.3))`. -/
def complValsAffine (c : F × F × F × F) : F × F := (c.1 / c.2.2.1, c.2.1 / c.2.2.2)

/-- Verus `compl_vals_valid(c) = c.2 != 0 && c.3 != 0 && on_curve(compl_vals_affine(c))`. -/
def complValsValid (d : F) (c : F × F × F × F) : Prop :=
  c.2.2.1 ≠ 0 ∧ c.2.2.2 ≠ 0 ∧ onCurve d (complValsAffine c).1 (complValsAffine c).2

/-- Verus `pniels_vals_affine(a, b, z) = (fdiv(fsub(a, b), fmul(2, z)), fdiv(fadd(a, b), fmul(2, z)))`. -/
def pnielsValsAffine (a b z : F) : F × F := ((a - b) / (2 * z), (a + b) / (2 * z))

/-- Verus `pniels_vals_valid(a, b, z, c)`:
    `let q = pniels_vals_affine(a, b, z); z != 0 && on_curve(q) && c == fmul(fmul(ed_d2(), fmul(q.0, q.1)), z)`
    where `ed_d2() == fmul(2, ed_d())` (Verus `lemma_ed_d2`, proved there by computation). -/
def pnielsValsValid (d a b z c : F) : Prop :=
  let q := pnielsValsAffine a b z
  z ≠ 0 ∧ onCurve d q.1 q.2 ∧ c = ((2 * d) * (q.1 * q.2)) * z

/-- Verus `m3_add_pn_tree` (same `let` structure, same operand order). -/
def addPnTree (x1 y1 z1 t1 a2 b2 z2 c2 : F) : F × F × F × F :=
  let y_plus_x := y1 + x1
  let y_minus_x := y1 - x1
  let pp := y_plus_x * a2
  let mm := y_minus_x * b2
  let tt2d := t1 * c2
  let zz := z1 * z2
  let zz2 := zz + zz
  (pp - mm, pp + mm, zz2 + tt2d, zz2 - tt2d)

/-- Verus `m3_double_tree` (same `let` structure; `fsq(x) = x * x` is written `x ^ 2`). -/
def doubleTree (x y z : F) : F × F × F × F :=
  let xx := x ^ 2
  let yy := y ^ 2
  let zz2 := 2 * z ^ 2
  let x_plus_y := x + y
  let x_plus_y_sq := x_plus_y ^ 2
  let yy_plus_xx := yy + xx
  let yy_minus_xx := yy - xx
  (x_plus_y_sq - yy_plus_xx, yy_plus_xx, yy_minus_xx, zz2 - yy_minus_xx)

/-! ## §2 Completeness -/

/-- Bernstein–Lange: if `e = d x1 x2 y1 y2 = ±1` for two points of the curve, then `d` is a square. -/
theorem compl_aux (d : F) (h2 : (2 : F) ≠ 0) (hd : ¬ ∃ r : F, r ^ 2 = d) (hi : ∃ i : F, i ^ 2 = -1)
    {x1 y1 x2 y2 e : F} (h1 : onCurve d x1 y1) (hq : onCurve d x2 y2)
    (he : e = d * x1 * x2 * y1 * y2) (hee : e ^ 2 = 1) : False := by
  obtain ⟨i, hi⟩ := hi
  unfold onCurve at h1 hq
  have hx1 : x1 ≠ 0 := by rintro rfl; simp [he] at hee
  have hy1 : y1 ≠ 0 := by rintro rfl; simp [he] at hee
  have hy2 : y2 ≠ 0 := by rintro rfl; simp [he] at hee
  -- (i x1 + s e y1)^2 = d (x1 y1 (i x2 + s y2))^2   for s = ±1
  have key : ∀ s : F, s ^ 2 = 1 →
      (i * x1 + s * e * y1) ^ 2 = d * (x1 * y1 * (i * x2 + s * y2)) ^ 2 := by
    intro s hs
    linear_combination (2 * i * s * x1 * y1 + e + d * x1 * x2 * y1 * y2) * he
      + (x1 ^ 2 - d * x1 ^ 2 * y1 ^ 2 * x2 ^ 2) * hi
      + (e ^ 2 * y1 ^ 2 - d * x1 ^ 2 * y1 ^ 2 * y2 ^ 2) * hs
      + (y1 ^ 2 - 1) * hee - d * x1 ^ 2 * y1 ^ 2 * hq + h1
  -- hence i x2 + s y2 = 0 (otherwise d is a square)
  have nz : ∀ s : F, s ^ 2 = 1 → i * x2 + s * y2 = 0 := by
    intro s hs
    by_contra hne
    apply hd
    refine ⟨(i * x1 + s * e * y1) / (x1 * y1 * (i * x2 + s * y2)), ?_⟩
    have hden : x1 * y1 * (i * x2 + s * y2) ≠ 0 := mul_ne_zero (mul_ne_zero hx1 hy1) hne
    rw [div_pow, key s hs]
    field_simp
  have a := nz 1 (by ring)
  have b := nz (-1) (by ring)
  apply hy2
  have : 2 * y2 = 0 := by linear_combination a - b
  exact (mul_eq_zero.mp this).resolve_left h2

/-- **Completeness of the addition law** (a = -1 a square, d a non-square, char ≠ 2):
    both denominators are non-zero for any two points ON the curve. -/
theorem completeness (d : F) (h2 : (2 : F) ≠ 0) (hd : ¬ ∃ r : F, r ^ 2 = d) (hi : ∃ i : F, i ^ 2 = -1)
    {x1 y1 x2 y2 : F} (h1 : onCurve d x1 y1) (hq : onCurve d x2 y2) :
    1 + d * x1 * x2 * y1 * y2 ≠ 0 ∧ 1 - d * x1 * x2 * y1 * y2 ≠ 0 := by
  constructor
  · intro h
    exact compl_aux d h2 hd hi h1 hq rfl (by linear_combination (d * x1 * x2 * y1 * y2 - 1) * h)
  · intro h
    exact compl_aux d h2 hd hi h1 hq rfl (by linear_combination (-d * x1 * x2 * y1 * y2 - 1) * h)

/-! ## §3 Closure -/

/-- Clearing denominators in the curve equation of `(N1/D1, N2/D2)`. -/
theorem frac_aux (d N1 N2 D1 D2 : F) (hD1 : D1 ≠ 0) (hD2 : D2 ≠ 0)
    (h : N2 ^ 2 * D1 ^ 2 - N1 ^ 2 * D2 ^ 2 = D1 ^ 2 * D2 ^ 2 + d * (N1 ^ 2 * N2 ^ 2)) :
    (N2 / D2) ^ 2 - (N1 / D1) ^ 2 = 1 + d * ((N1 / D1) ^ 2 * (N2 / D2) ^ 2) := by
  field_simp
  linear_combination h

/-- The sum given by the addition law is on the curve whenever the two denominators are non-zero. -/
theorem closure (d : F) {x1 y1 x2 y2 : F} (h1 : onCurve d x1 y1) (hq : onCurve d x2 y2)
    (hD1 : 1 + d * ((x1 * x2) * (y1 * y2)) ≠ 0) (hD2 : 1 - d * ((x1 * x2) * (y1 * y2)) ≠ 0) :
    onCurve d ((x1 * y2 + y1 * x2) / (1 + d * ((x1 * x2) * (y1 * y2))))
              ((y1 * y2 + x1 * x2) / (1 - d * ((x1 * x2) * (y1 * y2)))) := by
  unfold onCurve at *
  -- polynomial form:  N2^2 D1^2 - N1^2 D2^2 = D1^2 D2^2 + d N1^2 N2^2
  have hpoly :
      (y1 * y2 + x1 * x2) ^ 2 * (1 + d * ((x1 * x2) * (y1 * y2))) ^ 2
        - (x1 * y2 + y1 * x2) ^ 2 * (1 - d * ((x1 * x2) * (y1 * y2))) ^ 2
      = (1 + d * ((x1 * x2) * (y1 * y2))) ^ 2 * (1 - d * ((x1 * x2) * (y1 * y2))) ^ 2
        + d * ((x1 * y2 + y1 * x2) ^ 2 * (y1 * y2 + x1 * x2) ^ 2) := by
    linear_combination
      ((1 + (d * (x1 * y1) * (x2 * y2)) ^ 2) * (y2 ^ 2 - x2 ^ 2)
          - d * (x2 * y2) ^ 2 * ((y1 ^ 2 - x1 ^ 2) + (1 + d * (x1 ^ 2 * y1 ^ 2)))) * h1
      + ((1 + (d * (x1 * y1) * (x2 * y2)) ^ 2) * (1 + d * (x1 ^ 2 * y1 ^ 2))
          - d * (x1 * y1) ^ 2 * ((y2 ^ 2 - x2 ^ 2) + (1 + d * (x2 ^ 2 * y2 ^ 2)))) * hq
  exact frac_aux d _ _ _ _ hD1 hD2 hpoly

/-! ## §4 `axiom_m3_add_pniels` -/

/-- Core computation in "affine × scale" form: the inputs are written
    `x1 = X1 z1, y1 = Y1 z1, t1 = X1 Y1 z1, a2 = (Y2+X2) z2, b2 = (Y2-X2) z2, c2 = 2 d X2 Y2 z2`. -/
theorem add_core (d : F) (h2 : (2 : F) ≠ 0) (hd : ¬ ∃ r : F, r ^ 2 = d) (hi : ∃ i : F, i ^ 2 = -1)
    (X1 Y1 X2 Y2 z1 z2 : F) (hz1 : z1 ≠ 0) (hz2 : z2 ≠ 0)
    (h1 : onCurve d X1 Y1) (hq : onCurve d X2 Y2) :
    complValsValid d (addPnTree (X1 * z1) (Y1 * z1) z1 (X1 * Y1 * z1)
        ((Y2 + X2) * z2) ((Y2 - X2) * z2) z2 (((2 * d) * (X2 * Y2)) * z2))
    ∧ complValsAffine (addPnTree (X1 * z1) (Y1 * z1) z1 (X1 * Y1 * z1)
        ((Y2 + X2) * z2) ((Y2 - X2) * z2) z2 (((2 * d) * (X2 * Y2)) * z2))
      = edAdd d (X1, Y1) (X2, Y2) := by
  obtain ⟨hD1', hD2'⟩ := completeness d h2 hd hi h1 hq
  have hD1 : 1 + d * ((X1 * X2) * (Y1 * Y2)) ≠ 0 := by
    intro h; apply hD1'; linear_combination h
  have hD2 : 1 - d * ((X1 * X2) * (Y1 * Y2)) ≠ 0 := by
    intro h; apply hD2'; linear_combination h
  have hk : 2 * (z1 * z2) ≠ 0 := mul_ne_zero h2 (mul_ne_zero hz1 hz2)
  have hcl := closure d h1 hq hD1 hD2
  -- the four coordinates of the tree, factored
  have e1 : (Y1 * z1 + X1 * z1) * ((Y2 + X2) * z2) - (Y1 * z1 - X1 * z1) * ((Y2 - X2) * z2)
      = 2 * (z1 * z2) * (X1 * Y2 + Y1 * X2) := by ring
  have e2 : (Y1 * z1 + X1 * z1) * ((Y2 + X2) * z2) + (Y1 * z1 - X1 * z1) * ((Y2 - X2) * z2)
      = 2 * (z1 * z2) * (Y1 * Y2 + X1 * X2) := by ring
  have e3 : z1 * z2 + z1 * z2 + X1 * Y1 * z1 * (((2 * d) * (X2 * Y2)) * z2)
      = 2 * (z1 * z2) * (1 + d * ((X1 * X2) * (Y1 * Y2))) := by ring
  have e4 : z1 * z2 + z1 * z2 - X1 * Y1 * z1 * (((2 * d) * (X2 * Y2)) * z2)
      = 2 * (z1 * z2) * (1 - d * ((X1 * X2) * (Y1 * Y2))) := by ring
  simp only [complValsValid, complValsAffine, addPnTree, edAdd]
  rw [e1, e2, e3, e4, mul_div_mul_left _ _ hk, mul_div_mul_left _ _ hk]
  exact ⟨⟨mul_ne_zero hk hD1, mul_ne_zero hk hD2, hcl⟩, rfl⟩

/-- **M3 / `axiom_m3_add_pniels`.**  Verus text:
    ```
    requires canon(x1), …, canon(c2), ext_vals_valid(x1, y1, z1, t1), pniels_vals_valid(a2, b2, z2, c2),
    ensures ({ let c = m3_add_pn_tree(x1, y1, z1, t1, a2, b2, z2, c2);
               compl_vals_valid(c)
               && compl_vals_affine(c) == ed_add_affine(aff2(x1, y1, z1), pniels_vals_affine(a2, b2, z2)) })
    ``` -/
theorem m3_add_pniels (d : F) (h2 : (2 : F) ≠ 0) (hd : ¬ ∃ r : F, r ^ 2 = d) (hi : ∃ i : F, i ^ 2 = -1)
    (x1 y1 z1 t1 a2 b2 z2 c2 : F)
    (hext : extValsValid d x1 y1 z1 t1)
    (hpn : pnielsValsValid d a2 b2 z2 c2) :
    let c := addPnTree x1 y1 z1 t1 a2 b2 z2 c2
    complValsValid d c ∧
      complValsAffine c = edAdd d (aff2 x1 y1 z1) (pnielsValsAffine a2 b2 z2) := by
  obtain ⟨hz1, h1, ht⟩ := hext
  obtain ⟨hz2, hq, hc⟩ := hpn
  simp only [aff2, pnielsValsAffine] at h1 hq hc ⊢
  have h2z2 : (2 : F) * z2 ≠ 0 := mul_ne_zero h2 hz2
  have ex1 : x1 = x1 / z1 * z1 := by field_simp
  have ey1 : y1 = y1 / z1 * z1 := by field_simp
  have et1 : t1 = x1 / z1 * (y1 / z1) * z1 := by
    field_simp; linear_combination -ht
  have ea2 : a2 = ((a2 + b2) / (2 * z2) + (a2 - b2) / (2 * z2)) * z2 := by
    field_simp; ring
  have eb2 : b2 = ((a2 + b2) / (2 * z2) - (a2 - b2) / (2 * z2)) * z2 := by
    field_simp; ring
  have := add_core d h2 hd hi (x1 / z1) (y1 / z1) ((a2 - b2) / (2 * z2)) ((a2 + b2) / (2 * z2))
    z1 z2 hz1 hz2 h1 hq
  rw [← ex1, ← ey1, ← et1, ← ea2, ← eb2, ← hc] at this
  exact this

/-! ## §5 `axiom_m3_double` -/

/-- **M3 / `axiom_m3_double`.**  Verus text:
    ```
    requires canon(x), canon(y), canon(z), proj_vals_valid(x, y, z),
    ensures ({ let c = m3_double_tree(x, y, z);
               compl_vals_valid(c) && compl_vals_affine(c) == ed_double_affine(aff2(x, y, z)) })
    ``` -/
theorem m3_double (d : F) (h2 : (2 : F) ≠ 0) (hd : ¬ ∃ r : F, r ^ 2 = d) (hi : ∃ i : F, i ^ 2 = -1)
    (x y z : F)
    (hproj : projValsValid d x y z) :
    let c := doubleTree x y z
    complValsValid d c ∧ complValsAffine c = edDouble d (aff2 x y z) := by
  obtain ⟨hz, h1⟩ := hproj
  simp only [aff2] at h1 ⊢
  obtain ⟨hD1', hD2'⟩ := completeness d h2 hd hi h1 h1
  have hD1 : 1 + d * ((x / z * (x / z)) * (y / z * (y / z))) ≠ 0 := by
    intro h; apply hD1'; linear_combination h
  have hD2 : 1 - d * ((x / z * (x / z)) * (y / z * (y / z))) ≠ 0 := by
    intro h; apply hD2'; linear_combination h
  have hcl := closure d h1 h1 hD1 hD2
  have hzz : z ^ 2 ≠ 0 := pow_ne_zero 2 hz
  -- on the curve, z^2 (1 + d x'^2 y'^2) = y^2 - x^2  and  z^2 (1 - d x'^2 y'^2) = 2 z^2 - (y^2 - x^2)
  have hc : y ^ 2 - x ^ 2 = z ^ 2 * (1 + d * ((x / z * (x / z)) * (y / z * (y / z)))) := by
    unfold onCurve at h1
    have : z ^ 2 * (1 + d * ((x / z * (x / z)) * (y / z * (y / z))))
        = z ^ 2 * ((y / z) ^ 2 - (x / z) ^ 2) := by rw [h1]; ring
    rw [this]; field_simp
  have e1 : (x + y) ^ 2 - (y ^ 2 + x ^ 2) = z ^ 2 * (x / z * (y / z) + y / z * (x / z)) := by
    field_simp; ring
  have e2 : y ^ 2 + x ^ 2 = z ^ 2 * (y / z * (y / z) + x / z * (x / z)) := by
    field_simp
  have e4 : 2 * z ^ 2 - (y ^ 2 - x ^ 2)
      = z ^ 2 * (1 - d * ((x / z * (x / z)) * (y / z * (y / z)))) := by
    rw [hc]; ring
  simp only [complValsValid, complValsAffine, doubleTree, edDouble, edAdd]
  rw [e1, e4, e2, hc, mul_div_mul_left _ _ hzz, mul_div_mul_left _ _ hzz]
  exact ⟨⟨mul_ne_zero hzz hD1, mul_ne_zero hzz hD2, hcl⟩, rfl⟩

/-! ### Non-vacuity: the validity predicates are satisfiable (identity point (0:1:1:0), its Niels form (1,1,1,0)) -/

example (d : F) : extValsValid d 0 1 1 0 := by
  simp [extValsValid, aff2, onCurve]

example (d : F) : projValsValid d 0 1 1 := by
  simp [projValsValid, aff2, onCurve]

example (d : F) (h2 : (2 : F) ≠ 0) : pnielsValsValid d 1 1 1 0 := by
  have h : ((1 : F) + 1) / 2 = 1 := by field_simp; norm_num
  simp [pnielsValsValid, pnielsValsAffine, onCurve, h]

/-! ## §6 Instantiation at F = ZMod (2^255 - 19), d = ed_d()  — ASSUMING ONLY that 2^255 - 19 is prime

The three side hypotheses are discharged for the concrete field and the concrete `d` of lib/edwards_spec.vx:
`2 ≠ 0`; `d` non-square by Euler's criterion (d^((p-1)/2) = -1, evaluated by `reduce_mod_char`); `-1` square since
p % 4 = 1.  Primality of `P` is a hypothesis (`[Fact (Nat.Prime P)]`), it is NOT proved here. -/
namespace Inst25519

/-- Verus `p()` (lib/field_spec.vx). -/
abbrev P : ℕ := 57896044618658097711785492504343953926634992332820282019728792003956564819949
/-- Verus `ed_d()` (lib/edwards_spec.vx). -/
abbrev D : ZMod P := 37095705934669439343138083508754565189542113879843219016388785533085940283555

theorem P_eq : P = 2 ^ 255 - 19 := by norm_num

/-- `ed_d() = -121665/121666` (RFC 8032) — consistency check of the literal. -/
theorem D_eq : D * 121666 = -121665 := by reduce_mod_char

/-- Verus `ed_d2() == fmul(2, ed_d())` (`lemma_ed_d2`) — consistency check of the literal used for `c2 = 2d·x·y·z`. -/
theorem D2_eq :
    (16295367250680780974490674513165176452449235426866156013048779062215315747161 : ZMod P) = 2 * D := by
  reduce_mod_char

theorem two_ne_zero' [Fact (Nat.Prime P)] : (2 : ZMod P) ≠ 0 := by
  intro h
  have h' : ((2 : ℕ) : ZMod P) = 0 := by exact_mod_cast h
  rw [ZMod.natCast_eq_zero_iff] at h'
  exact absurd (Nat.le_of_dvd (by norm_num) h') (by norm_num)

/-- Verus `finv(x) = fpow(x, p - 2)` is the field inverse, with `finv(0) = 0` like Lean's `0⁻¹ = 0`;
    hence Verus `fdiv(a, b) = fmul(a, finv(b))` is Lean's `a / b`. -/
theorem finv_eq [Fact (Nat.Prime P)] (x : ZMod P) : x ^ (P - 2) = x⁻¹ := by
  by_cases hx : x = 0
  · subst hx; simp
  · apply eq_inv_of_mul_eq_one_left
    rw [← pow_succ]
    exact ZMod.pow_card_sub_one_eq_one hx

theorem fdiv_eq [Fact (Nat.Prime P)] (a b : ZMod P) : a * b ^ (P - 2) = a / b := by
  rw [finv_eq, div_eq_mul_inv]

theorem D_pow : D ^ (P / 2) = -1 := by
  have : P / 2 = 28948022309329048855892746252171976963317496166410141009864396001978282409974 := by
    norm_num
  rw [this]
  reduce_mod_char

theorem D_nonsquare [Fact (Nat.Prime P)] : ¬ ∃ r : ZMod P, r ^ 2 = D := by
  rintro ⟨r, hr⟩
  have hsq : IsSquare D := ⟨r, by rw [← hr, sq]⟩
  have hD0 : D ≠ 0 := by
    intro h0
    have := D_pow
    rw [h0, zero_pow (by norm_num)] at this
    have h2 : (2 : ZMod P) = 0 := by linear_combination (2 : ZMod P) * this
    exact two_ne_zero' h2
  rw [ZMod.euler_criterion P hD0, D_pow] at hsq
  have h2 : (2 : ZMod P) = 0 := by linear_combination (-1 : ZMod P) * hsq
  exact two_ne_zero' h2

theorem neg_one_square [Fact (Nat.Prime P)] : ∃ i : ZMod P, i ^ 2 = -1 := by
  have h : IsSquare (-1 : ZMod P) := ZMod.exists_sq_eq_neg_one_iff.mpr (by norm_num)
  obtain ⟨i, hi⟩ := h
  exact ⟨i, by rw [hi, sq]⟩

/-- `axiom_m3_add_pniels` over GF(2^255-19) with d = ed_d(), assuming only that 2^255-19 is prime. -/
theorem m3_add_pniels_25519 [Fact (Nat.Prime P)] (x1 y1 z1 t1 a2 b2 z2 c2 : ZMod P)
    (hext : extValsValid D x1 y1 z1 t1) (hpn : pnielsValsValid D a2 b2 z2 c2) :
    let c := addPnTree x1 y1 z1 t1 a2 b2 z2 c2
    complValsValid D c ∧
      complValsAffine c = edAdd D (aff2 x1 y1 z1) (pnielsValsAffine a2 b2 z2) :=
  m3_add_pniels D two_ne_zero' D_nonsquare neg_one_square x1 y1 z1 t1 a2 b2 z2 c2 hext hpn

/-- `axiom_m3_double` over GF(2^255-19) with d = ed_d(), assuming only that 2^255-19 is prime. -/
theorem m3_double_25519 [Fact (Nat.Prime P)] (x y z : ZMod P) (hproj : projValsValid D x y z) :
    let c := doubleTree x y z
    complValsValid D c ∧ complValsAffine c = edDouble D (aff2 x y z) :=
  m3_double D two_ne_zero' D_nonsquare neg_one_square x y z hproj

end Inst25519

end M3

#print axioms M3.completeness
#print axioms M3.closure
#print axioms M3.m3_add_pniels
#print axioms M3.m3_double
#print axioms M3.Inst25519.m3_add_pniels_25519
#print axioms M3.Inst25519.m3_double_25519
#print axioms M3.Inst25519.fdiv_eq
