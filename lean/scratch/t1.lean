import Mathlib

variable {F : Type*} [Field F]

def onCurve (d x y : F) : Prop := y^2 - x^2 = 1 + d * (x^2 * y^2)

theorem compl_aux (d : F) (h2 : (2:F) ≠ 0) (hd : ¬ ∃ r : F, r^2 = d) (hi : ∃ i : F, i^2 = -1)
    {x1 y1 x2 y2 e : F} (h1 : onCurve d x1 y1) (hq : onCurve d x2 y2)
    (he : e = d * x1 * x2 * y1 * y2) (hee : e^2 = 1) : False := by
  obtain ⟨i, hi⟩ := hi
  unfold onCurve at h1 hq
  have hx1 : x1 ≠ 0 := by rintro rfl; simp [he] at hee
  have hy1 : y1 ≠ 0 := by rintro rfl; simp [he] at hee
  have hy2 : y2 ≠ 0 := by rintro rfl; simp [he] at hee
  have key : ∀ s : F, s^2 = 1 → (i*x1 + s*e*y1)^2 = d * (x1*y1*(i*x2 + s*y2))^2 := by
    intro s hs
    grind
  sorry
