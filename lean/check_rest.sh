#!/usr/bin/env bash
# Checks /verif/lean/{M1,M2,M4,M5,M6}.lean (whichever are present) with Lean 4 + Mathlib — same rules as check.sh:
# for each file, prints `LEAN-OK <file>` iff
#   * lean exits 0 with no `error` and no `sorry` in its output,
#   * the source contains no `sorry` / `admit` / `native_decide` token and no `axiom` declaration outside comments,
#   * every expected `#print axioms` line is present and mentions only propext / Classical.choice / Quot.sound
#     (in particular no `sorryAx`, no `Lean.ofReduceBool`, no user axiom), and no other axiom report is dirty.
# Exit 0 iff ALL present files pass (and at least one is present); exit 1 otherwise (`LEAN-FAIL <file>: reason`).
# Usage: ./check_rest.sh            (all of M1 M2 M4 M5 M6 that exist)
#        ./check_rest.sh M4 M2      (only these)
set -u
HERE="$(cd "$(dirname "${BASH_SOURCE[0]}")" && pwd)"
TMO="${LEAN_TIMEOUT:-1800}"

expected_for() {
  case "$1" in
    M1) echo "M1.fermat_field M1.no_zero_divisors_field M1.Inst25519.m1_fermat_zmod M1.Inst25519.m1_no_zero_divisors_zmod M1.Inst25519.axiom_m1_fermat M1.Inst25519.axiom_m1_no_zero_divisors" ;;
    M2) echo "M2.m2_sqrt_ratio M2.Inst25519.sqrt_m1_sq M2.Inst25519.m2_sqrt_ratio_25519 M2.Inst25519.IntLevel.axiom_M2_sqrt_ratio" ;;
    M4) echo "M4.m4_closure M4.m4_assoc M4.m4_comm M4.m4_identity M4.m4_inverse M4.Inst25519.m4_closure_25519 M4.Inst25519.m4_assoc_25519 M4.Inst25519.m4_comm_25519 M4.Inst25519.m4_identity_25519 M4.Inst25519.m4_inverse_25519 M4.Inst25519.IntLevel.axiom_m4_closure M4.Inst25519.IntLevel.axiom_m4_assoc M4.Inst25519.IntLevel.axiom_m4_comm M4.Inst25519.IntLevel.axiom_m4_identity M4.Inst25519.IntLevel.axiom_m4_inverse" ;;
    M5) echo "M5.sqrtRatioM1_spec M5.m5_elligator M5.Inst25519.m5_elligator_25519 M5.Inst25519.IntLevel.axiom_m5_elligator_on_curve" ;;
    M6) echo "M6.g_is_square M6.m6_elligator2 M6.Inst25519.m6_elligator2_25519 M6.Inst25519.IntLevel.axiom_m6_elligator2_on_curve" ;;
    *)  echo "" ;;
  esac
}

check_one() {  # $1 = base name (M1, ...); returns 0 on success
  local base="$1" file="$HERE/$1.lean" out rc start end stripped line axs t a
  out="$(mktemp)"
  start=$(date +%s)
  ( cd "$HERE" && timeout "$TMO" lean "$file" ) >"$out" 2>&1
  rc=$?
  if [ $rc -ne 0 ] && grep -q "unknown module prefix\|object file .* does not exist\|unknown package" "$out"; then
    # plain `lean` cannot see Mathlib: go through the Mathlib lake environment
    ( cd /opt/veriftools/mathlib4 && timeout "$TMO" lake env lean "$file" ) >"$out" 2>&1
    rc=$?
  fi
  end=$(date +%s)
  cat "$out"
  echo "[check_rest.sh] $base.lean: lean exit code $rc, wall time $((end-start)) s"

  fail() { echo "LEAN-FAIL $base.lean: $1"; rm -f "$out"; return 1; }

  [ $rc -eq 0 ] || { fail "lean exit code $rc"; return 1; }
  grep -q "error" "$out" && { fail "error in lean output"; return 1; }
  grep -qi "sorry" "$out" && { fail "sorry / sorryAx in lean output"; return 1; }

  # source-level: no sorry / admit / native_decide / axiom outside comments (strip /- -/ blocks and -- comments)
  stripped="$(perl -0pe 's{/-.*?-/}{}gs; s{--[^\n]*}{}g' "$file")"
  echo "$stripped" | grep -nw "sorry\|admit\|native_decide" && { fail "sorry/admit/native_decide token in source"; return 1; }
  echo "$stripped" | grep -n "^\s*axiom\b" && { fail "axiom declaration in source"; return 1; }

  for t in $(expected_for "$base"); do
    line="$(grep -A3 "^'$t' depends on axioms:" "$out" | tr '\n' ' ' | sed 's/\].*/]/')"
    [ -n "$line" ] || { fail "no '#print axioms' output for $t"; return 1; }
    axs="$(echo "$line" | sed 's/.*\[\(.*\)\].*/\1/' | tr ',' '\n' | sed 's/^ *//; s/ *$//' | grep -v '^$')"
    for a in $axs; do
      case "$a" in
        propext|Classical.choice|Quot.sound) ;;
        *) fail "$t depends on non-standard axiom: $a"; return 1 ;;
      esac
    done
  done
  # any other axiom report must be clean as well (multi-line reports included)
  if grep -A6 "depends on axioms" "$out" | grep -q "sorryAx\|ofReduceBool\|trustCompiler"; then
    fail "sorryAx / ofReduceBool in an axiom report"; return 1
  fi
  rm -f "$out"
  echo "LEAN-OK $base.lean"
  return 0
}

if [ $# -gt 0 ]; then LIST="$*"; else LIST="M1 M4 M2 M5 M6"; fi
present=0; failed=0
for b in $LIST; do
  b="${b%.lean}"
  if [ -f "$HERE/$b.lean" ]; then
    present=$((present+1))
    check_one "$b" || failed=$((failed+1))
  else
    echo "[check_rest.sh] $b.lean not present — skipped"
  fi
done
echo "[check_rest.sh] files checked: $present, failed: $failed"
[ $present -gt 0 ] && [ $failed -eq 0 ] && exit 0
exit 1
