/-
  M5.lean — Lean 4 / Mathlib proof of the "Elligator axiom" M5 of the Verus project
  (/verif/contracts/lib/ris_axioms.vx : `axiom_m5_elligator_on_curve`):
  the Ristretto-flavoured Elligator 2 map MAP of RFC 9496 §4.3.4 (`r255_map`, lib/ris_spec.vx) always yields
  (x : y : z : t') with z ≠ 0 and (x/z, y/z) on the curve  -x^2 + y^2 = 1 + d x^2 y^2.

  Contents
    §1 definitions mirroring `sqrt_cand`, `sqrt_ratio_m1`, `r255_map`, `on_curve`; the sign-normalisation
       `r255_ct_abs` (which looks at the parity of the canonical representative, not a field notion) is an abstract
       function `ctAbs : F → F` with  ∀ x, ctAbs x = x ∨ ctAbs x = -x
    §2 the part of M2 that is needed (copied/trimmed from M2.lean so that this file is self-contained):
       v ≠ 0 → v·cand² ∈ {u, -u, i u, -(i u)}
    §3 specification of `sqrt_ratio_m1`:  v ≠ 0 → (was_square → v s² = u) ∧ (¬was_square → v s² = i u);  v = 0 → s = 0
    §4 the theorem over an ARBITRARY finite field with q ≡ 5 (mod 8) elements, d a non-square, i² = -1,
       and constants  one_minus_d_sq = 1 - d², d_minus_one_sq = (d-1)², sqrt_ad_minus_one² = -d - 1
    §5 instantiation at F = ZMod (2^255-19) with the RFC 9496 numerals and the real `ct_abs`,
       assuming only `Nat.Prime (2^255-19)`
    §6 INTEGER level: all the Verus spec functions (incl. `r255_is_negative`, `r255_ct_abs`, `sqrt_ratio_m1`,
       `r255_map`) transliterated over `ℤ` with `%`, and the axiom in exactly the Verus phrasing, derived from §5 —
       the int-mod-p ↔ ZMod p bridge is formal here
  No `sorry`, no extra axioms.
-/
import Mathlib

namespace M5

/-! ## §1 Definitions -/

section Defs
variable {F : Type*} [CommRing F] [DecidableEq F]

/-- Verus `on_curve((x, y))` without the range clause. -/
def onCurve (d x y : F) : Prop := y ^ 2 - x ^ 2 = 1 + d * (x ^ 2 * y ^ 2)

/-- Verus `sqrt_cand(u, v)` (lib/axiom_sqrt_ratio.vx) with the exponent `p58()` as a parameter `m`. -/
def sqrtCand (m : ℕ) (u v : F) : F :=
  let v3 := v ^ 2 * v
  let v7 := v3 ^ 2 * v
  (u * v3) * (u * v7) ^ m

/-- Verus `sqrt_ratio_m1(u, v)` (lib/ris_spec.vx), same `let` structure:
    ```
    let r = sqrt_cand(u, v);  let check = fmul(v, fsq(r));
    let correct_sign_sqrt = check == u;  let flipped_sign_sqrt = check == fneg(u);
    let flipped_sign_sqrt_i = check == fmul(fneg(u), r255_sqrt_m1());
    let r_prime = fmul(r255_sqrt_m1(), r);
    let r2 = if flipped_sign_sqrt || flipped_sign_sqrt_i { r_prime } else { r };
    (correct_sign_sqrt || flipped_sign_sqrt, r255_ct_abs(r2))
    ``` -/
def sqrtRatioM1 (ctAbs : F → F) (m : ℕ) (i u v : F) : Bool × F :=
  let r := sqrtCand m u v
  let check := v * r ^ 2
  let correct_sign_sqrt : Bool := decide (check = u)
  let flipped_sign_sqrt : Bool := decide (check = -u)
  let flipped_sign_sqrt_i : Bool := decide (check = (-u) * i)
  let r_prime := i * r
  let r2 := if flipped_sign_sqrt || flipped_sign_sqrt_i then r_prime else r
  (correct_sign_sqrt || flipped_sign_sqrt, ctAbs r2)

/-- Verus `r255_map(t)` (lib/ris_spec.vx), same `let` structure; the numerals `r255_sqrt_m1()`, `r255_d()`,
    `r255_one_minus_d_sq()`, `r255_d_minus_one_sq()`, `r255_sqrt_ad_minus_one()` are the parameters
    `i d omd dmo e`:
    ```
    let r = fmul(r255_sqrt_m1(), fsq(t));
    let u = fmul(fadd(r, 1), r255_one_minus_d_sq());
    let v = fmul(fsub(fneg(1), fmul(r, r255_d())), fadd(r, r255_d()));
    let (was_square, s) = sqrt_ratio_m1(u, v);
    let s_prime = fneg(r255_ct_abs(fmul(s, t)));
    let s2 = if was_square { s } else { s_prime };
    let c = if was_square { fneg(1) } else { r };
    let n = fsub(fmul(fmul(c, fsub(r, 1)), r255_d_minus_one_sq()), v);
    let w0 = fmul(fmul(2, s2), v);  let w1 = fmul(n, r255_sqrt_ad_minus_one());
    let w2 = fsub(1, fsq(s2));      let w3 = fadd(1, fsq(s2));
    (fmul(w0, w3), fmul(w2, w1), fmul(w1, w3), fmul(w0, w2))
    ``` -/
def r255Map (ctAbs : F → F) (m : ℕ) (i d omd dmo e : F) (t : F) : F × F × F × F :=
  let r := i * t ^ 2
  let u := (r + 1) * omd
  let v := (-1 - r * d) * (r + d)
  let p := sqrtRatioM1 ctAbs m i u v
  let was_square := p.1
  let s := p.2
  let s_prime := -(ctAbs (s * t))
  let s2 := if was_square then s else s_prime
  let c := if was_square then -1 else r
  let n := c * (r - 1) * dmo - v
  let w0 := 2 * s2 * v
  let w1 := n * e
  let w2 := 1 - s2 ^ 2
  let w3 := 1 + s2 ^ 2
  (w0 * w3, w2 * w1, w1 * w3, w0 * w2)

end Defs

/-! ## §2 The four possible values of the check (first half of M2; see M2.lean for the full statement) -/

section Finite
variable {F : Type*} [Field F] [Fintype F]

theorem card_facts (hq : Fintype.card F % 8 = 5) : (2 : F) ≠ 0 := by
  have hF : ringChar F ≠ 2 := by
    intro h
    have := FiniteField.even_card_iff_char_two.mp h
    omega
  exact Ring.two_ne_zero hF

theorem m2_check_cases (hq : Fintype.card F % 8 = 5) (i : F) (hi : i ^ 2 = -1) (u v : F) (hv : v ≠ 0) :
    v * (sqrtCand ((Fintype.card F - 5) / 8) u v) ^ 2 = u
    ∨ v * (sqrtCand ((Fintype.card F - 5) / 8) u v) ^ 2 = -u
    ∨ v * (sqrtCand ((Fintype.card F - 5) / 8) u v) ^ 2 = i * u
    ∨ v * (sqrtCand ((Fintype.card F - 5) / 8) u v) ^ 2 = -(i * u) := by
  obtain ⟨k, hk⟩ : ∃ k, Fintype.card F = 8 * k + 5 := ⟨Fintype.card F / 8, by omega⟩
  have hk' : (Fintype.card F - 5) / 8 = k := by omega
  have hc : v * (sqrtCand ((Fintype.card F - 5) / 8) u v) ^ 2 = u * (u * v ^ 7) ^ (2 * k + 1) := by
    rw [hk']
    simp only [sqrtCand]
    ring
  rw [hc]
  by_cases hu : u = 0
  · subst hu
    left; ring
  · have hw0 : u * v ^ 7 ≠ 0 := mul_ne_zero hu (pow_ne_zero 7 hv)
    generalize u * v ^ 7 = w at hw0 ⊢
    generalize hz : w ^ (2 * k + 1) = z
    have hz4 : z ^ 4 = 1 := by
      rw [← hz, ← pow_mul]
      have e : (2 * k + 1) * 4 = Fintype.card F - 1 := by omega
      rw [e]
      exact FiniteField.pow_card_sub_one_eq_one w hw0
    have h : (z - 1) * ((z + 1) * ((z - i) * (z + i))) = 0 := by
      linear_combination hz4 - (z ^ 2 - 1) * hi
    rcases mul_eq_zero.mp h with h | h
    · left
      have : z = 1 := by linear_combination h
      rw [this]; ring
    rcases mul_eq_zero.mp h with h | h
    · right; left
      have : z = -1 := by linear_combination h
      rw [this]; ring
    rcases mul_eq_zero.mp h with h | h
    · right; right; left
      have : z = i := by linear_combination h
      rw [this]; ring
    · right; right; right
      have : z = -i := by linear_combination h
      rw [this]; ring

/-! ## §3 Specification of `sqrt_ratio_m1` -/

variable [DecidableEq F]

theorem sqrtRatioM1_spec (hq : Fintype.card F % 8 = 5) (i : F) (hi : i ^ 2 = -1)
    (ctAbs : F → F) (habs : ∀ x, ctAbs x = x ∨ ctAbs x = -x) (u v : F) :
    (v ≠ 0 →
        ((sqrtRatioM1 ctAbs ((Fintype.card F - 5) / 8) i u v).1 = true →
            v * (sqrtRatioM1 ctAbs ((Fintype.card F - 5) / 8) i u v).2 ^ 2 = u)
      ∧ ((sqrtRatioM1 ctAbs ((Fintype.card F - 5) / 8) i u v).1 = false →
            v * (sqrtRatioM1 ctAbs ((Fintype.card F - 5) / 8) i u v).2 ^ 2 = i * u))
    ∧ (v = 0 → (sqrtRatioM1 ctAbs ((Fintype.card F - 5) / 8) i u v).2 = 0) := by
  have h2 : (2 : F) ≠ 0 := card_facts hq
  have habs2 : ∀ x, ctAbs x ^ 2 = x ^ 2 := by
    intro x
    rcases habs x with h | h
    · rw [h]
    · rw [h]; ring
  have habs0 : ctAbs 0 = 0 := by
    rcases habs 0 with h | h
    · exact h
    · rw [h]; ring
  have hi1 : 1 + i ≠ 0 := by
    intro h
    have hi' : i = -1 := by linear_combination h
    rw [hi'] at hi
    apply h2
    linear_combination hi
  constructor
  · intro hv
    have hM2 := m2_check_cases hq i hi u v hv
    generalize (Fintype.card F - 5) / 8 = m at hM2 ⊢
    simp only [sqrtRatioM1, habs2, Bool.or_eq_true, decide_eq_true_eq, Bool.or_eq_false_iff,
      decide_eq_false_iff_not]
    generalize sqrtCand m u v = rc at hM2 ⊢
    have hck : ∀ (b : Prop) [Decidable b],
        v * (if b then i * rc else rc) ^ 2 = if b then -(v * rc ^ 2) else v * rc ^ 2 := by
      intro b _
      split_ifs
      · rw [mul_pow, hi]; ring
      · rfl
    rw [hck]
    generalize v * rc ^ 2 = ck at hM2 ⊢
    constructor
    · intro hws
      split_ifs with hfl
      · rcases hfl with h | h
        · rw [h]; ring
        · rcases hws with h' | h'
          · have hu0 : u = 0 := by
              have h3 : u * (1 + i) = 0 := by rw [h'] at h; linear_combination h
              exact (mul_eq_zero.mp h3).resolve_right hi1
            rw [h', hu0]; ring
          · rw [h']; ring
      · rcases hws with h' | h'
        · exact h'
        · exact absurd (Or.inl h') hfl
    · rintro ⟨hne1, hne2⟩
      split_ifs with hfl
      · rcases hfl with h | h
        · exact absurd h hne2
        · rw [h]; ring
      · rcases hM2 with h | h | h | h
        · exact absurd h hne1
        · exact absurd h hne2
        · exact h
        · exact absurd (Or.inr (by rw [h]; ring)) hfl
  · intro hv
    subst hv
    simp [sqrtRatioM1, sqrtCand, habs0]

/-! ## §4 The Elligator theorem over a finite field with q ≡ 5 (mod 8) -/

omit [Fintype F] [DecidableEq F] in
theorem frac_aux (d N1 N2 D1 D2 : F) (hD1 : D1 ≠ 0) (hD2 : D2 ≠ 0)
    (h : N2 ^ 2 * D1 ^ 2 - N1 ^ 2 * D2 ^ 2 = D1 ^ 2 * D2 ^ 2 + d * (N1 ^ 2 * N2 ^ 2)) :
    (N2 / D2) ^ 2 - (N1 / D1) ^ 2 = 1 + d * ((N1 / D1) ^ 2 * (N2 / D2) ^ 2) := by
  field_simp
  linear_combination h

omit [Fintype F] [DecidableEq F] in
/-- Core of the argument (the isogeny from the Jacobi quartic): if `n^2 (d+1) = (v + v S)^2 + d (v - v S)^2` with
    `S = s2^2`, `v ≠ 0`, then `w1 w3 ≠ 0` and `(w0/w1, w2/w3)` is on the curve. -/
theorem core (d : F) (h2 : (2 : F) ≠ 0) (hd : ¬ ∃ r : F, r ^ 2 = d) (i : F) (hi : i ^ 2 = -1)
    (e : F) (he : e ^ 2 = -d - 1) (v n s2 : F) (hv : v ≠ 0)
    (hid : n ^ 2 * (d + 1) = (v + v * s2 ^ 2) ^ 2 + d * (v - v * s2 ^ 2) ^ 2) :
    (n * e) * (1 + s2 ^ 2) ≠ 0 ∧
    onCurve d ((2 * s2 * v) * (1 + s2 ^ 2) / ((n * e) * (1 + s2 ^ 2)))
              ((1 - s2 ^ 2) * (n * e) / ((n * e) * (1 + s2 ^ 2))) := by
  have hd1 : d ≠ -1 := by
    rintro rfl
    exact hd ⟨i, hi⟩
  have he0 : e ≠ 0 := by
    rintro rfl
    apply hd1
    linear_combination he
  have hn0 : n ≠ 0 := by
    rintro rfl
    by_cases hvr : v - v * s2 ^ 2 = 0
    · have h3 : (v + v * s2 ^ 2) ^ 2 = 0 := by
        have : (v - v * s2 ^ 2) ^ 2 = 0 := by rw [hvr]; ring
        linear_combination -hid - d * this
      have h4 : v + v * s2 ^ 2 = 0 := by simpa using h3
      have h5 : 2 * v = 0 := by linear_combination h4 + hvr
      exact hv ((mul_eq_zero.mp h5).resolve_left h2)
    · apply hd
      refine ⟨i * (v + v * s2 ^ 2) / (v - v * s2 ^ 2), ?_⟩
      rw [div_pow, mul_pow, hi, div_eq_iff (pow_ne_zero 2 hvr)]
      linear_combination hid
  have hS : 1 + s2 ^ 2 ≠ 0 := by
    intro h
    apply hd
    refine ⟨i * n * e / (2 * v), ?_⟩
    rw [div_pow, div_eq_iff (pow_ne_zero 2 (mul_ne_zero h2 hv))]
    linear_combination (n ^ 2 * e ^ 2) * hi + (-n ^ 2) * he + hid
      + (v ^ 2 * (1 + s2 ^ 2) - d * v ^ 2 * (3 - s2 ^ 2)) * h
  have hne : n * e ≠ 0 := mul_ne_zero hn0 he0
  refine ⟨mul_ne_zero hne hS, ?_⟩
  rw [mul_div_mul_right _ _ hS, mul_comm (1 - s2 ^ 2) (n * e), mul_div_mul_left _ _ hne]
  unfold onCurve
  apply frac_aux d _ _ _ _ hne hS
  linear_combination (-4 * s2 ^ 2 * n ^ 2) * he + (4 * s2 ^ 2) * hid

/-- **M5 / `axiom_m5_elligator_on_curve`** over any finite field with `q % 8 = 5` elements.  Verus text:
    ```
    requires 0 <= t < p()
    ensures ({ let q = r255_map(t); q.2 != 0 && on_curve((fdiv(q.0, q.2), fdiv(q.1, q.2))) })
    ``` -/
theorem m5_elligator (hq : Fintype.card F % 8 = 5) (d : F) (hd : ¬ ∃ r : F, r ^ 2 = d)
    (i : F) (hi : i ^ 2 = -1) (ctAbs : F → F) (habs : ∀ x, ctAbs x = x ∨ ctAbs x = -x)
    (omd dmo e : F) (homd : omd = 1 - d ^ 2) (hdmo : dmo = (d - 1) ^ 2) (he : e ^ 2 = -d - 1) (t : F) :
    let q := r255Map ctAbs ((Fintype.card F - 5) / 8) i d omd dmo e t
    q.2.2.1 ≠ 0 ∧ onCurve d (q.1 / q.2.2.1) (q.2.1 / q.2.2.1) := by
  intro q
  have h2 : (2 : F) ≠ 0 := card_facts hq
  have habs2 : ∀ x, ctAbs x ^ 2 = x ^ 2 := by
    intro x
    rcases habs x with h | h
    · rw [h]
    · rw [h]; ring
  have habs0 : ctAbs 0 = 0 := by
    rcases habs 0 with h | h
    · exact h
    · rw [h]; ring
  have hd0 : d ≠ 0 := by
    rintro rfl
    exact hd ⟨0, by ring⟩
  have hd1 : d ≠ 1 := by
    rintro rfl
    exact hd ⟨1, by ring⟩
  have hdm1 : d ≠ -1 := by
    rintro rfl
    exact hd ⟨i, hi⟩
  have he0 : e ≠ 0 := by
    rintro rfl
    apply hdm1
    linear_combination he
  obtain ⟨hspec1, hspec0⟩ := sqrtRatioM1_spec hq i hi ctAbs habs
    ((i * t ^ 2 + 1) * omd) ((-1 - i * t ^ 2 * d) * (i * t ^ 2 + d))
  simp only [q, r255Map]
  generalize sqrtRatioM1 ctAbs ((Fintype.card F - 5) / 8) i
    ((i * t ^ 2 + 1) * omd) ((-1 - i * t ^ 2 * d) * (i * t ^ 2 + d)) = p at hspec1 hspec0 ⊢
  obtain ⟨ws, s⟩ := p
  simp only at hspec1 hspec0 ⊢
  generalize hr : i * t ^ 2 = r at hspec1 hspec0 ⊢
  subst homd hdmo
  by_cases hv : (-1 - r * d) * (r + d) = 0
  · -- v = 0: s = 0, the image is the identity (0 : w1 : w1 : 0)
    have hs : s = 0 := hspec0 hv
    subst hs
    have hr1 : r ≠ 1 := by
      rintro rfl
      apply hdm1
      have : (1 + d) ^ 2 = 0 := by linear_combination -hv
      have : 1 + d = 0 := by simpa using this
      linear_combination this
    have hr0 : r ≠ 0 := by
      rintro rfl
      apply hd0
      linear_combination -hv
    have hn : (if ws = true then (-1 : F) else r) * (r - 1) * (d - 1) ^ 2 ≠ 0 := by
      refine mul_ne_zero (mul_ne_zero ?_ (sub_ne_zero.mpr hr1)) (pow_ne_zero 2 (sub_ne_zero.mpr hd1))
      split_ifs
      · norm_num
      · exact hr0
    have hs2 : (if ws = true then (0 : F) else -ctAbs (0 * t)) = 0 := by
      split_ifs
      · rfl
      · rw [zero_mul, habs0, neg_zero]
    rw [hs2, hv]
    simp only [sub_zero, mul_zero, ne_eq, zero_pow, OfNat.ofNat_ne_zero, not_false_eq_true,
      add_zero, mul_one, one_mul, zero_div]
    have hw1 : (if ws = true then (-1 : F) else r) * (r - 1) * (d - 1) ^ 2 * e ≠ 0 := mul_ne_zero hn he0
    refine ⟨hw1, ?_⟩
    rw [div_self hw1]
    unfold onCurve
    ring
  · obtain ⟨hsq, hnsq⟩ := hspec1 hv
    cases ws with
    | true =>
      have hvs := hsq rfl
      simp only [if_true]
      have hid : (-1 * (r - 1) * (d - 1) ^ 2 - (-1 - r * d) * (r + d)) ^ 2 * (d + 1)
          = ((-1 - r * d) * (r + d) + (-1 - r * d) * (r + d) * s ^ 2) ^ 2
            + d * ((-1 - r * d) * (r + d) - (-1 - r * d) * (r + d) * s ^ 2) ^ 2 := by
        rw [hvs]; ring
      exact core d h2 hd i hi e he _ _ s hv hid
    | false =>
      have hvs := hnsq rfl
      simp only [Bool.false_eq_true, if_false]
      have hs2 : (-ctAbs (s * t)) ^ 2 = s ^ 2 * t ^ 2 := by
        rw [neg_pow, habs2]; ring
      have hvs2 : (-1 - r * d) * (r + d) * (-ctAbs (s * t)) ^ 2 = r * ((r + 1) * (1 - d ^ 2)) := by
        rw [hs2]
        linear_combination t ^ 2 * hvs + ((r + 1) * (1 - d ^ 2)) * hr
      have hid : (r * (r - 1) * (d - 1) ^ 2 - (-1 - r * d) * (r + d)) ^ 2 * (d + 1)
          = ((-1 - r * d) * (r + d) + (-1 - r * d) * (r + d) * (-ctAbs (s * t)) ^ 2) ^ 2
            + d * ((-1 - r * d) * (r + d) - (-1 - r * d) * (r + d) * (-ctAbs (s * t)) ^ 2) ^ 2 := by
        rw [hvs2]; ring
      exact core d h2 hd i hi e he _ _ _ hv hid

end Finite

/-! ## §5 Instantiation at F = ZMod (2^255 - 19) — assuming only that 2^255 - 19 is prime -/
namespace Inst25519

/-- Verus `p()` (lib/field_spec.vx). -/
abbrev P : ℕ := 57896044618658097711785492504343953926634992332820282019728792003956564819949
/-- Verus `r255_d()` = `ed_d()`. -/
abbrev D : ZMod P := 37095705934669439343138083508754565189542113879843219016388785533085940283555
/-- Verus `r255_sqrt_m1()` = `sqrt_m1()`. -/
abbrev SQRT_M1 : ZMod P := 19681161376707505956807079304988542015446066515923890162744021073123829784752
/-- Verus `r255_one_minus_d_sq()`. -/
abbrev ONE_MINUS_D_SQ : ZMod P :=
  1159843021668779879193775521855586647937357759715417654439879720876111806838
/-- Verus `r255_d_minus_one_sq()`. -/
abbrev D_MINUS_ONE_SQ : ZMod P :=
  40440834346308536858101042469323190826248399146238708352240133220865137265952
/-- Verus `r255_sqrt_ad_minus_one()`. -/
abbrev SQRT_AD_MINUS_ONE : ZMod P :=
  25063068953384623474111414158702152701244531502492656460079210482610430750235
/-- Verus `p58()`. -/
abbrev p58 : ℕ := 7237005577332262213973186563042994240829374041602535252466099000494570602493

theorem P_eq : P = 2 ^ 255 - 19 := by norm_num
theorem P_mod_8 : P % 8 = 5 := by norm_num
theorem p58_eq : p58 = (P - 5) / 8 := by norm_num
theorem D_eq : D * 121666 = -121665 := by reduce_mod_char
theorem sqrt_m1_sq : SQRT_M1 ^ 2 = -1 := by reduce_mod_char
theorem one_minus_d_sq_eq : ONE_MINUS_D_SQ = 1 - D ^ 2 := by reduce_mod_char
theorem d_minus_one_sq_eq : D_MINUS_ONE_SQ = (D - 1) ^ 2 := by reduce_mod_char
/-- `sqrt_ad_minus_one^2 = a d - 1` with `a = -1`. -/
theorem sqrt_ad_minus_one_sq : SQRT_AD_MINUS_ONE ^ 2 = -D - 1 := by reduce_mod_char

/-- Verus `r255_is_negative(x) = (x % 2 == 1)` on the canonical representative. -/
def isNegative (x : ZMod P) : Bool := decide (x.val % 2 = 1)
/-- Verus `r255_ct_abs(x) = if r255_is_negative(x) { fneg(x) } else { x }`. -/
def ctAbs (x : ZMod P) : ZMod P := if isNegative x then -x else x

theorem ctAbs_pm (x : ZMod P) : ctAbs x = x ∨ ctAbs x = -x := by
  unfold ctAbs
  split_ifs
  · exact Or.inr rfl
  · exact Or.inl rfl

theorem two_ne_zero' [Fact (Nat.Prime P)] : (2 : ZMod P) ≠ 0 := by
  intro h
  have h' : ((2 : ℕ) : ZMod P) = 0 := by exact_mod_cast h
  rw [ZMod.natCast_eq_zero_iff] at h'
  exact absurd (Nat.le_of_dvd (by norm_num) h') (by norm_num)

theorem D_pow : D ^ (P / 2) = -1 := by
  have : P / 2 = 28948022309329048855892746252171976963317496166410141009864396001978282409974 := by
    norm_num
  rw [this]
  reduce_mod_char

theorem D_nonsquare [Fact (Nat.Prime P)] : ¬ ∃ r : ZMod P, r ^ 2 = D := by
  rintro ⟨r, hr⟩
  have hsq : IsSquare D := ⟨r, by rw [← hr, sq]⟩
  have hD0 : D ≠ 0 := by
    intro h0
    have := D_pow
    rw [h0, zero_pow (by norm_num)] at this
    have h2 : (2 : ZMod P) = 0 := by linear_combination (2 : ZMod P) * this
    exact two_ne_zero' h2
  rw [ZMod.euler_criterion P hD0, D_pow] at hsq
  have h2 : (2 : ZMod P) = 0 := by linear_combination (-1 : ZMod P) * hsq
  exact two_ne_zero' h2

/-- **`axiom_m5_elligator_on_curve`** over GF(2^255-19) with the RFC 9496 constants and the real `ct_abs`,
    assuming only that 2^255-19 is prime. -/
theorem m5_elligator_25519 [Fact (Nat.Prime P)] (t : ZMod P) :
    let q := r255Map ctAbs p58 SQRT_M1 D ONE_MINUS_D_SQ D_MINUS_ONE_SQ SQRT_AD_MINUS_ONE t
    q.2.2.1 ≠ 0 ∧ onCurve D (q.1 / q.2.2.1) (q.2.1 / q.2.2.1) := by
  have hcard : Fintype.card (ZMod P) = P := ZMod.card P
  have h := m5_elligator (F := ZMod P) (by rw [hcard]; exact P_mod_8) D D_nonsquare SQRT_M1 sqrt_m1_sq
    ctAbs ctAbs_pm ONE_MINUS_D_SQ D_MINUS_ONE_SQ SQRT_AD_MINUS_ONE one_minus_d_sq_eq d_minus_one_sq_eq
    sqrt_ad_minus_one_sq t
  rw [hcard, ← p58_eq] at h
  exact h

/-! ## §6 INTEGER level — exact transliteration of lib/field_spec.vx, lib/edwards_spec.vx, lib/axiom_sqrt_ratio.vx,
lib/ris_spec.vx and of the axiom

The Verus spec functions are re-defined over `ℤ` with `%` (Lean's `%` on `ℤ` is the Euclidean remainder, like Verus's
`%` on `int` for a positive modulus), INCLUDING `r255_is_negative` / `r255_ct_abs` (parity of the canonical
representative), and `axiom_m5_elligator_on_curve` is proved in exactly the Verus phrasing from the `ZMod P` theorem
above; the int-mod-p ↔ ZMod p bridge is FORMAL here. -/
namespace IntLevel

/-- Verus `p()`. -/
def p : ℤ := 57896044618658097711785492504343953926634992332820282019728792003956564819949
/-- Verus `fadd(a, b) = (a + b) % p()`. -/
def fadd (a b : ℤ) : ℤ := (a + b) % p
/-- Verus `fsub(a, b) = (a - b) % p()`. -/
def fsub (a b : ℤ) : ℤ := (a - b) % p
/-- Verus `fneg(a) = (0 - a) % p()`. -/
def fneg (a : ℤ) : ℤ := (0 - a) % p
/-- Verus `fmul(a, b) = (a * b) % p()`. -/
def fmul (a b : ℤ) : ℤ := (a * b) % p
/-- Verus `fsq(a) = (a * a) % p()`. -/
def fsq (a : ℤ) : ℤ := (a * a) % p
/-- Verus `fpow(x, e) = if e == 0 { 1 } else { fmul(x, fpow(x, (e - 1) as nat)) }`. -/
def fpow (x : ℤ) : ℕ → ℤ
  | 0 => 1
  | e + 1 => fmul x (fpow x e)
/-- Verus `p_minus_2()`. -/
def p_minus_2 : ℕ := 57896044618658097711785492504343953926634992332820282019728792003956564819947
/-- Verus `finv(x) = fpow(x, p_minus_2())`. -/
def finv (x : ℤ) : ℤ := fpow x p_minus_2
/-- Verus `fdiv(a, b) = fmul(a, finv(b))`. -/
def fdiv (a b : ℤ) : ℤ := fmul a (finv b)
/-- Verus `ed_d()` (= `r255_d()`, same numeral). -/
def ed_d : ℤ := 37095705934669439343138083508754565189542113879843219016388785533085940283555
/-- Verus `r255_d()`. -/
def r255_d : ℤ := 37095705934669439343138083508754565189542113879843219016388785533085940283555
/-- Verus `r255_sqrt_m1()`. -/
def r255_sqrt_m1 : ℤ := 19681161376707505956807079304988542015446066515923890162744021073123829784752
/-- Verus `r255_sqrt_ad_minus_one()`. -/
def r255_sqrt_ad_minus_one : ℤ :=
  25063068953384623474111414158702152701244531502492656460079210482610430750235
/-- Verus `r255_one_minus_d_sq()`. -/
def r255_one_minus_d_sq : ℤ := 1159843021668779879193775521855586647937357759715417654439879720876111806838
/-- Verus `r255_d_minus_one_sq()`. -/
def r255_d_minus_one_sq : ℤ :=
  40440834346308536858101042469323190826248399146238708352240133220865137265952
/-- Verus `on_curve(a)`. -/
def on_curve (a : ℤ × ℤ) : Prop :=
  0 ≤ a.1 ∧ a.1 < p ∧ 0 ≤ a.2 ∧ a.2 < p
    ∧ fsub (fsq a.2) (fsq a.1) = fadd 1 (fmul ed_d (fmul (fsq a.1) (fsq a.2)))
/-- Verus `r255_is_negative(x) = (x % 2 == 1)`. -/
def r255_is_negative (x : ℤ) : Bool := decide (x % 2 = 1)
/-- Verus `r255_ct_abs(x) = if r255_is_negative(x) { fneg(x) } else { x }`. -/
def r255_ct_abs (x : ℤ) : ℤ := if r255_is_negative x then fneg x else x
/-- Verus `sqrt_cand(u, v)`. -/
def sqrt_cand (u v : ℤ) : ℤ :=
  let v3 := fmul (fsq v) v
  let v7 := fmul (fsq v3) v
  fmul (fmul u v3) (fpow (fmul u v7) p58)
/-- Verus `sqrt_ratio_m1(u, v)`. -/
def sqrt_ratio_m1 (u v : ℤ) : Bool × ℤ :=
  let r := sqrt_cand u v
  let check := fmul v (fsq r)
  let correct_sign_sqrt : Bool := decide (check = u)
  let flipped_sign_sqrt : Bool := decide (check = fneg u)
  let flipped_sign_sqrt_i : Bool := decide (check = fmul (fneg u) r255_sqrt_m1)
  let r_prime := fmul r255_sqrt_m1 r
  let r2 := if flipped_sign_sqrt || flipped_sign_sqrt_i then r_prime else r
  (correct_sign_sqrt || flipped_sign_sqrt, r255_ct_abs r2)
/-- Verus `r255_map(t)`. -/
def r255_map (t : ℤ) : ℤ × ℤ × ℤ × ℤ :=
  let r := fmul r255_sqrt_m1 (fsq t)
  let u := fmul (fadd r 1) r255_one_minus_d_sq
  let v := fmul (fsub (fneg 1) (fmul r r255_d)) (fadd r r255_d)
  let ws_s := sqrt_ratio_m1 u v
  let was_square := ws_s.1
  let s := ws_s.2
  let s_prime := fneg (r255_ct_abs (fmul s t))
  let s2 := if was_square then s else s_prime
  let c := if was_square then fneg 1 else r
  let n := fsub (fmul (fmul c (fsub r 1)) r255_d_minus_one_sq) v
  let w0 := fmul (fmul 2 s2) v
  let w1 := fmul n r255_sqrt_ad_minus_one
  let w2 := fsub 1 (fsq s2)
  let w3 := fadd 1 (fsq s2)
  (fmul w0 w3, fmul w2 w1, fmul w1 w3, fmul w0 w2)

/-! ### The bridge -/

theorem p_eq : p = (P : ℤ) := by norm_num [p, P]
theorem p_pos : 0 < p := by norm_num [p]
theorem p_minus_2_eq : p_minus_2 = P - 2 := by norm_num [p_minus_2, P]
theorem ed_d_cast : ((ed_d : ℤ) : ZMod P) = D := by norm_num [ed_d, D]
theorem r255_d_cast : ((r255_d : ℤ) : ZMod P) = D := by norm_num [r255_d, D]
theorem sqrt_m1_cast : ((r255_sqrt_m1 : ℤ) : ZMod P) = SQRT_M1 := by norm_num [r255_sqrt_m1, SQRT_M1]
theorem sqrt_ad_minus_one_cast : ((r255_sqrt_ad_minus_one : ℤ) : ZMod P) = SQRT_AD_MINUS_ONE := by
  norm_num [r255_sqrt_ad_minus_one, SQRT_AD_MINUS_ONE]
theorem one_minus_d_sq_cast : ((r255_one_minus_d_sq : ℤ) : ZMod P) = ONE_MINUS_D_SQ := by
  norm_num [r255_one_minus_d_sq, ONE_MINUS_D_SQ]
theorem d_minus_one_sq_cast : ((r255_d_minus_one_sq : ℤ) : ZMod P) = D_MINUS_ONE_SQ := by
  norm_num [r255_d_minus_one_sq, D_MINUS_ONE_SQ]

/-- "canonical representative". -/
def canon (x : ℤ) : Prop := 0 ≤ x ∧ x < p

theorem canon_mod (a : ℤ) : canon (a % p) :=
  ⟨Int.emod_nonneg a p_pos.ne', Int.emod_lt_of_pos a p_pos⟩
theorem canon_fmul (a b : ℤ) : canon (fmul a b) := canon_mod _
theorem canon_fneg (a : ℤ) : canon (fneg a) := canon_mod _
theorem canon_sqrt_cand (u v : ℤ) : canon (sqrt_cand u v) := canon_mod _

theorem cast_mod (a : ℤ) : ((a % p : ℤ) : ZMod P) = (a : ZMod P) := by
  rw [p_eq, ZMod.intCast_mod]

/-- canonical integers are equal iff their classes are. -/
theorem cast_eq_iff {a b : ℤ} (ha : canon a) (hb : canon b) : (a : ZMod P) = (b : ZMod P) ↔ a = b := by
  constructor
  · intro h
    have h' := (ZMod.intCast_eq_intCast_iff' a b P).mp h
    rw [← p_eq, Int.emod_eq_of_lt ha.1 ha.2, Int.emod_eq_of_lt hb.1 hb.2] at h'
    exact h'
  · intro h; rw [h]

theorem cast_fadd (a b : ℤ) : ((fadd a b : ℤ) : ZMod P) = (a : ZMod P) + (b : ZMod P) := by
  rw [fadd, cast_mod, Int.cast_add]
theorem cast_fsub (a b : ℤ) : ((fsub a b : ℤ) : ZMod P) = (a : ZMod P) - (b : ZMod P) := by
  rw [fsub, cast_mod, Int.cast_sub]
theorem cast_fneg (a : ℤ) : ((fneg a : ℤ) : ZMod P) = -(a : ZMod P) := by
  rw [fneg, cast_mod, Int.cast_sub, Int.cast_zero, zero_sub]
theorem cast_fmul (a b : ℤ) : ((fmul a b : ℤ) : ZMod P) = (a : ZMod P) * (b : ZMod P) := by
  rw [fmul, cast_mod, Int.cast_mul]
theorem cast_fsq (a : ℤ) : ((fsq a : ℤ) : ZMod P) = (a : ZMod P) ^ 2 := by
  rw [fsq, cast_mod, Int.cast_mul, sq]
theorem cast_fpow (x : ℤ) (e : ℕ) : ((fpow x e : ℤ) : ZMod P) = (x : ZMod P) ^ e := by
  induction e with
  | zero => simp [fpow]
  | succ e ih => rw [fpow, cast_fmul, ih, pow_succ, mul_comm]

/-- (generic exponent `m`, so that nothing tries to evaluate `fpow _ p58` by unfolding) -/
theorem cast_sqrt_cand_aux (m : ℕ) (u v : ℤ) :
    ((fmul (fmul u (fmul (fsq v) v)) (fpow (fmul u (fmul (fsq (fmul (fsq v) v)) v)) m) : ℤ) : ZMod P)
      = sqrtCand m (u : ZMod P) (v : ZMod P) := by
  simp only [sqrtCand, cast_fmul, cast_fsq, cast_fpow]

theorem cast_sqrt_cand (u v : ℤ) :
    ((sqrt_cand u v : ℤ) : ZMod P) = sqrtCand p58 (u : ZMod P) (v : ZMod P) :=
  cast_sqrt_cand_aux p58 u v

/-- the integer `r255_ct_abs` on a canonical value is the `ZMod P`-level `ctAbs` of its class. -/
theorem cast_ct_abs (y : ℤ) (hy : canon y) : ((r255_ct_abs y : ℤ) : ZMod P) = ctAbs (y : ZMod P) := by
  have hval : (((y : ZMod P).val : ℕ) : ℤ) = y := by
    rw [ZMod.val_intCast, ← p_eq, Int.emod_eq_of_lt hy.1 hy.2]
  have hpar : ((y : ZMod P).val % 2 = 1) ↔ (y % 2 = 1) := by omega
  unfold r255_ct_abs ctAbs r255_is_negative isNegative
  by_cases h : y % 2 = 1
  · simp only [h, hpar.mpr h, decide_true, if_true, cast_fneg]
  · have h' : ¬ ((y : ZMod P).val % 2 = 1) := fun hh => h (hpar.mp hh)
    simp only [h, h', decide_false, Bool.false_eq_true, if_false]

/-- `sqrt_ratio_m1` on integers (u canonical) is `sqrtRatioM1` on classes. -/
theorem sqrt_ratio_m1_bridge (u v : ℤ) (hu : canon u) :
    (sqrt_ratio_m1 u v).1 = (sqrtRatioM1 ctAbs p58 SQRT_M1 (u : ZMod P) (v : ZMod P)).1
    ∧ (((sqrt_ratio_m1 u v).2 : ℤ) : ZMod P)
        = (sqrtRatioM1 ctAbs p58 SQRT_M1 (u : ZMod P) (v : ZMod P)).2 := by
  have hcheck : ((fmul v (fsq (sqrt_cand u v)) : ℤ) : ZMod P)
      = (v : ZMod P) * (sqrtCand p58 (u : ZMod P) (v : ZMod P)) ^ 2 := by
    rw [cast_fmul, cast_fsq, cast_sqrt_cand]
  have hc : canon (fmul v (fsq (sqrt_cand u v))) := canon_fmul _ _
  have d1 : decide (fmul v (fsq (sqrt_cand u v)) = u)
      = decide ((v : ZMod P) * (sqrtCand p58 (u : ZMod P) (v : ZMod P)) ^ 2 = (u : ZMod P)) := by
    rw [← hcheck]; exact decide_eq_decide.mpr (cast_eq_iff hc hu).symm
  have d2 : decide (fmul v (fsq (sqrt_cand u v)) = fneg u)
      = decide ((v : ZMod P) * (sqrtCand p58 (u : ZMod P) (v : ZMod P)) ^ 2 = -(u : ZMod P)) := by
    rw [← hcheck, ← cast_fneg]; exact decide_eq_decide.mpr (cast_eq_iff hc (canon_fneg _)).symm
  have d3 : decide (fmul v (fsq (sqrt_cand u v)) = fmul (fneg u) r255_sqrt_m1)
      = decide ((v : ZMod P) * (sqrtCand p58 (u : ZMod P) (v : ZMod P)) ^ 2
          = -(u : ZMod P) * SQRT_M1) := by
    rw [← hcheck, ← sqrt_m1_cast, ← cast_fneg, ← cast_fmul]
    exact decide_eq_decide.mpr (cast_eq_iff hc (canon_fmul _ _)).symm
  simp only [sqrt_ratio_m1, sqrtRatioM1, d1, d2, d3]
  refine ⟨trivial, ?_⟩
  split_ifs
  · rw [cast_ct_abs _ (canon_fmul _ _), cast_fmul, sqrt_m1_cast, cast_sqrt_cand]
  · rw [cast_ct_abs _ (canon_sqrt_cand _ _), cast_sqrt_cand]

/-- class of a 4-tuple. -/
def cq (q : ℤ × ℤ × ℤ × ℤ) : ZMod P × ZMod P × ZMod P × ZMod P :=
  ((q.1 : ZMod P), (q.2.1 : ZMod P), (q.2.2.1 : ZMod P), (q.2.2.2 : ZMod P))

/-- `r255_map` on integers is `r255Map` on classes. -/
theorem r255_map_bridge (t : ℤ) :
    cq (r255_map t)
      = r255Map ctAbs p58 SQRT_M1 D ONE_MINUS_D_SQ D_MINUS_ONE_SQ SQRT_AD_MINUS_ONE (t : ZMod P) := by
  obtain ⟨b1, b2⟩ := sqrt_ratio_m1_bridge
    (fmul (fadd (fmul r255_sqrt_m1 (fsq t)) 1) r255_one_minus_d_sq)
    (fmul (fsub (fneg 1) (fmul (fmul r255_sqrt_m1 (fsq t)) r255_d)) (fadd (fmul r255_sqrt_m1 (fsq t)) r255_d))
    (canon_fmul _ _)
  simp only [cast_fmul, cast_fadd, cast_fsub, cast_fneg, cast_fsq, sqrt_m1_cast, r255_d_cast,
    one_minus_d_sq_cast, Int.cast_one] at b1 b2
  simp only [r255_map, r255Map, cq]
  generalize sqrt_ratio_m1 _ _ = pz at b1 b2 ⊢
  generalize sqrtRatioM1 (F := ZMod P) _ _ _ _ _ = pf at b1 b2 ⊢
  obtain ⟨ws, s⟩ := pz
  obtain ⟨ws', s'⟩ := pf
  simp only at b1 b2
  subst b1 b2
  cases ws <;>
    simp only [cast_fmul, cast_fadd, cast_fsub, cast_fneg, cast_fsq, sqrt_m1_cast, r255_d_cast,
      d_minus_one_sq_cast, sqrt_ad_minus_one_cast, Int.cast_one, Int.cast_ofNat,
      cast_ct_abs _ (canon_fmul _ _), Bool.false_eq_true, if_false, if_true]

theorem on_curve_iff (a : ℤ × ℤ) :
    on_curve a ↔ canon a.1 ∧ canon a.2 ∧ onCurve D (a.1 : ZMod P) (a.2 : ZMod P) := by
  have hcast : ((fsub (fsq a.2) (fsq a.1) : ℤ) : ZMod P)
        = ((fadd 1 (fmul ed_d (fmul (fsq a.1) (fsq a.2))) : ℤ) : ZMod P)
      ↔ onCurve D (a.1 : ZMod P) (a.2 : ZMod P) := by
    simp only [cast_fsub, cast_fadd, cast_fmul, cast_fsq, ed_d_cast, Int.cast_one, onCurve]
  constructor
  · rintro ⟨h1, h2, h3, h4, h5⟩
    exact ⟨⟨h1, h2⟩, ⟨h3, h4⟩, hcast.mp (congrArg _ h5)⟩
  · rintro ⟨⟨h1, h2⟩, ⟨h3, h4⟩, h5⟩
    exact ⟨h1, h2, h3, h4, (cast_eq_iff (a := fsub (fsq a.2) (fsq a.1)) (canon_mod _) (canon_mod _)).mp
      (hcast.mpr h5)⟩

variable [Fact (Nat.Prime P)]

theorem finv_eq (x : ZMod P) : x ^ (P - 2) = x⁻¹ := by
  by_cases hx : x = 0
  · subst hx; simp
  · apply eq_inv_of_mul_eq_one_left
    rw [← pow_succ]
    exact ZMod.pow_card_sub_one_eq_one hx

theorem cast_finv (x : ℤ) : ((finv x : ℤ) : ZMod P) = (x : ZMod P)⁻¹ := by
  rw [finv, cast_fpow, p_minus_2_eq, finv_eq]
theorem cast_fdiv (a b : ℤ) : ((fdiv a b : ℤ) : ZMod P) = (a : ZMod P) / (b : ZMod P) := by
  rw [fdiv, cast_fmul, cast_finv, div_eq_mul_inv]

/-- **M5 / `axiom_m5_elligator_on_curve`**, Verus phrasing:
    ```
    requires 0 <= t < p()
    ensures ({ let q = r255_map(t); q.2 != 0 && on_curve((fdiv(q.0, q.2), fdiv(q.1, q.2))) })
    ```
    (Verus tuple fields `q.0, q.1, q.2` are `q.1, q.2.1, q.2.2.1` of the right-nested Lean tuple.) -/
theorem axiom_m5_elligator_on_curve (t : ℤ) (_ht0 : 0 ≤ t) (_ht1 : t < p) :
    let q := r255_map t
    q.2.2.1 ≠ 0 ∧ on_curve (fdiv q.1 q.2.2.1, fdiv q.2.1 q.2.2.1) := by
  intro q
  have h := m5_elligator_25519 (t : ZMod P)
  rw [← r255_map_bridge t] at h
  obtain ⟨hz, hcurve⟩ := h
  simp only [cq] at hz hcurve
  constructor
  · intro h0
    apply hz
    show ((q.2.2.1 : ℤ) : ZMod P) = 0
    rw [h0, Int.cast_zero]
  · rw [on_curve_iff]
    refine ⟨canon_fmul _ _, canon_fmul _ _, ?_⟩
    simp only [cast_fdiv]
    exact hcurve

end IntLevel

end Inst25519

end M5

#print axioms M5.sqrtRatioM1_spec
#print axioms M5.m5_elligator
#print axioms M5.Inst25519.m5_elligator_25519
#print axioms M5.Inst25519.IntLevel.axiom_m5_elligator_on_curve
