/-
  M6.lean — Lean 4 / Mathlib proof of the "Elligator 2 axiom" M6 of the Verus project
  (/verif/contracts/lib/hw_axioms.vx : `axiom_m6_elligator2_on_curve`):
  Elligator 2 for curve25519 (RFC 9380 §6.7.1; Verus `elligator2_u`, lib/mont_spec.vx) maps EVERY field element r to a
  Montgomery u-coordinate that is (a) not -1 and (b) the u of a point of curve25519 itself (not of the twist), stated
  through the birational map: y = (u-1)/(u+1) admits an x with  -x^2 + y^2 = 1 + d x^2 y^2.
  Consequence (unit HW): `MontgomeryPoint::to_edwards` applied to `elligator_encode(r)` never returns None, i.e. the
  `.expect(..)` in `EdwardsPoint::nonspec_map_to_curve` cannot panic.

  Contents
    §1 definitions mirroring `is_sq_ratio`, `elligator2_x1`, `elligator2_gx`, `elligator2_u`, `rfc7748_u_to_y`, `on_curve`,
       `ed_y_decodable` over a field
    §2 the theorem over an ARBITRARY field in which  i² = -1,  2, A²-4 and A-2 are non-squares,  e² = -(A+2),
       d (A+2) = -(A-2),  and the product of two non-zero non-squares is a square
    §3 instantiation at F = ZMod (2^255-19), A = 486662, d = ed_d(), assuming only `Nat.Prime (2^255-19)`
       (the non-squares by Euler's criterion, evaluated; the two square roots are explicit numerals)
    §4 INTEGER level: the Verus spec functions transliterated over `ℤ` with `%`, and the axiom in exactly the Verus
       phrasing, derived from §3 — the int-mod-p ↔ ZMod p bridge is formal here
  No `sorry`, no extra axioms.
-/
import Mathlib

namespace M6

/-! ## §1 Definitions -/

section Defs
variable {F : Type*} [CommRing F]

/-- Verus `on_curve((x, y))` without the range clause. -/
def onCurve (d x y : F) : Prop := y ^ 2 - x ^ 2 = 1 + d * (x ^ 2 * y ^ 2)

/-- Verus `is_sq_ratio(u, v)`: `exists|x: int| 0 <= x < p() && fmul(v, fsq(x)) == u`. -/
def isSqRatio (u v : F) : Prop := ∃ x : F, v * x ^ 2 = u

/-- Verus `elligator2_gx(x) = fmul(x, fadd(fadd(fsq(x), fmul(mont_a(), x)), 1))`. -/
def ell2Gx (A x : F) : F := x * ((x ^ 2 + A * x) + 1)

/-- Verus `ed_y_decodable(y) = exists|x: int| on_curve((x, y))`. -/
def edYDecodable (d y : F) : Prop := ∃ x : F, onCurve d x y

end Defs

section DefsField
variable {F : Type*} [Field F]

/-- Verus `elligator2_x1(r) = fmul(p() - mont_a(), finv(fadd(1, fmul(2, fsq(r)))))`. -/
def ell2X1 (A r : F) : F := (-A) * (1 + 2 * r ^ 2)⁻¹

open Classical in
/-- Verus `elligator2_u(r)`:
    ```
    let x1 = elligator2_x1(r);
    if is_sq_ratio(elligator2_gx(x1), 1) { x1 } else { fneg(fadd(x1, mont_a())) }
    ``` -/
noncomputable def ell2U (A r : F) : F :=
  let x1 := ell2X1 A r
  if isSqRatio (ell2Gx A x1) 1 then x1 else -(x1 + A)

/-- Verus `rfc7748_u_to_y(u) = fdiv(fsub(u, 1), fadd(u, 1))`. -/
def uToY (u : F) : F := (u - 1) / (u + 1)

end DefsField

/-! ## §2 The theorem over a field -/

section Field
variable {F : Type*} [Field F]

theorem frac_aux (d N1 N2 D1 D2 : F) (hD1 : D1 ≠ 0) (hD2 : D2 ≠ 0)
    (h : N2 ^ 2 * D1 ^ 2 - N1 ^ 2 * D2 ^ 2 = D1 ^ 2 * D2 ^ 2 + d * (N1 ^ 2 * N2 ^ 2)) :
    (N2 / D2) ^ 2 - (N1 / D1) ^ 2 = 1 + d * ((N1 / D1) ^ 2 * (N2 / D2) ^ 2) := by
  field_simp
  linear_combination h

theorem ell2U_cases (A r : F) :
    (isSqRatio (ell2Gx A (ell2X1 A r)) 1 ∧ ell2U A r = ell2X1 A r)
    ∨ (¬ isSqRatio (ell2Gx A (ell2X1 A r)) 1 ∧ ell2U A r = -(ell2X1 A r + A)) := by
  unfold ell2U
  by_cases h : isSqRatio (ell2Gx A (ell2X1 A r)) 1
  · left
    exact ⟨h, by simp only [if_pos h]⟩
  · right
    exact ⟨h, by simp only [if_neg h]⟩

/-- The heart of Elligator 2: `g(u) = u³ + A u² + u` is a square for `u = elligator2_u(r)`. -/
theorem g_is_square (A i : F) (hi : i ^ 2 = -1)
    (h2 : ¬ ∃ s : F, s ^ 2 = 2) (hA4 : ¬ ∃ s : F, s ^ 2 = A ^ 2 - 4)
    (hmul : ∀ a b : F, a ≠ 0 → b ≠ 0 → (¬ ∃ s : F, s ^ 2 = a) → (¬ ∃ s : F, s ^ 2 = b) → ∃ s : F, s ^ 2 = a * b)
    (r : F) : ∃ w : F, w ^ 2 = ell2Gx A (ell2U A r) := by
  have h20 : (2 : F) ≠ 0 := by
    intro h
    exact h2 ⟨0, by rw [h]; ring⟩
  have hD : 1 + 2 * r ^ 2 ≠ 0 := by
    intro h
    have hr : r ≠ 0 := by
      rintro rfl
      simp at h
    apply h2
    refine ⟨i / r, ?_⟩
    rw [div_pow, hi, div_eq_iff (pow_ne_zero 2 hr)]
    linear_combination -h
  have hQ : ∀ x : F, x ^ 2 + A * x + 1 ≠ 0 := by
    intro x h
    apply hA4
    exact ⟨2 * x + A, by linear_combination 4 * h⟩
  have hA0 : A ≠ 0 := by
    rintro rfl
    exact hA4 ⟨2 * i, by rw [mul_pow, hi]; ring⟩
  have hx1 : ell2X1 A r * (1 + 2 * r ^ 2) = -A := by
    rw [ell2X1, mul_assoc, inv_mul_cancel₀ hD, mul_one]
  rcases ell2U_cases A r with ⟨hsq, hu⟩ | ⟨hsq, hu⟩
  · obtain ⟨x, hx⟩ := hsq
    exact ⟨x, by rw [hu, ← hx]; ring⟩
  · rw [hu]
    generalize ell2X1 A r = x1 at hx1 hsq ⊢
    have hx10 : x1 ≠ 0 := by
      intro h
      rw [h, zero_mul] at hx1
      exact hA0 (by linear_combination hx1)
    by_cases hr : r = 0
    · refine ⟨0, ?_⟩
      have hxa : x1 = -A := by
        rw [hr] at hx1
        linear_combination hx1
      rw [hxa]
      unfold ell2Gx
      ring
    · have hg0 : ell2Gx A x1 ≠ 0 := mul_ne_zero hx10 (hQ x1)
      have hgns : ¬ ∃ s : F, s ^ 2 = ell2Gx A x1 := by
        rintro ⟨s, hs⟩
        exact hsq ⟨s, by rw [one_mul]; exact hs⟩
      obtain ⟨s, hs⟩ := hmul 2 (ell2Gx A x1) h20 hg0 h2 hgns
      refine ⟨r * s, ?_⟩
      rw [mul_pow, hs]
      unfold ell2Gx
      linear_combination (x1 ^ 2 + A * x1 + 1) * hx1

/-- **M6 / `axiom_m6_elligator2_on_curve`** over any field with the listed number-theoretic side conditions. Verus text:
    ```
    requires 0 <= r < p()
    ensures elligator2_u(r) != p() - 1, ed_y_decodable(rfc7748_u_to_y(elligator2_u(r))),
    ``` -/
theorem m6_elligator2 (A d i e : F) (hi : i ^ 2 = -1)
    (h2 : ¬ ∃ s : F, s ^ 2 = 2) (hA4 : ¬ ∃ s : F, s ^ 2 = A ^ 2 - 4) (hAm2 : ¬ ∃ s : F, s ^ 2 = A - 2)
    (he : e ^ 2 = -(A + 2)) (hd : d * (A + 2) = -(A - 2))
    (hmul : ∀ a b : F, a ≠ 0 → b ≠ 0 → (¬ ∃ s : F, s ^ 2 = a) → (¬ ∃ s : F, s ^ 2 = b) → ∃ s : F, s ^ 2 = a * b)
    (r : F) :
    ell2U A r ≠ -1 ∧ edYDecodable d (uToY (ell2U A r)) := by
  obtain ⟨w, hw⟩ := g_is_square A i hi h2 hA4 hmul r
  have hQ : ∀ x : F, x ^ 2 + A * x + 1 ≠ 0 := by
    intro x h
    apply hA4
    exact ⟨2 * x + A, by linear_combination 4 * h⟩
  generalize ell2U A r = u at hw ⊢
  unfold ell2Gx at hw
  have hu1 : u ≠ -1 := by
    rintro rfl
    apply hAm2
    exact ⟨w, by rw [hw]; ring⟩
  refine ⟨hu1, ?_⟩
  have hup : u + 1 ≠ 0 := by
    intro h
    apply hu1
    linear_combination h
  unfold edYDecodable uToY
  by_cases hw0 : w = 0
  · have hu0 : u = 0 := by
      have h' : u * (u ^ 2 + A * u + 1) = 0 := by
        rw [← hw, hw0]; ring
      rcases mul_eq_zero.mp h' with h | h
      · exact h
      · exact absurd h (hQ u)
    refine ⟨0, ?_⟩
    rw [hu0]
    unfold onCurve
    have hy : ((0 : F) - 1) / (0 + 1) = -1 := by norm_num
    rw [hy]
    ring
  · refine ⟨e * u / w, ?_⟩
    unfold onCurve
    apply frac_aux d (e * u) (u - 1) w (u + 1) hw0 hup
    linear_combination (-4 * u) * hw + (-(u ^ 2 * (u + 1) ^ 2) - d * u ^ 2 * (u - 1) ^ 2) * he
      + (u ^ 2 * (u - 1) ^ 2) * hd

end Field

/-! ## §3 Instantiation at F = ZMod (2^255 - 19) — assuming only that 2^255 - 19 is prime -/
namespace Inst25519

/-- Verus `p()` (lib/field_spec.vx). -/
abbrev P : ℕ := 57896044618658097711785492504343953926634992332820282019728792003956564819949
/-- Verus `ed_d()`. -/
abbrev D : ZMod P := 37095705934669439343138083508754565189542113879843219016388785533085940283555
/-- Verus `sqrt_m1()`. -/
abbrev SQRT_M1 : ZMod P := 19681161376707505956807079304988542015446066515923890162744021073123829784752
/-- Verus `mont_a()` (RFC 7748: A = 486662). -/
abbrev A : ZMod P := 486662
/-- a square root of -(A + 2) = -486664 (the constant of the birational map of RFC 7748 §4.1; not used by Verus). -/
abbrev SQRT_NEG_APLUS2 : ZMod P :=
  6853475219497561581579357271197624642482790079785650197046958215289687604742

theorem P_eq : P = 2 ^ 255 - 19 := by norm_num
theorem D_eq : D * 121666 = -121665 := by reduce_mod_char
theorem sqrt_m1_sq : SQRT_M1 ^ 2 = -1 := by reduce_mod_char
theorem sqrt_neg_aplus2_sq : SQRT_NEG_APLUS2 ^ 2 = -(A + 2) := by reduce_mod_char
/-- d = -(A-2)/(A+2) = -121665/121666. -/
theorem D_A : D * (A + 2) = -(A - 2) := by reduce_mod_char

theorem half_P : P / 2 = 28948022309329048855892746252171976963317496166410141009864396001978282409974 := by
  norm_num

theorem two_pow : (2 : ZMod P) ^ (P / 2) = -1 := by
  rw [half_P]
  reduce_mod_char
theorem A4_pow : (A ^ 2 - 4 : ZMod P) ^ (P / 2) = -1 := by
  rw [half_P]
  reduce_mod_char
theorem Am2_pow : (A - 2 : ZMod P) ^ (P / 2) = -1 := by
  rw [half_P]
  reduce_mod_char

theorem two_ne_zero' [Fact (Nat.Prime P)] : (2 : ZMod P) ≠ 0 := by
  intro h
  have h' : ((2 : ℕ) : ZMod P) = 0 := by exact_mod_cast h
  rw [ZMod.natCast_eq_zero_iff] at h'
  exact absurd (Nat.le_of_dvd (by norm_num) h') (by norm_num)

/-- Euler's criterion, the direction used here: `a^((p-1)/2) = -1` implies `a` is not a square. -/
theorem nonsquare_of_pow [Fact (Nat.Prime P)] (a : ZMod P) (ha : a ^ (P / 2) = -1) : ¬ ∃ r : ZMod P, r ^ 2 = a := by
  rintro ⟨r, hr⟩
  have hsq : IsSquare a := ⟨r, by rw [← hr, sq]⟩
  have ha0 : a ≠ 0 := by
    intro h0
    rw [h0, zero_pow (by norm_num)] at ha
    have h2 : (2 : ZMod P) = 0 := by linear_combination (2 : ZMod P) * ha
    exact two_ne_zero' h2
  rw [ZMod.euler_criterion P ha0, ha] at hsq
  have h2 : (2 : ZMod P) = 0 := by linear_combination (-1 : ZMod P) * hsq
  exact two_ne_zero' h2

/-- the non-zero squares have index 2: the product of two non-squares is a square. -/
theorem nonsquare_mul [Fact (Nat.Prime P)] (a b : ZMod P) (ha : a ≠ 0) (hb : b ≠ 0)
    (hna : ¬ ∃ s : ZMod P, s ^ 2 = a) (hnb : ¬ ∃ s : ZMod P, s ^ 2 = b) : ∃ s : ZMod P, s ^ 2 = a * b := by
  have key : ∀ c : ZMod P, c ≠ 0 → (¬ ∃ s : ZMod P, s ^ 2 = c) → c ^ (P / 2) = -1 := by
    intro c hc hnc
    rcases ZMod.pow_div_two_eq_neg_one_or_one P hc with h | h
    · exfalso
      apply hnc
      obtain ⟨s, hs⟩ := (ZMod.euler_criterion P hc).mpr h
      exact ⟨s, by rw [hs, sq]⟩
    · exact h
  have hab : (a * b) ^ (P / 2) = 1 := by
    rw [mul_pow, key a ha hna, key b hb hnb]
    ring
  obtain ⟨s, hs⟩ := (ZMod.euler_criterion P (mul_ne_zero ha hb)).mpr hab
  exact ⟨s, by rw [hs, sq]⟩

/-- **`axiom_m6_elligator2_on_curve`** over GF(2^255-19), assuming only that 2^255-19 is prime. -/
theorem m6_elligator2_25519 [Fact (Nat.Prime P)] (r : ZMod P) :
    ell2U A r ≠ -1 ∧ edYDecodable D (uToY (ell2U A r)) :=
  m6_elligator2 A D SQRT_M1 SQRT_NEG_APLUS2 sqrt_m1_sq (nonsquare_of_pow 2 two_pow)
    (nonsquare_of_pow _ A4_pow) (nonsquare_of_pow _ Am2_pow) sqrt_neg_aplus2_sq D_A nonsquare_mul r

/-! ## §4 INTEGER level — exact transliteration of lib/field_spec.vx, lib/edwards_spec.vx, lib/axiom_sqrt_ratio.vx
(`is_sq_ratio`), lib/mont_spec.vx (`mont_a`, `elligator2_*`, `rfc7748_u_to_y`) and of the axiom

The Verus spec functions are re-defined over `ℤ` with `%` (Lean's `%` on `ℤ` is the Euclidean remainder, like Verus's
`%` on `int` for a positive modulus), and `axiom_m6_elligator2_on_curve` is proved in exactly the Verus phrasing from the
`ZMod P` theorem above; the int-mod-p ↔ ZMod p bridge is FORMAL here. -/
namespace IntLevel

/-- Verus `p()`. -/
def p : ℤ := 57896044618658097711785492504343953926634992332820282019728792003956564819949
/-- Verus `fadd(a, b) = (a + b) % p()`. -/
def fadd (a b : ℤ) : ℤ := (a + b) % p
/-- Verus `fsub(a, b) = (a - b) % p()`. -/
def fsub (a b : ℤ) : ℤ := (a - b) % p
/-- Verus `fneg(a) = (0 - a) % p()`. -/
def fneg (a : ℤ) : ℤ := (0 - a) % p
/-- Verus `fmul(a, b) = (a * b) % p()`. -/
def fmul (a b : ℤ) : ℤ := (a * b) % p
/-- Verus `fsq(a) = (a * a) % p()`. -/
def fsq (a : ℤ) : ℤ := (a * a) % p
/-- Verus `fpow(x, e) = if e == 0 { 1 } else { fmul(x, fpow(x, (e - 1) as nat)) }`. -/
def fpow (x : ℤ) : ℕ → ℤ
  | 0 => 1
  | e + 1 => fmul x (fpow x e)
/-- Verus `p_minus_2()`. -/
def p_minus_2 : ℕ := 57896044618658097711785492504343953926634992332820282019728792003956564819947
/-- Verus `finv(x) = fpow(x, p_minus_2())`. -/
def finv (x : ℤ) : ℤ := fpow x p_minus_2
/-- Verus `fdiv(a, b) = fmul(a, finv(b))`. -/
def fdiv (a b : ℤ) : ℤ := fmul a (finv b)
/-- Verus `ed_d()`. -/
def ed_d : ℤ := 37095705934669439343138083508754565189542113879843219016388785533085940283555
/-- Verus `mont_a()`. -/
def mont_a : ℤ := 486662
/-- Verus `on_curve(a)`. -/
def on_curve (a : ℤ × ℤ) : Prop :=
  0 ≤ a.1 ∧ a.1 < p ∧ 0 ≤ a.2 ∧ a.2 < p
    ∧ fsub (fsq a.2) (fsq a.1) = fadd 1 (fmul ed_d (fmul (fsq a.1) (fsq a.2)))
/-- Verus `ed_y_decodable(y) = exists|x: int| on_curve((x, y))`. -/
def ed_y_decodable (y : ℤ) : Prop := ∃ x : ℤ, on_curve (x, y)
/-- Verus `is_sq_ratio(u, v) = exists|x: int| 0 <= x < p() && fmul(v, fsq(x)) == u`. -/
def is_sq_ratio (u v : ℤ) : Prop := ∃ x : ℤ, 0 ≤ x ∧ x < p ∧ fmul v (fsq x) = u
/-- Verus `elligator2_x1(r) = fmul(p() - mont_a(), finv(fadd(1, fmul(2, fsq(r)))))`. -/
def elligator2_x1 (r : ℤ) : ℤ := fmul (p - mont_a) (finv (fadd 1 (fmul 2 (fsq r))))
/-- Verus `elligator2_gx(x) = fmul(x, fadd(fadd(fsq(x), fmul(mont_a(), x)), 1))`. -/
def elligator2_gx (x : ℤ) : ℤ := fmul x (fadd (fadd (fsq x) (fmul mont_a x)) 1)
open Classical in
/-- Verus `elligator2_u(r)`:
    `let x1 = elligator2_x1(r); if is_sq_ratio(elligator2_gx(x1), 1) { x1 } else { fneg(fadd(x1, mont_a())) }`. -/
noncomputable def elligator2_u (r : ℤ) : ℤ :=
  let x1 := elligator2_x1 r
  if is_sq_ratio (elligator2_gx x1) 1 then x1 else fneg (fadd x1 mont_a)
/-- Verus `rfc7748_u_to_y(u) = fdiv(fsub(u, 1), fadd(u, 1))`. -/
def rfc7748_u_to_y (u : ℤ) : ℤ := fdiv (fsub u 1) (fadd u 1)

/-! ### The bridge -/

theorem p_eq : p = (P : ℤ) := by norm_num [p, P]
theorem p_pos : 0 < p := by norm_num [p]
theorem p_minus_2_eq : p_minus_2 = P - 2 := by norm_num [p_minus_2, P]
theorem ed_d_cast : ((ed_d : ℤ) : ZMod P) = D := by norm_num [ed_d, D]
theorem mont_a_cast : ((mont_a : ℤ) : ZMod P) = A := by norm_num [mont_a, A]
theorem p_cast : ((p : ℤ) : ZMod P) = 0 := by
  rw [p_eq, Int.cast_natCast, ZMod.natCast_self]

/-- "canonical representative". -/
def canon (x : ℤ) : Prop := 0 ≤ x ∧ x < p

theorem canon_mod (a : ℤ) : canon (a % p) :=
  ⟨Int.emod_nonneg a p_pos.ne', Int.emod_lt_of_pos a p_pos⟩
theorem canon_fmul (a b : ℤ) : canon (fmul a b) := canon_mod _
theorem canon_fneg (a : ℤ) : canon (fneg a) := canon_mod _

theorem cast_mod (a : ℤ) : ((a % p : ℤ) : ZMod P) = (a : ZMod P) := by
  rw [p_eq, ZMod.intCast_mod]

/-- canonical integers are equal iff their classes are. -/
theorem cast_eq_iff {a b : ℤ} (ha : canon a) (hb : canon b) : (a : ZMod P) = (b : ZMod P) ↔ a = b := by
  constructor
  · intro h
    have h' := (ZMod.intCast_eq_intCast_iff' a b P).mp h
    rw [← p_eq, Int.emod_eq_of_lt ha.1 ha.2, Int.emod_eq_of_lt hb.1 hb.2] at h'
    exact h'
  · intro h; rw [h]

theorem cast_fadd (a b : ℤ) : ((fadd a b : ℤ) : ZMod P) = (a : ZMod P) + (b : ZMod P) := by
  rw [fadd, cast_mod, Int.cast_add]
theorem cast_fsub (a b : ℤ) : ((fsub a b : ℤ) : ZMod P) = (a : ZMod P) - (b : ZMod P) := by
  rw [fsub, cast_mod, Int.cast_sub]
theorem cast_fneg (a : ℤ) : ((fneg a : ℤ) : ZMod P) = -(a : ZMod P) := by
  rw [fneg, cast_mod, Int.cast_sub, Int.cast_zero, zero_sub]
theorem cast_fmul (a b : ℤ) : ((fmul a b : ℤ) : ZMod P) = (a : ZMod P) * (b : ZMod P) := by
  rw [fmul, cast_mod, Int.cast_mul]
theorem cast_fsq (a : ℤ) : ((fsq a : ℤ) : ZMod P) = (a : ZMod P) ^ 2 := by
  rw [fsq, cast_mod, Int.cast_mul, sq]
theorem cast_fpow (x : ℤ) (e : ℕ) : ((fpow x e : ℤ) : ZMod P) = (x : ZMod P) ^ e := by
  induction e with
  | zero => simp [fpow]
  | succ e ih => rw [fpow, cast_fmul, ih, pow_succ, mul_comm]

theorem on_curve_iff (a : ℤ × ℤ) :
    on_curve a ↔ canon a.1 ∧ canon a.2 ∧ onCurve D (a.1 : ZMod P) (a.2 : ZMod P) := by
  have hcast : ((fsub (fsq a.2) (fsq a.1) : ℤ) : ZMod P)
        = ((fadd 1 (fmul ed_d (fmul (fsq a.1) (fsq a.2))) : ℤ) : ZMod P)
      ↔ onCurve D (a.1 : ZMod P) (a.2 : ZMod P) := by
    simp only [cast_fsub, cast_fadd, cast_fmul, cast_fsq, ed_d_cast, Int.cast_one, onCurve]
  constructor
  · rintro ⟨h1, h2, h3, h4, h5⟩
    exact ⟨⟨h1, h2⟩, ⟨h3, h4⟩, hcast.mp (congrArg _ h5)⟩
  · rintro ⟨⟨h1, h2⟩, ⟨h3, h4⟩, h5⟩
    exact ⟨h1, h2, h3, h4, (cast_eq_iff (a := fsub (fsq a.2) (fsq a.1)) (canon_mod _) (canon_mod _)).mp
      (hcast.mpr h5)⟩

/-- the canonical representative of a class, as an integer. -/
theorem canon_val (x : ZMod P) : canon ((x.val : ℕ) : ℤ) := by
  refine ⟨by positivity, ?_⟩
  rw [p_eq]
  exact_mod_cast ZMod.val_lt x
theorem cast_val (x : ZMod P) : ((((x.val : ℕ) : ℤ)) : ZMod P) = x := by
  rw [Int.cast_natCast, ZMod.natCast_zmod_val]

/-- `is_sq_ratio(g, 1)` on a canonical integer is `isSqRatio` on its class. -/
theorem is_sq_ratio_iff (g : ℤ) (hg : canon g) : is_sq_ratio g 1 ↔ isSqRatio (g : ZMod P) 1 := by
  constructor
  · rintro ⟨x, _, _, h⟩
    refine ⟨(x : ZMod P), ?_⟩
    have h' := congrArg (Int.cast : ℤ → ZMod P) h
    rw [cast_fmul, cast_fsq] at h'
    exact h'
  · rintro ⟨x, hx⟩
    refine ⟨((x.val : ℕ) : ℤ), (canon_val x).1, (canon_val x).2, ?_⟩
    apply (cast_eq_iff (canon_fmul _ _) hg).mp
    rw [cast_fmul, cast_fsq, cast_val]
    exact hx

variable [Fact (Nat.Prime P)]

theorem finv_eq (x : ZMod P) : x ^ (P - 2) = x⁻¹ := by
  by_cases hx : x = 0
  · subst hx; simp
  · apply eq_inv_of_mul_eq_one_left
    rw [← pow_succ]
    exact ZMod.pow_card_sub_one_eq_one hx

theorem cast_finv (x : ℤ) : ((finv x : ℤ) : ZMod P) = (x : ZMod P)⁻¹ := by
  rw [finv, cast_fpow, p_minus_2_eq, finv_eq]
theorem cast_fdiv (a b : ℤ) : ((fdiv a b : ℤ) : ZMod P) = (a : ZMod P) / (b : ZMod P) := by
  rw [fdiv, cast_fmul, cast_finv, div_eq_mul_inv]

theorem cast_x1 (r : ℤ) : ((elligator2_x1 r : ℤ) : ZMod P) = ell2X1 A (r : ZMod P) := by
  simp only [elligator2_x1, ell2X1, cast_fmul, cast_finv, cast_fadd, cast_fsq, Int.cast_sub, p_cast, mont_a_cast,
    Int.cast_one, Int.cast_ofNat, zero_sub]

theorem cast_gx (x : ℤ) : ((elligator2_gx x : ℤ) : ZMod P) = ell2Gx A (x : ZMod P) := by
  simp only [elligator2_gx, ell2Gx, cast_fmul, cast_fadd, cast_fsq, mont_a_cast, Int.cast_one]

/-- `elligator2_u` on integers is `ell2U` on classes. -/
theorem cast_u (r : ℤ) : ((elligator2_u r : ℤ) : ZMod P) = ell2U A (r : ZMod P) := by
  have hiff : is_sq_ratio (elligator2_gx (elligator2_x1 r)) 1
      ↔ isSqRatio (ell2Gx A (ell2X1 A (r : ZMod P))) 1 := by
    rw [is_sq_ratio_iff _ (show canon (elligator2_gx (elligator2_x1 r)) from canon_fmul _ _), cast_gx, cast_x1]
  unfold elligator2_u ell2U
  by_cases h : is_sq_ratio (elligator2_gx (elligator2_x1 r)) 1
  · simp only [if_pos h, if_pos (hiff.mp h)]
    exact cast_x1 r
  · simp only [if_neg h, if_neg (fun h' => h (hiff.mpr h'))]
    rw [cast_fneg, cast_fadd, cast_x1, mont_a_cast]

/-- **M6 / `axiom_m6_elligator2_on_curve`**, Verus phrasing:
    ```
    requires 0 <= r < p()
    ensures
        elligator2_u(r) != p() - 1,
        ed_y_decodable(rfc7748_u_to_y(elligator2_u(r))),
    ``` -/
theorem axiom_m6_elligator2_on_curve (r : ℤ) (_hr0 : 0 ≤ r) (_hr1 : r < p) :
    elligator2_u r ≠ p - 1 ∧ ed_y_decodable (rfc7748_u_to_y (elligator2_u r)) := by
  obtain ⟨hne, x, hx⟩ := m6_elligator2_25519 (r : ZMod P)
  rw [← cast_u r] at hne hx
  constructor
  · intro h
    apply hne
    rw [h, Int.cast_sub, p_cast, Int.cast_one, zero_sub]
  · refine ⟨((x.val : ℕ) : ℤ), ?_⟩
    rw [on_curve_iff]
    refine ⟨canon_val x, canon_fmul _ _, ?_⟩
    show onCurve D ((((x.val : ℕ) : ℤ)) : ZMod P) ((rfc7748_u_to_y (elligator2_u r) : ℤ) : ZMod P)
    rw [cast_val, rfc7748_u_to_y, cast_fdiv, cast_fsub, cast_fadd, Int.cast_one]
    exact hx

end IntLevel

end Inst25519

end M6

#print axioms M6.g_is_square
#print axioms M6.m6_elligator2
#print axioms M6.Inst25519.m6_elligator2_25519
#print axioms M6.Inst25519.IntLevel.axiom_m6_elligator2_on_curve
